"""C16 - measurement-report queries return exactly the matching groups.

Implementation driven (real code from $VERIF_REPO/src):
  sr.MeasurementReport (built from sr.PlanarROIMeasurementsAndQualitativeEvaluations,
  sr.VolumetricROIMeasurementsAndQualitativeEvaluations, sr.MeasurementsAndQualitativeEvaluations),
  get_planar_roi_measurement_groups / get_volumetric_roi_measurement_groups /
  get_image_measurement_groups with every filter, the group accessors, in memory, as content of a
  Comprehensive3DSR document and after save_as + srread; groups with and without
  ContentTemplateSequence; hand-damaged content trees; the shipped SR fixtures.
Model: coq/theories/C16_Model.v; theorems: C16_Props.v.

Case kinds
  report_mem / report_doc / report_file : constructor-level records -> report -> all three queries for a
      list of filter sets (model: run_queries over `build`)
  report_notid : same, ContentTemplateSequence stripped from some/all group containers
  acc          : accessors of every group returned by the unfiltered queries (model: run_accessors)
  refuse       : filter combinations that must be / must not be refused
  tree         : damaged content trees (duplicated / missing / foreign reference items, wrong template
                 ids, non-group containers): the tree is rendered item by item (model: run_tree_queries)
  fixture      : shipped sr_document*.dcm rendered as trees
  report_codes : reports whose coded concepts (finding, sites, category, method, names ...) are drawn from few
                 code values x {no scheme version, version 2.1, version 3.0} x {two scheme designators}, SNOMED
                 members stored in SCT or retired SRT spelling; code filters = the exact code of a group, a sibling
                 variant (must not match) or unused, given as Code or CodedConcept (independently of the stored
                 class), in SCT / SRT spelling, with the stored or another code meaning (model: run_queries, the
                 codes rendered as `ck value scheme version`)
  acc_codes    : accessors of such groups; get_measurements / get_qualitative_evaluations by name where stored
                 names and name arguments carry scheme versions (exact stored name or a sibling variant)
  acc_tree     : accessors of every group the unfiltered queries return on DAMAGED trees (same mutations as `tree`,
                 incl. groups seen through another template class after a wrong template id): every accessor
                 observed separately, exceptions included (model: run_tree_accessors on the rendered tree) - drives
                 the RuntimeError branches of reference_type / roi / referenced_segment(ation_frame) and
                 content.py *.from_sequence
  acc_fixture  : the same on the shipped sr_document*.dcm
  construct    : the ARGUMENT CHECKS of the template classes (model: run_construct_planar / run_construct_volumetric):
                 none / one / several reference arguments, objects of the wrong class, ImageRegion3D among volumetric
                 regions, empty region list, ReferencedSegment / VolumeSurface built with images / an EMPTY image list
                 (refused since fix D107) / a series / nothing, volume surfaces of 0..3 items of every graphic type; observed: the stage that
                 refuses (object / group) with the exception class, or - when accepted - every accessor of the group
  acc_values   : MEASUREMENT VALUES as real numbers instead of small integers: Python floats whose shortest repr needs
                 more than the 16 characters of a DS string (1/3, 0.1+0.2, 1000*pi, random doubles of every magnitude,
                 subnormal / huge), floats that fit, integral floats, Python ints up to 16 characters; few values per
                 report so that they collide between groups.  x the HISTORY of the report: in memory, from_sequence
                 of the in-memory object, Comprehensive3DSR.from_dataset, save_as + srread, the bare content tree
                 through dcmwrite + dcmread (explicit / implicit VR) + MeasurementReport.from_sequence, and two file
                 round trips in a row, the DICOM JSON model (to_json + from_json).  Every value is observed EXACTLY (key of the double, see vkey); model:
                 run_accessors_enc (records; Floating Point Value present iff the value was a float; the encoded
                 histories pass the tree through `encode` with the DS strings pydicom writes as table)
  acc_num_tree : NUM items as other writers leave them, in memory: Floating Point Value dropped, Numeric Value
                 re-read from its DS string (what decoding yields), Floating Point Value inconsistent with Numeric
                 Value (the exact attribute wins), Floating Point Value added to an integer; tree rendered item by
                 item with both attributes (model: run_tree_accessors), oracle from the attribute definitions of PS3.3
  acc_geom     : REGION GEOMETRY: the regions (ImageRegion, ImageRegion3D, the items of a VolumeSurface) carry random
                 coordinates instead of one fixed array per graphic type, handed to the constructors as ndarrays of
                 every MEMORY LAYOUT (C order, Fortran order, transposed view, column / row slices of wider C- and
                 F-ordered arrays, planes of 3-D blocks, negative strides, non-native byte order, read-only) and dtype
                 (float64 / float32 / big-endian float64 / signed and unsigned ints); a volume surface gets its items as
                 list / tuple / one 2-D array / one stacked 3-D block (C or F order); pixel origin interpretation and
                 frame of reference vary.  x the history of the report (memory, from_sequence, from_dataset, file, two
                 files, dcmwrite/dcmread explicit / implicit VR, JSON).  Observed per returned group: every accessor as
                 in `acc` AND, per coordinate-bearing reference item of roi, the stored GraphicData and the array `value`
                 / VolumeSurface.graphic_data return, exactly (key of each double).  Model: run_accessors_geom (the
                 LOGICAL arrays; coordinates of encoded histories rounded to binary32 = VR FL of Graphic Data, table passed by
                 the harness); the memory layout / dtype of the ndarray is outside the model (its input is the logical
                 array) - that dimension is judged by the oracle and by the model comparison on the logical array
  acc_meas     : THE MEASUREMENTS IN FULL (TID 300 behind get_measurements): every measurement of a group is constructed
                 with a unit of its own, an optional QUALIFIER (Numeric Value Qualifier Code Sequence), nested tracking
                 identifier, method, derivation, finding sites, referenced images (codes drawn from the pools of the
                 group-level fields, in scheme versions / other schemes / long code values; several measurements of a group
                 share a name and differ in qualifier / unit only) x 10 histories x the three queries WITH AND WITHOUT
                 FILTERS.  Observed per returned group: tracking identifier, get_measurements() and get_measurements(name),
                 each measurement through every accessor of sr.Measurement (name, value, unit, qualifier, derivation,
                 method, finding_sites, referenced_images) + the child content of its NUM item, item by item.  Model:
                 run_meas (records: Measurement.__init__ skeleton, Measurement.from_sequence rebuilding the item);
                 oracle: the records
  acc_meas_tree: the same observation on NUM items as other writers leave them, in memory (qualifier dropped / set /
                 replaced, other unit, child content dropped, a second derivation / method / finding site child in front
                 or behind, a second NUM item of the same name with another qualifier; measurement options of report_opts:
                 algorithm identification, value map) and on the shipped documents; model: run_tree_meas on the rendered
                 tree (unit and qualifier of a NUM item are rendered as two pseudo children); oracle: a raw pydicom walk
                 over the NUM items of each group
In every kind a code returned by an accessor is numbered by what it compares EQUAL to (both operand orders,
Code and CodedConcept) among the variants of its code value, not only by its attributes (code_id).
"""
import copy
import io
import itertools
import os
import sys

sys.path.insert(0, os.path.dirname(os.path.abspath(__file__)))
import common
from common import Err, catch, zlit

PROPERTY = 'C16'
PROPS_FILE = 'C16_Props.v'
COQ_IMPORTS = ['C16_Model']
TOL = None
ORACLE_PREMISES = [
    'pydicom Code / highdicom CodedConcept equality restricted to the code alphabet used is equality of the '
    'triple (code value after SRT->SCT canonicalisation, scheme designator, scheme version) whatever the code '
    'meaning and the operand classes; the model numbers the triples injectively (C16_code_key_is_code_equality), '
    'the correspondence run checks that the implementation compares them that way (C17 covers coded concepts)',
    'pydicom save_as + highdicom srread reproduce the content tree (names, value types, relationship types, '
    'values, template identification) item for item - checked by the file round-trip cases, not proved',
    'template construction code beyond the modelled item skeleton (value validation, graphic data, units) '
    'is exercised, not proved',
    'DICOM encoding of a content tree reproduces every item except that Numeric Value (VR DS) comes back as the number '
    'its decimal string of at most 16 characters says (`trunc`, a parameter of the theorems); the correspondence run '
    'passes the strings pydicom writes (DS(x, auto_format=True) for floats, the digits of an int that fits) as a table; '
    'measurement values are abstract integers, injective keys of the doubles (vkey)',
    'Graphic Data (0070,0022) of SCOORD and SCOORD3D items has VR FL: after DICOM encoding each coordinate is the nearest '
    'binary32 number (`trunc` of the geometry theorems, passed as a table by the harness); the JSON model is exact; '
    'numpy ndarray.flatten() / tolist() / reshape enumerate the LOGICAL array whatever its memory layout (the model input)',
    'ContentSequence.from_sequence copies the child content of a NUM item item for item; the unit and the qualifier of a NUM '
    'item (attributes, not content items) are carried in the item model as two pseudo children with reserved names '
    '(modelling device) - that the implementation stores them in MeasurementUnitsCodeSequence / '
    'NumericValueQualifierCodeSequence is checked by the raw-walk oracle of acc_meas_tree, not proved',
]
MODELLED = ('sr/utils.find_content_items (non-recursive); sr/templates._count_roi_items, _contains_planar_rois, '
            '_contains_volumetric_rois, _get_roi_reference_items, _contains_code/uidref/image_items, '
            'MeasurementReport._find_measurement_groups, get_planar/volumetric/image_measurement_groups incl. '
            'argument refusals, group accessors (tracking_uid, tracking_identifier, finding_type, finding_category, '
            'method, finding_sites, reference_type, roi, referenced_segmentation_frame, referenced_segment, '
            'source_images, get_measurements, get_qualitative_evaluations) and the item skeleton the group '
            'constructors produce; content.py ReferencedSegment/ReferencedSegmentationFrame/VolumeSurface.from_sequence '
            '(classification of items only); value_types.NumContentItem.value (Floating Point Value before Numeric Value) and '
            'which of the two NumContentItem.__init__ writes (record level: with_fp; encoding: encode); the accessors incl. their RuntimeError branches are also compared on '
            'damaged trees and on the shipped documents (run_tree_accessors); the argument checks of '
            'PlanarROI... / VolumetricROIMeasurementsAndQualitativeEvaluations.__init__, '
            '_ROIMeasurementsAndQualitativeEvaluations.__init__, content.py ReferencedSegment.__init__ / '
            'VolumeSurface.__init__ (sources, number of graphic data items per graphic type) (run_construct_*); '
            'value_types.ScoordContentItem / Scoord3DContentItem: GraphicData = row-major flattening of the logical array, '
            'value = reshape(-1, d) (run_accessors_geom; shape checks, coplanarity and the ndarray memory layout not modelled); '
            'templates.Measurement.__init__ (item skeleton: NUM item with unit / qualifier + tracking identifier, method, '
            'derivation, finding sites, referenced images), Measurement.from_sequence (rebuild from name, value, unit, '
            'qualifier + copied child content), the accessors unit / qualifier / derivation / method / finding_sites / '
            'referenced_images, get_measurements as list of rebuilt measurements (run_meas, run_tree_meas)')
STRATA = ['report_mem', 'report_doc', 'report_file', 'report_notid', 'acc', 'refuse', 'tree', 'fixture',
          'report_codes', 'acc_codes', 'acc_tree', 'acc_fixture', 'report_opts', 'acc_opts', 'construct',
          'acc_values', 'acc_num_tree', 'acc_geom', 'acc_meas', 'acc_meas_tree']
RULE = ('reports of 0..5 groups (planar: 2D region of each graphic type, 3D region, segmentation frame, region in '
        'space; volumetric: 1..3 regions, segment with image/series sources, volume surface, region in space; '
        'image groups), values from small pools so that collisions between groups happen; per report 10 sampled '
        'subsets of the 7 filters (always the empty one and 4 singletons; thorough: every 25th report all 128 '
        'subsets) with values matching a random group, another group or nothing; x in memory / parsed from the '
        'in-memory dataset / written+srread x template ids kept / stripped; the whole abstract refusal table '
        '(13 graphic types x 8 reference types x 4 uid combinations); damaged trees; shipped fixtures; '
        'report_codes / acc_codes: every coded concept drawn from few code values x {un-versioned, 2 scheme '
        'versions} x {2 scheme designators} (+ SNOMED members in SCT / SRT spelling), code filters = exact code of '
        'a group / sibling variant / unused, each also alone, given as Code or CodedConcept, with the stored or '
        'another meaning; accessor codes identified by == against all variants; acc_tree: 1..3 groups, 1..3 of 17 '
        'damages (duplicated / dropped / foreign reference items, wrong template id, lost CONTAINS relationship, second '
        'tracking uid / finding / site item, extra 2D / 3D region, volume surface items of two graphic types, dropped / '
        'extra source items, second Imaging Measurements container), every accessor of every group the unfiltered '
        'queries return observed separately, exceptions included; acc_fixture: the same on the shipped documents; '
        'construct: 8 argument combinations per case (0..3 reference arguments of right / wrong class, region lists of '
        '0..3 items incl. 3D regions and foreign objects, segments / surfaces built with images / EMPTY images / series / '
        'both / nothing, surfaces of 0..3 items of each graphic type); '
        'acc_values: 1..4 groups whose 1..4 measurements draw from 2..5 real values per report (ints up to 16 characters, '
        'floats that fit a DS string, floats that do not: classics such as 1/3 and random doubles of exponent -60..70, '
        'subnormal / largest doubles), observed exactly, x 8 histories (memory, from_sequence, from_dataset, file, two files, '
        'dcmwrite/dcmread explicit / implicit VR, to_json/from_json); acc_num_tree: 1..4 rewritings of the two number attributes of NUM items '
        '(drop / restring / inconsistent / added Floating Point Value) in memory; '
        'acc_geom: 1..4 groups biased to coordinate-bearing references, every region with random coordinates (dyadic, '
        'some not representable in binary32, ints) of the row count its graphic type asks for (3D polygons closed and '
        'coplanar), as ndarray in one of 13 memory layouts x 6 dtypes, surfaces packed 5 ways, x 8 histories. '
        'acc_meas: 1..4 groups of 1..3 measurements from 3 names, each with unit (3 values), qualifier (p 0.5), nested '
        'tracking identifier / method / derivation (p 0.3 each), 0..2 finding sites, 0..2 referenced images, a quarter of '
        'the codes in another scheme version / scheme, x 10 histories x {no filter, 2 sampled filter sets} x by-name argument; '
        'acc_meas_tree: 1..3 groups, 0..3 of 6 rewritings of a NUM item (drop / set qualifier, set unit, drop child content, '
        'add a child that mostly duplicates an existing derivation / method / site, duplicate the NUM item with another '
        'qualifier), in memory / from_sequence copy, + the two shipped documents. '
        'non-trivial = at least two groups and a non-empty, non-total answer or a refusal; distinct by case hash')
NOT_EXECUTED = []
EXHAUSTIVE = {'quick': False, 'thorough': False}

# ---------------------------------------------------------------------------------------------
# alphabets
# ---------------------------------------------------------------------------------------------
CLASSES = ['1.2.840.10008.5.1.4.1.1.2',        # 0 CT
           '1.2.840.10008.5.1.4.1.1.4',        # 1 MR
           '1.2.840.10008.5.1.4.1.1.77.1.6',   # 2 SM
           '1.2.840.10008.5.1.4.1.1.66.4',     # 3 SEG
           '1.2.840.10008.5.1.4.1.1.481.3',    # 4 RTSTRUCT
           '1.2.840.10008.5.1.4.1.1.128',      # 5 PET (never referenced)
           '1.2.840.10008.5.1.4.1.1.66.5',     # 6 surface segmentation
           '1.2.840.10008.5.1.4.1.1.67']       # 7 real world value map (referenced by report_opts groups only)
IMG_INST = [1, 2, 3, 4, 5, 6]        # class = inst % 3
SEG_INST = [11, 12, 13]              # class 3
RT_INST = [21, 22]                   # class 4
RWV_INST = [31, 32]                  # class 7
G2 = {1: 'POINT', 2: 'MULTIPOINT', 3: 'POLYLINE', 4: 'CIRCLE', 5: 'ELLIPSE'}
G3 = {1: 'POINT', 2: 'MULTIPOINT', 3: 'POLYLINE', 4: 'POLYGON', 5: 'ELLIPSE', 6: 'ELLIPSOID'}
RESERVED = {  # id -> (value, scheme, meaning)
    1: ('125007', 'DCM', 'Measurement Group'), 2: ('126010', 'DCM', 'Imaging Measurements'),
    3: ('112039', 'DCM', 'Tracking Identifier'), 4: ('112040', 'DCM', 'Tracking Unique Identifier'),
    5: ('121071', 'DCM', 'Finding'), 6: ('363698007', 'SCT', 'Finding Site'),
    7: ('276214006', 'SCT', 'Finding category'), 8: ('370129005', 'SCT', 'Measurement Method'),
    9: ('111030', 'DCM', 'Image Region'), 10: ('121231', 'DCM', 'Volume Surface'),
    11: ('121191', 'DCM', 'Referenced Segment'), 12: ('121214', 'DCM', 'Referenced Segmentation Frame'),
    13: ('130488', 'DCM', 'Region in Space'), 14: ('121233', 'DCM', 'Source Image for Segmentation'),
    15: ('121232', 'DCM', 'Source Series for Segmentation'), 16: ('260753009', 'SCT', 'Source'),
    17: ('130400', 'DCM', 'Geometric purpose of region'), 18: ('C2348792', 'UMLS', 'Time Point'),
    19: ('126072', 'DCM', 'Time Point Type'), 20: ('C67447', 'NCIt', 'Activity Session'),
    # (21 / 22 are the pseudo children that carry unit / qualifier of a rendered NUM item: C16_Model.cUnitAttr / cQualAttr)
    23: ('121401', 'DCM', 'Derivation'), 24: ('121112', 'DCM', 'Source of Measurement'),
}
UNIT_ATTR, QUAL_ATTR = 21, 22
VT_TAG = {'CONTAINER': 0, 'CODE': 1, 'TEXT': 2, 'UIDREF': 3, 'NUM': 4, 'IMAGE': 5, 'SCOORD': 6, 'SCOORD3D': 7,
          'COMPOSITE': 8}        # C16_Model.vt_tag (anything else: 9)
RT_TAG = {None: 0, 'CONTAINS': 1, 'HAS OBS CONTEXT': 2, 'HAS CONCEPT MOD': 3, 'SELECTED FROM': 4,
          'HAS PROPERTIES': 5, 'INFERRED FROM': 6}      # C16_Model.rt_tag
RES_BY_KEY = {(v[0], v[1]): k for k, v in RESERVED.items()}
REFTYPES = [9, 10, 11, 12, 13]
USER_SCHEME = '99VERIF'
VT = {'CONTAINER': 'CONTAINER', 'CODE': 'CODE', 'TEXT': 'TEXT', 'UIDREF': 'UIDREF', 'NUM': 'NUM',
      'IMAGE': 'IMAGE', 'SCOORD': 'SCOORD', 'SCOORD3D': 'SCOORD3D', 'COMPOSITE': 'COMPOSITE', 'PNAME': 'PNAME'}
RT = {None: 'RNone', 'CONTAINS': 'CONTAINS', 'HAS OBS CONTEXT': 'HAS_OBS_CONTEXT',
      'HAS CONCEPT MOD': 'HAS_CONCEPT_MOD', 'SELECTED FROM': 'SELECTED_FROM',
      'HAS PROPERTIES': 'HAS_PROPERTIES', 'INFERRED FROM': 'INFERRED_FROM'}


def cls_of(inst):
    if inst in RWV_INST:
        return 7
    if inst in SEG_INST:
        return 3
    if inst in RT_INST:
        return 4
    return inst % 3


def tuid_str(z):
    return f'1.2.826.0.1.3680043.8.498.1.{z}'


def inst_str(z):
    return f'1.2.826.0.1.3680043.8.498.2.{z}'


def series_str(z):
    return f'1.2.826.0.1.3680043.8.498.3.{z}'


def uid_id(s):
    """inverse of tuid_str / inst_str / series_str / class table (ints for the model)"""
    s = str(s)
    if s in CLASSES:
        return CLASSES.index(s)
    return int(s.rsplit('.', 1)[1])


# ---- coded concepts: the model integer of a code is the key of (value, scheme, scheme version) ------------
# key = base + KEYMUL * (scheme index + 10 * (0 if un-versioned else version index + 1))   (C16_Model.ck)
SCHEMES = [USER_SCHEME, '99OTHER']
VERSIONS = ['2.1', '3.0']
KEYMUL = 100000
# user codes that are real SNOMED concepts: id -> (SCT value, retired SRT value, meaning); pydicom compares
# an SRT code through its SCT equivalent, so both spellings are the same concept
SNOMED = {114: ('86049000', 'M-80003', 'Neoplasm, Primary'), 135: ('39607008', 'T-28000', 'Lung'),
          136: ('10200004', 'T-62000', 'Liver')}
SNOMED_BY_VALUE = {v[0]: k for k, v in SNOMED.items()}


def ck(base, s=0, ver=None):
    return base + KEYMUL * (s + 10 * (0 if ver is None else ver + 1))


def ck_split(z):
    q, base = divmod(z, KEYMUL)
    vi, s = divmod(q, 10)
    return base, s, (None if vi == 0 else vi - 1)


def variants(z):
    """every code of the alphabet with the same code value (other scheme version, other scheme)"""
    base = ck_split(z)[0]
    schemes = (0,) if base in RESERVED else (0, 1)
    return [ck(base, s, v) for s in schemes for v in (None, 0, 1)]


def code_of(z, as_hd=False, srt=False, alt=False):
    """alphabet id -> Code / CodedConcept.  srt: retired SRT spelling of the SNOMED members;
    alt: another code meaning (not part of the identity of a code)"""
    from pydicom.sr.coding import Code
    from highdicom.sr import CodedConcept
    base, si, ver = ck_split(z)
    if base in RESERVED:
        v, s, m = RESERVED[base]
    elif base in SNOMED:
        v, s, m = (SNOMED[base][1], 'SRT', SNOMED[base][2]) if srt else (SNOMED[base][0], 'SCT', SNOMED[base][2])
        if si:
            v, s = SNOMED[base][0], SCHEMES[si]
    else:
        # every third user code is longer than 16 characters (stored as LongCodeValue)
        v, s, m = (str(base) if base % 3 else 'L' + '0' * 17 + str(base)), SCHEMES[si], f'concept {base}'
    if alt:
        m = 'said otherwise: ' + m
    sv = None if ver is None else VERSIONS[ver]
    return CodedConcept(v, s, m, sv) if as_hd else Code(v, s, m, sv)


def code_key(value, scheme, version=None):
    """(value, scheme designator, scheme version) as read from attributes -> alphabet id (None: foreign)"""
    value, scheme = str(value), str(scheme)
    if scheme == 'SRT':        # pydicom compares SRT codes through their SNOMED-CT equivalent
        from pydicom.sr._snomed_dict import mapping
        if value in mapping['SRT']:
            value, scheme = mapping['SRT'][value], 'SCT'
    if (value, scheme) in RES_BY_KEY:
        base, si = RES_BY_KEY[(value, scheme)], 0
    elif scheme == 'SCT' and value in SNOMED_BY_VALUE:
        base, si = SNOMED_BY_VALUE[value], 0
    elif scheme in SCHEMES:
        si = SCHEMES.index(scheme)
        base = SNOMED_BY_VALUE[value] if value in SNOMED_BY_VALUE else int(value.lstrip('L'))
    else:
        return None
    if version in (None, ''):
        return ck(base, si, None)
    if str(version) not in VERSIONS:
        return None
    return ck(base, si, VERSIONS.index(str(version)))


def code_id(c, hd=False):
    """Code / CodedConcept returned by the implementation -> model id.  The id is read from the attributes
    AND must be the one member of the alphabet with that code value the object compares equal to (both ways):
    a group has to report a code that `==` the code it was constructed with, not only one that prints alike."""
    z = code_key(getattr(c, 'value', None), getattr(c, 'scheme_designator', None), getattr(c, 'scheme_version', None))
    if z is None:
        return None
    eq = [y for y in variants(z) if (c == code_of(y, hd)) and (code_of(y, not hd) == c)]
    if eq == [z]:
        return z
    return ['code reads as', z, 'but compares equal to', eq]


# ---- measurement values: the model integer of a number is an injective key of the double --------------------
# A value of a case is a Python int (written as such) or ['f', float.hex()] (a Python float, kept exactly).
def _pv(v):
    """value of a case -> the Python number handed to sr.Measurement"""
    return float.fromhex(v[1]) if isinstance(v, (list, tuple)) else v


def vkey(x):
    """number returned by the implementation -> model integer: the number itself when it is an integer below
    2**53 (so the integer-valued cases read as before), else 2**53 + the IEEE-754 bit pattern.  Injective on the
    doubles up to -0.0 == 0.0; two values get the same key iff they compare equal."""
    import struct
    x = float(x)
    if abs(x) < 2 ** 53 and x == int(x):       # (false for nan / inf: they get their bit pattern)
        return int(x)
    return 2 ** 53 + struct.unpack('<Q', struct.pack('<d', x))[0]


def unkey(k):
    """the number behind a key (for messages)"""
    import struct
    return float(k) if abs(k) < 2 ** 53 else struct.unpack('<d', struct.pack('<Q', k - 2 ** 53))[0]


def _vk(v):
    return vkey(_pv(v))


def fp_code(k):
    """C16_Model.fp_code: Z -> Z minus 0 (0 marks an absent Floating Point Value)"""
    return k + 1 if k >= 0 else k


def _ds_str(v):
    """the decimal string (VR DS, at most 16 characters) that stands for the number in an ENCODED data set: an int
    that fits is written digit by digit, everything else is formatted by pydicom (DS(..., auto_format=True))"""
    from pydicom.valuerep import DS
    v = _pv(v)
    if isinstance(v, int) and len(str(v)) <= 16:
        return str(v)
    return str(DS(float(v), auto_format=True))


def _writes_fp(v):
    """does NumContentItem.__init__ write Floating Point Value: for a Python float, and (fix D111) for an int whose
    decimal string exceeds 16 characters, i.e. whenever the DS string may have been rounded"""
    v = _pv(v)
    return isinstance(v, float) or len(str(v)) > 16


ENCODING_IO = ('file', 'file2', 'dcm', 'dcm_implicit')


# ---------------------------------------------------------------------------------------------
# generators
# ---------------------------------------------------------------------------------------------
def _src(rng, pool=None):
    i = rng.choice(pool or IMG_INST)
    return [cls_of(i), i]


def _sources(rng):
    if rng.random() < 0.3:
        return ['series', rng.randint(1, 3)]
    return ['images', [_src(rng) for _ in range(rng.randint(1, 3))]]


def _ref(rng, k, allow_ris=True):
    if k == 'P':
        t = rng.choice(['r2', 'r2', 'r2', 'r3', 'sf', 'sf', 'ris' if allow_ris else 'r2'])
        if t == 'r2':
            return ['r2', rng.choice([1, 3, 4, 5])] + _src(rng)
        if t == 'r3':
            return ['r3', rng.choice([1, 3, 4, 5])]
        if t == 'sf':
            return ['sf'] + _src(rng, SEG_INST) + _src(rng)
        return ['ris'] + _src(rng, RT_INST)
    if k == 'V':
        t = rng.choice(['rs', 'rs', 'seg', 'seg', 'surf', 'surf', 'ris' if allow_ris else 'rs'])
        if t == 'rs':
            n = rng.choice([1, 2, 2, 3])
            gt = rng.choice([1, 3, 4, 5])
            mixed = rng.random() < 0.25
            return ['rs', [[rng.choice([1, 3, 4, 5]) if mixed else gt] + _src(rng) for _ in range(n)]]
        if t == 'seg':
            return ['seg'] + _src(rng, SEG_INST) + [_sources(rng)]
        if t == 'surf':
            gt = rng.choice([1, 4, 5, 6])
            n = 1 if gt in (1, 6) else rng.randint(2, 3)
            return ['surf', gt, n, _sources(rng)]
        return ['ris'] + _src(rng, RT_INST)
    return ['src', [_src(rng) for _ in range(rng.choice([0, 1, 1, 2, 3]))]]


def _group(rng, idx, k=None, notid=0.0, allow_ris=True):
    k = k or rng.choice(['P', 'P', 'V', 'V', 'I'])
    opt = lambda lo, hi, p=0.6: rng.randint(lo, hi) if rng.random() < p else None  # noqa: E731
    g = {'k': k, 'tuid': rng.randint(1, 4), 'tid': 1000 + idx,
         'cat': opt(100, 102, 0.4), 'finding': opt(110, 113, 0.7), 'method': opt(120, 122, 0.3),
         'sites': [rng.randint(130, 134) for _ in range(rng.choice([0, 1, 1, 2, 3]))],
         'ref': _ref(rng, k, allow_ris),
         'meas': [[rng.randint(140, 143), rng.randint(-5, 40)] for _ in range(rng.choice([0, 1, 2, 3]))],
         'evals': [[rng.randint(150, 153), rng.randint(160, 163)] for _ in range(rng.choice([0, 0, 1, 2, 3]))],
         'geom': opt(170, 171, 0.3) if k != 'I' else None,
         'tp': opt(180, 181, 0.3), 'session': opt(190, 191, 0.2),
         'has_tid': not (rng.random() < notid)}
    # a constructor cannot add a region in space; those groups are patched (see _build_group)
    return g


def _filter_values(rng, groups):
    """values for each of the 7 filters: matching a random group / some other value / nothing"""
    g = rng.choice(groups) if groups else None
    mode = lambda: rng.random()  # noqa: E731

    def pick(match_val, pool, unused):
        m = mode()
        if g is not None and match_val is not None and m < 0.6:
            return match_val
        if m < 0.85:
            return rng.choice(pool)
        return unused
    refs = _ref_uids(g) if g else []
    some = rng.choice(refs) if refs else None
    other = rng.choice(refs) if refs else None
    vals = {
        'tuid': pick(g and g['tuid'], [1, 2, 3, 4], 9),
        'finding': pick(g and g['finding'], [110, 111, 112, 113], 119),
        'site': pick(g and (rng.choice(g['sites']) if g['sites'] else None), [130, 131, 132, 133, 134], 139),
        'reftype': pick(g and _ref_code(g), REFTYPES, rng.choice([5, 16, 14, 199])),
        'gt': pick(g and _ref_gt(g), [['2', 1], ['2', 3], ['2', 4], ['2', 5], ['3', 1], ['3', 4], ['3', 5], ['3', 6]],
                   rng.choice([['2', 2], ['3', 2], ['3', 3], ['bad', 0]])),
        'inst': pick(some and some[1], IMG_INST + SEG_INST + RT_INST, 99),
        # class of the same item (joint match) or of another item of the group (must not match jointly)
        'cls': pick((some if rng.random() < 0.7 else other) and (some if rng.random() < 0.7 else other)[0],
                    [0, 1, 2, 3, 4], 5),
    }
    return vals


FKEYS = ['tuid', 'finding', 'site', 'reftype', 'gt', 'inst', 'cls']


def _ref_uids(g):
    r = g['ref']
    t = r[0]
    if t == 'r2':
        return [r[2:4]]
    if t == 'sf':
        return [r[1:3], r[3:5]]
    if t == 'rs':
        return [x[1:3] for x in r[1]]
    if t == 'seg':
        return [r[1:3]] + (r[3][1] if r[3][0] == 'images' else [])
    if t == 'surf':
        return r[3][1] if r[3][0] == 'images' else []
    if t == 'ris':
        return [r[1:3]]
    if t == 'src':
        return r[1]
    return []


def _ref_code(g):
    return {'r2': 9, 'r3': 9, 'rs': 9, 'sf': 12, 'seg': 11, 'surf': 10, 'ris': 13, 'src': None}[g['ref'][0]]


def _ref_gt(g):
    r = g['ref']
    if r[0] == 'r2':
        return ['2', r[1]]
    if r[0] == 'r3':
        return ['3', r[1]]
    if r[0] == 'rs':
        return ['2', r[1][0][0]]
    if r[0] == 'surf':
        return ['3', r[1]]
    return None


def _filters(rng, groups, n, all_subsets=False):
    out = []
    subsets = []
    if all_subsets:
        subsets = [s for r in range(8) for s in itertools.combinations(FKEYS, r)]
    else:
        subsets = [(), ] + [(k,) for k in rng.sample(FKEYS, 4)]
        while len(subsets) < n:
            r = rng.choice([2, 2, 3, 3, 4, 5, 7])
            subsets.append(tuple(sorted(rng.sample(FKEYS, r), key=FKEYS.index)))
    for s in subsets:
        vals = _filter_values(rng, groups)
        out.append({k: vals[k] for k in s})
    return out


REFUSE_TABLE = None


def _refuse_filters():
    """the whole abstract table: graphic type x reference type x uid filters"""
    gts = [None, ['bad', 0]] + [['2', g] for g in G2] + [['3', g] for g in G3]
    rts = [None] + REFTYPES + [5, 150]
    out = []
    for gt in gts:
        for rt in rts:
            for inst in (None, 1):
                for cls in (None, 1):
                    f = {}
                    if gt is not None:
                        f['gt'] = gt
                    if rt is not None:
                        f['reftype'] = rt
                    if inst is not None:
                        f['inst'] = inst
                    if cls is not None:
                        f['cls'] = cls
                    out.append(f)
    return out


def _invoked_tier():
    a = sys.argv[1:]
    return os.environ.get('VERIF_TIER') or (a[0] if a and a[0] in ('quick', 'thorough') else 'quick')


def gen_cases(rng, tier):
    if tier == 'thorough' and _invoked_tier() == 'quick':
        # common.main's EXTENDED SEARCH of a quick run (looking for an oracle-failing input after a model
        # disagreement) asks for the thorough generator; it has to finish in ~3 minutes: use the capped search sizes
        tier = 'search'
    n = {'quick': 60, 'thorough': 500, 'search': 110}[tier]
    nf = {'quick': 10, 'thorough': 128, 'search': 12}[tier]
    cases = []
    for kind, cnt in (('report_mem', n), ('report_doc', n // 3), ('report_file', n), ('report_notid', n)):
        for j in range(cnt):
            ng = rng.choice([0, 1, 2, 3, 3, 4, 5]) if j % 7 else rng.choice([0, 1])
            notid = 0.0 if kind != 'report_notid' else rng.choice([1.0, 1.0, 0.5])
            # ambiguous untyped content (single volumetric region, region in space) only in a minority
            amb = rng.random() < 0.2
            groups = []
            for i in range(ng):
                g = _group(rng, i, notid=notid, allow_ris=(kind != 'report_notid' or amb))
                if kind == 'report_notid' and not amb and not g['has_tid'] and g['ref'][0] == 'rs' and len(g['ref'][1]) < 2:
                    g['ref'][1].append([g['ref'][1][0][0]] + _src(rng))
                groups.append(g)
            io_ = {'report_mem': 'mem', 'report_doc': 'doc', 'report_file': 'file',
                   'report_notid': rng.choice(['mem', 'file'])}[kind]
            all_sub = (tier == 'thorough' and j % 25 == 0)
            cases.append({'kind': kind, 'groups': groups, 'io': io_, 'pre': rng.choice(['person', 'device', 'library']),
                          'hd_codes': rng.random() < 0.5,
                          'filters': _filters(rng, groups, nf if not all_sub else 128, all_sub)})
    for j in range(n):
        ng = rng.choice([1, 2, 3, 4])
        notid = rng.choice([0.0, 0.0, 1.0])
        groups = [_group(rng, i, notid=notid) for i in range(ng)]
        allnames = [m[0] for g in groups for m in g['meas']]
        allev = [e[0] for g in groups for e in g['evals']]
        cases.append({'kind': 'acc', 'groups': groups, 'io': rng.choice(['mem', 'file', 'doc']),
                      'pre': 'person', 'hd_codes': rng.random() < 0.5,
                      'mname': rng.choice(allnames + [149]) if rng.random() < 0.8 else None,
                      'ename': rng.choice(allev + [159, 5, 7, 17]) if rng.random() < 0.8 else None})
    table = _refuse_filters()
    per = 26
    for j in range(0, len(table), per):
        groups = [_group(rng, i) for i in range(rng.choice([1, 2, 3]))]
        cases.append({'kind': 'refuse', 'groups': groups, 'io': 'mem', 'pre': 'person', 'hd_codes': j % 2 == 0,
                      'filters': table[j:j + per]})
    for j in range(n):
        ng = rng.choice([1, 2, 3])
        groups = [_group(rng, i, notid=rng.choice([0.0, 1.0])) for i in range(ng)]
        muts = [_mutation(rng, ng) for _ in range(rng.choice([1, 1, 2, 3]))]
        # besides the sampled subsets: the graphic type of every group, alone (decided on the first / only
        # reference item whatever else a damaged group contains)
        fl = _filters(rng, groups, 6) + [{'gt': _ref_gt(g)} for g in groups if _ref_gt(g)] + [{'gt': ['3', 1]}]
        cases.append({'kind': 'tree', 'groups': groups, 'io': rng.choice(['mem', 'mem', 'file']), 'pre': 'person',
                      'hd_codes': False, 'muts': muts, 'filters': fl})
    for name in ('sr_document.dcm', 'sr_document_with_multiple_groups.dcm'):
        for j in range(3 if tier == 'quick' else 12):
            cases.append({'kind': 'fixture', 'file': name, 'seed': rng.randint(0, 10**6), 'nf': 8})
    # drawn last, so that the cases of the other kinds are the ones they were before this dimension existed
    cases += _gen_code_cases(rng, tier)
    cases += _gen_acc_tree_cases(rng, tier)
    cases += _gen_opts_cases(rng, tier)
    cases += _gen_construct_cases(rng, tier)
    cases += _gen_value_cases(rng, tier)
    cases += _gen_geom_cases(rng, tier)
    cases += _gen_meas_cases(rng, tier)
    return cases


# ---- measurements in full (TID 300: unit, qualifier, derivation, method, finding sites, referenced images) ------
MEAS_HIST = ['mem', 'parsed', 'doc', 'file', 'mem', 'dcm', 'json', 'file2', 'dcm_implicit', 'parsed']
MEAS_MUTS = ['drop_qual', 'set_qual', 'set_qual', 'set_unit', 'drop_content', 'add_child', 'add_child', 'dup_num',
             'dup_num']


def _mcode(rng, pool, p_variant=0.25):
    """a code of the pool, sometimes in another scheme version / scheme designator (every third value is a long
    code value)"""
    base = rng.choice(pool)
    return _variant(rng, base) if rng.random() < p_variant else base


def _meas_detail(rng, p_qual=0.5):
    """what sr.Measurement is constructed with besides name and value: unit, qualifier (Numeric Value Qualifier),
    nested tracking identifier [identifier, uid], method, derivation, finding sites, referenced images; the code pools
    overlap those of the group-level fields (finding 110.., method 120.., sites 130..)"""
    opt = lambda pool, p: _mcode(rng, pool) if rng.random() < p else None  # noqa: E731
    return {'unit': _mcode(rng, [200, 201, 202]),
            'qual': opt([210, 211, 212, 110], p_qual),
            'track': [rng.randint(1000, 1004), rng.randint(1, 4)] if rng.random() < 0.3 else None,
            'method': opt([120, 121, 122], 0.3), 'deriv': opt([220, 221, 110, 210], 0.3),
            'sites': [_mcode(rng, [130, 131, 132, 133, 134]) for _ in range(rng.choice([0, 0, 1, 2]))],
            'imgs': [_src(rng) for _ in range(rng.choice([0, 0, 1, 2]))]}


def _meas_group(rng, g):
    """1..3 measurements from few names (so that several measurements of a group share a name and differ in
    qualifier / unit only), each with its details"""
    g = dict(g)
    names = [rng.randint(140, 142) for _ in range(rng.choice([1, 2, 2, 3]))]
    g['meas'] = [[n, rng.choice([0, 0, rng.randint(-5, 40)])] for n in names]
    g['md'] = [_meas_detail(rng) for _ in names]
    return g


def _gen_meas_cases(rng, tier):
    n = {'quick': 36, 'thorough': 360, 'search': 70}[tier]
    cases = []
    for j in range(n):
        ng = rng.choice([1, 2, 3, 4])
        notid = rng.choice([0.0, 0.0, 1.0])
        groups = [_meas_group(rng, _group(rng, i, notid=notid, allow_ris=False)) for i in range(ng)]
        for g in groups:        # untyped groups stay classifiable
            if not g['has_tid'] and g['ref'][0] == 'rs' and len(g['ref'][1]) < 2:
                g['ref'][1].append([g['ref'][1][0][0]] + _src(rng))
        allnames = [m[0] for g in groups for m in g['meas']]
        fl = _filters(rng, groups, 9)
        cases.append({'kind': 'acc_meas', 'groups': groups, 'io': MEAS_HIST[j % len(MEAS_HIST)],
                      'pre': rng.choice(['person', 'device']), 'hd_codes': rng.random() < 0.5,
                      'filters': [{}] + rng.sample(fl[1:], 2),
                      'mname': rng.choice(allnames + [149]) if rng.random() < 0.8 else None})
    for j in range(n // 2):
        ng = rng.choice([1, 2, 3])
        groups = []
        for i in range(ng):
            g = _group(rng, i, notid=rng.choice([0.0, 0.0, 1.0]), allow_ris=False)
            if not g['meas'] or rng.random() < 0.7:
                g = _meas_group(rng, g)
            else:               # the measurement options of report_opts (algorithm identification, value map ...)
                g = _opts_group(rng, g)
            if not g['has_tid'] and g['ref'][0] == 'rs' and len(g['ref'][1]) < 2:
                g['ref'][1].append([g['ref'][1][0][0]] + _src(rng))
            groups.append(g)
        muts = []
        for _ in range(rng.choice([0, 1, 2, 3])):
            gi = rng.randrange(ng)
            muts.append([rng.choice(MEAS_MUTS), gi, rng.randrange(len(groups[gi]['meas'])), rng.randint(0, 10 ** 6)])
        allnames = [m[0] for g in groups for m in g['meas']]
        cases.append({'kind': 'acc_meas_tree', 'groups': groups, 'io': rng.choice(['mem', 'mem', 'parsed']),
                      'pre': 'person', 'hd_codes': False, 'mmuts': muts, 'filters': [{}] + _filters(rng, groups, 6)[1:2],
                      'mname': rng.choice(allnames + [149]) if rng.random() < 0.7 else None})
    for name in ('sr_document.dcm', 'sr_document_with_multiple_groups.dcm'):
        cases.append({'kind': 'acc_meas_tree', 'file': name, 'seed': rng.randint(0, 10 ** 6)})
    return cases


# ---- measurement values ---------------------------------------------------------------------------------------
def _value(rng):
    """one measurement value: [class, value]; floats are kept as hex strings (exact)"""
    import math
    f = lambda x: ['f', float(x).hex()]  # noqa: E731
    r = rng.random()
    if r < 0.12:
        return rng.randint(-5, 40)
    if r < 0.19:        # ints up to 16 characters (written digit by digit; no Floating Point Value)
        return rng.choice([123456789012, 10 ** 15 + 1, 2 ** 53 - 1, -999999999999999, 10 ** 12, 9999999999999999,
                           rng.randint(10 ** 9, 10 ** 15), -rng.randint(10 ** 9, 10 ** 14)])
    if r < 0.27:        # ints of MORE than 16 characters (D111: rounded DS string + Floating Point Value): exact doubles
        #                 (2**60, multiples of a power of two) and ints that are no double at all (reported as float(v))
        return rng.choice([-1234567890123456, 2 ** 60, -2 ** 60, 10 ** 16 + 2, 10 ** 16, -10 ** 15, 2 ** 53 + 2,
                           12345678901234567, 2 ** 60 + 1, -9999999999999999, 10 ** 22, 3 ** 40,
                           rng.randint(10 ** 16, 10 ** 19), -rng.randint(10 ** 15, 10 ** 18),
                           rng.randint(2 ** 20, 2 ** 30) << rng.randint(30, 60)])
    if r < 0.40:        # floats whose repr fits in a DS string
        return f(rng.choice([10.5, 42.25, 0.125, 7.0, 66.0, 2.5e-3, 1e-3, 100.0, -3.75, 0.1, 1e22, 1.5e300, 5e-324,
                             float(rng.randint(-50, 50)), rng.randint(-4000, 4000) / 8.0]))
    if r < 0.62:        # the classics: repr longer than 16 characters
        return f(rng.choice([1.0 / 3.0, 0.1 + 0.2, 1000.0 * math.pi, 200.0 / 3.0, math.sqrt(2.0) * 100.0,
                             -1.0 / 7.0, 1234.5678901234567, -123.45678901234567, 1.0e-3 / 3.0, math.e * 1e-5,
                             2.0 / 3.0 * 1e9, 1.2345678901234568e+17, 9007199254740994.0, 0.99999999999999989,
                             1.7976931348623157e308, 2.2250738585072014e-308, 4.9406564584124654e-321,
                             rng.randint(1, 99) / rng.choice([3.0, 7.0, 9.0, 11.0, 13.0])]))
    if r < 0.8:         # random doubles of every magnitude
        return f(math.ldexp(rng.random() - 0.5, rng.randint(-60, 70)))
    if r < 0.9:
        return f(rng.uniform(-1000.0, 1000.0))
    return f(round(rng.uniform(0.0, 100.0), rng.randint(1, 14)))


def _values_group(rng, g, pool):
    g = dict(g)
    g['meas'] = [[rng.randint(140, 143), rng.choice(pool)] for _ in range(rng.choice([1, 2, 3, 4]))]
    return g


# ---- region geometry ---------------------------------------------------------------------------------------------
FOR_UIDS = {1: '1.2.826.0.1.3680043.8.498.4.1', 2: '1.2.826.0.1.3680043.8.498.4.2'}
GEO_LAYOUTS = ['c', 'c', 'f', 'f', 'f', 't', 't', 'colslice', 'colslice_f', 'rowstep', 'rowstep_f', 'rev', 'revcols',
               'plane', 'plane_f', 'swap', 'readonly_f']
GEO_DTYPES = ['f8'] * 11 + ['f4'] * 3 + ['>f8', '>f8', 'i8', 'i8', 'i4', 'u2']
POI = {None: 0, 'VOLUME': 1, 'FRAME': 2}


def _geo_array(sp):
    """the ndarray handed to the constructor: the LOGICAL n x d array sp['pts'] of dtype sp['dtype'] in memory layout
    sp['layout'] (all layouts compare equal, element for element, to the C-ordered literal)"""
    import numpy as np
    A = np.array(sp['pts'], dtype=np.dtype(sp['dtype']))
    n, d = A.shape
    lay = sp['layout']
    if lay == 'c':
        B = A
    elif lay == 'f':                    # Fortran (column-major) order
        B = np.asfortranarray(A)
    elif lay == 't':                    # transposed view of a C-ordered d x n array (np.array([cols, rows]).T)
        B = np.ascontiguousarray(A.T).T
    elif lay in ('colslice', 'colslice_f'):     # d columns of a wider array
        W = np.zeros((n, d + 3), A.dtype, order='F' if lay.endswith('_f') else 'C')
        W[:, 1:1 + d] = A
        B = W[:, 1:1 + d]
    elif lay in ('rowstep', 'rowstep_f'):       # every second row of a taller array
        W = np.zeros((2 * n, d), A.dtype, order='F' if lay.endswith('_f') else 'C')
        W[::2] = A
        B = W[::2]
    elif lay == 'rev':                  # negative row stride
        B = np.ascontiguousarray(A[::-1])[::-1]
    elif lay == 'revcols':              # negative column stride
        B = np.ascontiguousarray(A[:, ::-1])[:, ::-1]
    elif lay == 'plane':                # a plane of a C-ordered 3-D block
        W = np.zeros((n, d, 3), A.dtype)
        W[:, :, 1] = A
        B = W[:, :, 1]
    elif lay == 'plane_f':              # a plane of an F-ordered 3-D block
        W = np.zeros((3, n, d), A.dtype, order='F')
        W[1] = A
        B = W[1]
    elif lay == 'swap':                 # non-native byte order
        B = A.byteswap().view(A.dtype.newbyteorder())
    elif lay == 'readonly_f':
        B = np.asfortranarray(A)
        B.setflags(write=False)
    else:
        raise ValueError(lay)
    assert B.shape == A.shape and np.array_equal(B, A), lay
    return B


def _geo_vals(sp):
    """the numbers of the logical array as the dtype holds them (rows of Python floats)"""
    import numpy as np
    ty = np.dtype(sp['dtype']).type
    return [[float(ty(x)) for x in row] for row in sp['pts']]


def _coord(rng, dt, lo=0):
    if dt[-2] in 'iu':
        return rng.randint(lo if dt[-2] == 'u' else -20, 4000)
    if dt.endswith('f8') and rng.random() < 0.15:       # not representable in binary32
        return rng.choice([0.1, 1.0 / 3.0, 1234.5678, 200.0 / 3.0, 1e-3, 65536.7, round(rng.uniform(0.0, 4000.0), 3)])
    return rng.randint(-40, 16000) / 8.0


def _geo_item(rng, d, gt, surface=False):
    """one coordinate array valid for the graphic type: 2D gt 1 POINT 3 POLYLINE 4 CIRCLE 5 ELLIPSE; 3D gt 1 POINT
    3 POLYLINE 4 POLYGON (closed, coplanar) 5 ELLIPSE (coplanar) 6 ELLIPSOID"""
    dt = rng.choice(GEO_DTYPES)
    if d == 2:
        n = {1: 1, 3: rng.choice([2, 3, 3, 4, 5, 6]), 4: 2, 5: 4}[gt]
    else:
        n = {1: 1, 3: rng.choice([2, 3, 4, 5]), 4: rng.choice([4, 5, 6]), 5: 4, 6: 6}[gt]
    pts = [[_coord(rng, dt) for _ in range(d)] for _ in range(n)]
    if d == 3 and gt in (4, 5):         # one axis constant: coplanar whatever the other coordinates
        ax, v = rng.randrange(3), _coord(rng, dt)
        for r in pts:
            r[ax] = v
        if gt == 4:
            pts[-1] = list(pts[0])
    return {'d': d, 'pts': pts, 'dtype': dt, 'layout': rng.choice(GEO_LAYOUTS)}


def _geo_for_group(rng, g):
    """geometry of every coordinate-bearing reference item of the group (document order)"""
    r = g['ref']
    t = r[0]
    g = dict(g)
    poi = lambda c: rng.choice([None, None, 'VOLUME', 'FRAME'])  # noqa: E731
    if t == 'r2':
        g['geo'] = [dict(_geo_item(rng, 2, r[1]), poi=poi(r[2]))]
    elif t == 'r3':
        g['geo'] = [dict(_geo_item(rng, 3, r[1]), **{'for': rng.choice([1, 2])})]
    elif t == 'rs':
        g['geo'] = [dict(_geo_item(rng, 2, x[0]), poi=poi(x[1])) for x in r[1]]
    elif t == 'surf':
        f = rng.choice([1, 2])
        items = [dict(_geo_item(rng, 3, r[1]), **{'for': f}) for _ in range(r[2])]
        packs = ['list', 'list', 'tuple']
        if r[2] == 1:
            packs += ['single', 'single']
        same = len({(len(x['pts']), x['dtype']) for x in items}) == 1
        if not same and rng.random() < 0.5:       # make the items stackable: same row count and dtype
            n0, dt0 = len(items[0]['pts']), items[0]['dtype']
            for x in items[1:]:
                if len(x['pts']) != n0 and r[1] == 4:
                    continue
                x['dtype'] = dt0
                x['pts'] = [[(abs(int(v)) % 4001 if dt0[-2] in 'iu' else float(v)) for v in row] for row in x['pts']]
            same = len({(len(x['pts']), x['dtype']) for x in items}) == 1
        if same:
            packs += ['stack', 'stack_f', 'stack_f']
        g['geo'], g['geo_pack'] = items, rng.choice(packs)
    else:
        g['geo'] = []
    return g


def _geom_ref(rng, k):
    """references biased to the coordinate-bearing kinds"""
    if k == 'P':
        t = rng.choice(['r2', 'r2', 'r2', 'r2', 'r3', 'r3', 'sf'])
        if t == 'r2':
            return ['r2', rng.choice([1, 3, 3, 4, 5])] + _src(rng)
        if t == 'r3':
            return ['r3', rng.choice([1, 3, 4, 5])]
        return ['sf'] + _src(rng, SEG_INST) + _src(rng)
    if k == 'V':
        t = rng.choice(['rs', 'rs', 'rs', 'surf', 'surf', 'seg'])
        if t == 'rs':
            gt = rng.choice([3, 3, 4, 5, 1])
            mixed = rng.random() < 0.25
            return ['rs', [[rng.choice([1, 3, 4, 5]) if mixed else gt] + _src(rng) for _ in range(rng.choice([2, 2, 3]))]]
        if t == 'surf':
            gt = rng.choice([1, 4, 5, 6])
            return ['surf', gt, 1 if gt in (1, 6) else rng.randint(2, 3), _sources(rng)]
        return ['seg'] + _src(rng, SEG_INST) + [_sources(rng)]
    return ['src', [_src(rng) for _ in range(rng.choice([0, 1, 2]))]]


def _gen_geom_cases(rng, tier):
    n = {'quick': 40, 'thorough': 400, 'search': 80}[tier]
    hist = ['mem', 'parsed', 'doc', 'file', 'mem', 'file2', 'dcm', 'dcm_implicit', 'json', 'file']
    cases = []
    for j in range(n):
        ng = rng.choice([1, 2, 3, 4])
        notid = rng.choice([0.0, 0.0, 1.0])
        groups = []
        for i in range(ng):
            g = _group(rng, i, k=rng.choice(['P', 'P', 'V', 'V', 'I']), notid=notid, allow_ris=False)
            g['ref'] = _geom_ref(rng, g['k'])
            g['meas'] = g['meas'][:2]
            groups.append(_geo_for_group(rng, g))
        allnames = [m[0] for g in groups for m in g['meas']]
        cases.append({'kind': 'acc_geom', 'groups': groups, 'io': hist[j % len(hist)],
                      'pre': rng.choice(['person', 'device']), 'hd_codes': rng.random() < 0.5,
                      'mname': rng.choice(allnames + [149]) if rng.random() < 0.5 else None, 'ename': None})
    return cases


NUM_MUTS = ['drop_fd', 'restring', 'restring_drop_fd', 'restring_drop_fd', 'fd_other', 'fd_other', 'add_fd']


def _gen_value_cases(rng, tier):
    n = {'quick': 40, 'thorough': 400, 'search': 80}[tier]
    hist = ['mem', 'parsed', 'doc', 'file', 'file', 'file2', 'dcm', 'dcm', 'dcm_implicit', 'json']
    cases = []
    for j in range(n):
        ng = rng.choice([1, 2, 3, 4])
        notid = rng.choice([0.0, 0.0, 1.0])
        pool, npool = [], rng.choice([2, 3, 5])
        while len(pool) < npool:
            v = _value(rng)
            if _vk(v) not in [_vk(x) for x in pool]:        # one spelling per number (7 and 7.0 do not meet)
                pool.append(v)
        groups = [_values_group(rng, _group(rng, i, notid=notid, allow_ris=False), pool) for i in range(ng)]
        for g in groups:
            if not g['has_tid'] and g['ref'][0] == 'rs' and len(g['ref'][1]) < 2:
                g['ref'][1].append([g['ref'][1][0][0]] + _src(rng))
        allnames = [m[0] for g in groups for m in g['meas']]
        cases.append({'kind': 'acc_values', 'groups': groups, 'io': hist[j % len(hist)],
                      'pre': rng.choice(['person', 'device']), 'hd_codes': rng.random() < 0.5,
                      'mname': rng.choice(allnames + [149]) if rng.random() < 0.7 else None,
                      'ename': None})
    for j in range(n // 2):
        ng = rng.choice([1, 2, 3])
        pool = []
        while len(pool) < 3:
            v = _value(rng)
            # (the DS string of the largest doubles reads back as inf, which no NUM item can carry: not restrung)
            if _vk(v) not in [_vk(x) for x in pool] and abs(float(_ds_str(v))) != float('inf'):
                pool.append(v)
        groups = [_values_group(rng, _group(rng, i, allow_ris=False), pool) for i in range(ng)]
        muts = []
        for _ in range(rng.choice([1, 2, 3, 4])):
            gi = rng.randrange(ng)
            muts.append([rng.choice(NUM_MUTS), gi, rng.randrange(len(groups[gi]['meas'])), rng.choice(pool)])
        allnames = [m[0] for g in groups for m in g['meas']]
        cases.append({'kind': 'acc_num_tree', 'groups': groups, 'io': rng.choice(['mem', 'mem', 'parsed']),
                      'pre': 'person', 'hd_codes': False, 'nmuts': muts,
                      'mname': rng.choice(allnames + [149]) if rng.random() < 0.7 else None, 'ename': None})
    return cases


ACC_MUTS = ['dup_ref', 'drop_ref', 'add_foreign_ref', 'wrong_tid', 'wrong_tid', 'ref_relationship', 'dup_tracking',
            'add_region', 'add_vs_to_planar', 'drop_source', 'drop_source', 'add_series_and_image',
            'add_series_and_image', 'add_region3d', 'second_im_container', 'add_empty_container', 'dup_code',
            'surface_other_gt', 'region_no_source_rel']


def _opts_group(rng, g):
    """constructor options the record model does not carry (algorithm identification, real world value map) and
    measurement options, all of which put items INSIDE the group or NESTED in its NUM items; values are drawn from
    the pools of the group-level fields so that a recursive / mis-scoped search would match them"""
    g = dict(g)
    mx = []
    for _ in g['meas']:
        if rng.random() < 0.3:
            mx.append(None)
            continue
        mx.append({'track': rng.randint(1, 4) if rng.random() < 0.5 else None, 'tident': rng.randint(1000, 1004),
                   'sites': [rng.randint(130, 134) for _ in range(rng.choice([0, 1, 2]))],
                   'method': rng.randint(120, 122) if rng.random() < 0.4 else None,
                   'deriv': rng.randint(110, 113) if rng.random() < 0.3 else None,
                   'qual': rng.randint(110, 113) if rng.random() < 0.3 else None,
                   'imgs': [_src(rng) for _ in range(rng.choice([0, 0, 1, 2]))],
                   'algo': rng.random() < 0.3, 'rwvm': rng.choice(RWV_INST) if rng.random() < 0.2 else None})
    g['x'] = {'algo': rng.choice([0, 1, 2]) if rng.random() < 0.5 else None,
              'rwvm': rng.choice(RWV_INST) if rng.random() < 0.5 else None, 'mx': mx}
    return g


def _nested_filters(rng, groups):
    """filters naming a value that occurs only NESTED in a measurement of some group (must not make the group match
    unless the group itself carries it)"""
    out = []
    for g in groups:
        for m in (g.get('x') or {}).get('mx') or []:
            if not m:
                continue
            if m['track'] is not None:
                out.append({'tuid': m['track']})
            for z in m['sites']:
                out.append({'site': z})
            for ci in m['imgs']:
                out.append({'inst': ci[1]})
                out.append({'cls': ci[0], 'inst': ci[1]})
            for key in ('deriv', 'qual'):
                if m[key] is not None:
                    out.append({'finding': m[key]})
        if (g.get('x') or {}).get('rwvm') is not None:
            out.append({'inst': g['x']['rwvm']})
            out.append({'cls': 7})
    rng.shuffle(out)
    return out[:6]


def _gen_opts_cases(rng, tier):
    n = {'quick': 24, 'thorough': 250, 'search': 40}[tier]
    cases = []
    for j in range(n):
        ng = rng.choice([1, 2, 3, 4])
        notid = rng.choice([0.0, 0.0, 1.0])
        groups = [_opts_group(rng, _group(rng, i, notid=notid, allow_ris=False)) for i in range(ng)]
        for g in groups:
            if not g['has_tid'] and g['ref'][0] == 'rs' and len(g['ref'][1]) < 2:
                g['ref'][1].append([g['ref'][1][0][0]] + _src(rng))
        ropts = {'title': rng.choice([0, 1, 2]), 'lang': rng.random() < 0.3, 'procs': rng.choice([1, 1, 2, 3])}
        # (no image library: its HAS ACQ CONTEXT items are outside the relationship alphabet of the rendered trees)
        base = {'groups': groups, 'io': rng.choice(['mem', 'doc', 'file']), 'pre': rng.choice(['person', 'device']),
                'hd_codes': rng.random() < 0.5, 'ropts': ropts}
        if j % 3:
            cases.append(dict(base, kind='report_opts', filters=_filters(rng, groups, 6) + _nested_filters(rng, groups)))
        else:
            allnames = [m[0] for g in groups for m in g['meas']]
            allev = [e[0] for g in groups for e in g['evals']]
            cases.append(dict(base, kind='acc_opts', muts=[],
                              mname=rng.choice(allnames + [149]) if rng.random() < 0.7 else None,
                              ename=rng.choice(allev + [159, 5, 7, 17]) if rng.random() < 0.7 else None))
    return cases


ACC_MUTS_BY_REF = {
    'r2': ['add_region', 'add_region3d', 'dup_ref', 'drop_ref', 'add_foreign_ref', 'ref_relationship'],
    'r3': ['add_region', 'add_region3d', 'dup_ref', 'drop_ref', 'add_foreign_ref', 'add_vs_to_planar'],
    'rs': ['add_region', 'add_region3d', 'drop_ref', 'add_foreign_ref', 'ref_relationship', 'wrong_tid'],
    'sf': ['dup_ref', 'drop_source', 'add_image_source', 'add_image_source', 'ref_relationship', 'region_no_source_rel'],
    'seg': ['add_series_and_image', 'add_image_source', 'drop_source', 'dup_ref', 'region_no_source_rel'],
    'surf': ['surface_other_gt', 'surface_other_gt', 'drop_source', 'add_series_and_image', 'dup_ref',
             'region_no_source_rel'],
    'ris': ['dup_ref', 'drop_ref', 'add_foreign_ref', 'wrong_tid'],
    'src': ['add_region', 'add_foreign_ref', 'wrong_tid', 'dup_code', 'dup_tracking'],
}


# ---- constructor argument checks ---------------------------------------------------------------------------
def _src_arg(rng):
    """[images or None, series or None]: images given (possibly EMPTY), series, both, neither"""
    r = rng.random()
    imgs = [_src(rng) for _ in range(rng.choice([1, 1, 2]))]
    if r < 0.35:
        return [imgs, None]
    if r < 0.55:
        return [None, rng.randint(1, 3)]
    if r < 0.7:
        return [[], None]
    if r < 0.8:
        return [imgs, rng.randint(1, 3)]
    if r < 0.9:
        return [[], rng.randint(1, 3)]
    return [None, None]


def _ospec(rng, t):
    if t == 'r2':
        return ['r2', rng.choice([1, 3, 4, 5])] + _src(rng)
    if t == 'r3':
        return ['r3', rng.choice([1, 3, 4, 5])]
    if t == 'sf':
        return ['sf'] + _src(rng, SEG_INST) + _src(rng)
    if t == 'seg':
        return ['seg'] + _src(rng, SEG_INST) + [_src_arg(rng)]
    if t == 'surf':
        gt = rng.choice([1, 4, 5, 6, 6, 1, 3])
        return ['surf', gt, rng.choice([0, 1, 1, 2, 2, 3]), _src_arg(rng)]
    return ['other']


def _construct_item(rng):
    opt = lambda ts, p: _ospec(rng, rng.choice(ts)) if rng.random() < p else None  # noqa: E731
    if rng.random() < 0.4:
        return {'k': 'P', 'region': opt(['r2', 'r2', 'r3', 'other', 'sf'], 0.6),
                'segment': opt(['sf', 'sf', 'seg', 'other', 'r2'], 0.5)}
    regions = None
    if rng.random() < 0.45:
        regions = [_ospec(rng, rng.choice(['r2', 'r2', 'r2', 'r2', 'r3', 'other'])) for _ in range(rng.choice([0, 1, 2, 2, 3]))]
    return {'k': 'V', 'regions': regions, 'surface': opt(['surf', 'surf', 'surf', 'other', 'seg'], 0.45),
            'segment': opt(['seg', 'seg', 'seg', 'sf', 'other'], 0.45)}


def _gen_construct_cases(rng, tier):
    n = {'quick': 16, 'thorough': 150, 'search': 40}[tier]
    return [{'kind': 'construct', 'items': [_construct_item(rng) for _ in range(8)]} for _ in range(n)]


def _mk_obj(sp):
    """the real object of an object spec (may raise: refusal at the object stage)"""
    from highdicom import sr
    t = sp[0]
    if t == 'r2':
        return sr.ImageRegion(graphic_type=G2[sp[1]], graphic_data=_gdata2(sp[1]),
                              source_image=sr.SourceImageForRegion(CLASSES[sp[2]], inst_str(sp[3])))
    if t == 'r3':
        return sr.ImageRegion3D(graphic_type=G3[sp[1]], graphic_data=_gdata3(sp[1]), frame_of_reference_uid=FOR_UID)
    if t == 'sf':
        return sr.ReferencedSegmentationFrame(
            sop_class_uid=CLASSES[sp[1]], sop_instance_uid=inst_str(sp[2]), frame_number=1, segment_number=1,
            source_image=sr.SourceImageForSegmentation(CLASSES[sp[3]], inst_str(sp[4])))
    if t in ('seg', 'surf'):
        imgs, series = sp[3]
        kw = {}
        if imgs is not None:
            kw['source_images'] = [sr.SourceImageForSegmentation(CLASSES[c], inst_str(i)) for c, i in imgs]
        if series is not None:
            kw['source_series'] = sr.SourceSeriesForSegmentation(series_str(series))
        if t == 'seg':
            return sr.ReferencedSegment(sop_class_uid=CLASSES[sp[1]], sop_instance_uid=inst_str(sp[2]),
                                        segment_number=1, **kw)
        return sr.VolumeSurface(graphic_type=G3[sp[1]], graphic_data=[_gdata3(sp[1]) for _ in range(sp[2])],
                                frame_of_reference_uid=FOR_UID, **kw)
    return 'not a reference object'


def _run_construct(it):
    from highdicom import sr
    from pydicom.sr.codedict import codes
    tr = sr.TrackingIdentifier(uid=tuid_str(1), identifier='t1000')
    mk = lambda sp: None if sp is None else _mk_obj(sp)  # noqa: E731
    if it['k'] == 'P':
        objs = catch(lambda: [mk(it['region']), mk(it['segment'])])
        if isinstance(objs, Err):
            return ['object', objs]
        grp = catch(lambda: sr.PlanarROIMeasurementsAndQualitativeEvaluations(
            tracking_identifier=tr, referenced_region=objs[0], referenced_segment=objs[1]))
    else:
        objs = catch(lambda: [None if it['regions'] is None else [_mk_obj(x) for x in it['regions']],
                              mk(it['surface']), mk(it['segment'])])
        if isinstance(objs, Err):
            return ['object', objs]
        grp = catch(lambda: sr.VolumetricROIMeasurementsAndQualitativeEvaluations(
            tracking_identifier=tr, referenced_regions=objs[0], referenced_volume_surface=objs[1],
            referenced_segment=objs[2]))
    if isinstance(grp, Err):
        return ['group', grp]
    rep = sr.MeasurementReport(observation_context=_observation_context('person'),
                               procedure_reported=codes.LN.CTUnspecifiedBodyRegion, imaging_measurements=[grp])
    return ['ok', _run_acc_tree(rep, None, None, _AlphaIds)]


def _coq_src_arg(a):
    imgs, series = a
    ci = 'None' if imgs is None else '(Some [' + '; '.join(f'({c}, {i})' for c, i in imgs) + '])'
    return f"(SrcArg {ci} {oz(series)})"


def _coq_ospec(sp):
    t = sp[0]
    if t == 'r2':
        return f'(SpRegion2D {sp[1]} {sp[2]} {sp[3]})'
    if t == 'r3':
        return f'(SpRegion3D {sp[1]})'
    if t == 'sf':
        return f'(SpSegFrame {sp[1]} {sp[2]} {sp[3]} {sp[4]})'
    if t == 'seg':
        return f'(SpSegment {sp[1]} {sp[2]} {_coq_src_arg(sp[3])})'
    if t == 'surf':
        return f'(SpSurface {sp[1]} {sp[2]}%nat {_coq_src_arg(sp[3])})'
    return 'SpOther'


def _coq_construct(it):
    o = lambda sp: 'None' if sp is None else f'(Some {_coq_ospec(sp)})'  # noqa: E731
    if it['k'] == 'P':
        return f"(run_construct_planar {o(it['region'])} {o(it['segment'])})"
    rs = 'None' if it['regions'] is None else '(Some [' + '; '.join(_coq_ospec(x) for x in it['regions']) + '])'
    return f"(run_construct_volumetric {rs} {o(it['surface'])} {o(it['segment'])})"


def _src_documented(a):
    """sources as the documentation of ReferencedSegment / VolumeSurface asks for them: images (at least one) or a series"""
    return bool(a[0]) or (a[0] is None and a[1] is not None)


def _construct_expect(it):
    """(accepted?, reference record) from the documentation of the template classes"""
    def obj_ok(sp):
        if sp is None or sp[0] not in ('seg', 'surf'):
            return True
        if sp[0] == 'surf':
            gt, n = sp[1], sp[2]
            if not ((gt in (1, 6) and n == 1) or (gt in (4, 5) and n >= 2)):
                return False
        return _src_documented(sp[3])
    so = lambda a: ['images', a[0]] if a[0] is not None else ['series', a[1]]  # noqa: E731
    if it['k'] == 'P':
        given = [x for x in (it['region'], it['segment']) if x is not None]
        if not all(obj_ok(x) for x in given) or len(given) != 1:
            return False, None
        if it['region'] is not None and it['region'][0] in ('r2', 'r3'):
            return True, it['region']
        if it['segment'] is not None and it['segment'][0] == 'sf':
            return True, it['segment']
        return False, None
    parts = ([] if it['regions'] is None else list(it['regions'])) + [x for x in (it['surface'], it['segment']) if x is not None]
    n_given = (it['regions'] is not None) + (it['surface'] is not None) + (it['segment'] is not None)
    if not all(obj_ok(x) for x in parts) or n_given != 1:
        return False, None
    if it['regions'] is not None:
        if it['regions'] and all(x[0] == 'r2' for x in it['regions']):
            return True, ['rs', [x[1:] for x in it['regions']]]
        return False, None
    if it['surface'] is not None and it['surface'][0] == 'surf':
        return True, ['surf', it['surface'][1], it['surface'][2], so(it['surface'][3])]
    if it['segment'] is not None and it['segment'][0] == 'seg':
        return True, ['seg', it['segment'][1], it['segment'][2], so(it['segment'][3])]
    return False, None


def _check_construct(c, out):
    for it, o in zip(c['items'], out):
        want_ok, ref = _construct_expect(it)
        if o[0] != 'ok':
            if want_ok:
                return f'arguments {it} are valid for the template class but were refused at the {o[0]} stage: {o[1]}'
            continue
        # accepted (whether or not the documentation allows it): the group must report what it was constructed with
        rows = o[1]
        K = it['k']
        mine = rows['PVI'.index(K)]
        if any(isinstance(r, Err) for r in rows) or [len(r) for r in rows] != [int(K == x) for x in 'PVI']:
            return f'group constructed from {it} is not returned by exactly the {K} query: {rows}'
        a = mine[0]
        bad = [x for x in a if isinstance(x, Err)]
        if bad:
            return (f'group ACCEPTED by the constructor cannot report what it was constructed with: arguments {it}, '
                    f'accessors {a}')
        if ref is not None:
            g = {'ref': ref}
            if a[10] != _ref_code(g):
                return f'constructed with {it}: reference_type = {a[10]}'
            if K == 'P':
                w = [['2D'] + ref[1:] if ref[0] == 'r2' else ['3D', ref[1]] if ref[0] == 'r3' else None,
                     ref[1:] if ref[0] == 'sf' else None]
            else:
                w = [['regions', ref[1]] if ref[0] == 'rs' else ['surface'] + ref[1:] if ref[0] == 'surf' else None,
                     ref[1:] if ref[0] == 'seg' else None]
            if a[11:13] != w:
                return f'constructed with {it}: roi / segment accessors = {a[11:13]}, expected {w}'
    return None


def _gen_acc_tree_cases(rng, tier):
    """accessors on damaged trees / shipped documents (drawn last: the earlier kinds keep their cases)"""
    n = {'quick': 30, 'thorough': 300, 'search': 70}[tier]
    cases = []
    for j in range(n):
        ng = rng.choice([1, 2, 3])
        groups = [_group(rng, i, notid=rng.choice([0.0, 0.0, 1.0])) for i in range(ng)]
        muts = []
        for _ in range(rng.choice([1, 1, 2, 3])):
            gi = rng.randrange(ng)
            # mostly a damage that bites on the kind of reference the target group has
            pool = ACC_MUTS_BY_REF[groups[gi]['ref'][0]] if rng.random() < 0.6 else ACC_MUTS
            muts.append([rng.choice(pool), gi, rng.randint(0, 10**6)])
        allnames = [m[0] for g in groups for m in g['meas']]
        allev = [e[0] for g in groups for e in g['evals']]
        cases.append({'kind': 'acc_tree', 'groups': groups, 'io': rng.choice(['mem', 'mem', 'file']), 'pre': 'person',
                      'hd_codes': False, 'muts': muts,
                      'mname': rng.choice(allnames + [149]) if rng.random() < 0.7 else None,
                      'ename': rng.choice(allev + [159, 5, 7, 17]) if rng.random() < 0.7 else None})
    for name in ('sr_document.dcm', 'sr_document_with_multiple_groups.dcm'):
        for j in range(2 if tier == 'quick' else 6):
            cases.append({'kind': 'acc_fixture', 'file': name, 'seed': rng.randint(0, 10**6)})
    return cases


# ---- code variants: same code value in another scheme version / another scheme ----------------------------
def _variant(rng, base):
    """a code with value `base`: un-versioned, versioned (2 versions), other scheme (with / without version)"""
    if base in RESERVED:
        return ck(base, 0, rng.choice([None, 0, 1]))
    return rng.choice([ck(base), ck(base), ck(base, 0, 0), ck(base, 0, 0), ck(base, 0, 1), ck(base, 1), ck(base, 1, 0)])


def _codes_group(rng, g):
    """re-draw every coded concept of a group from few code values x all variants, so that groups of one
    report differ in nothing but the scheme version / designator of a code"""
    v = lambda pool: _variant(rng, rng.choice(pool))  # noqa: E731
    g = dict(g)
    if g['finding'] is not None or rng.random() < 0.7:
        g['finding'] = v([110, 110, 114])
    g['sites'] = [v([130, 130, 135, 136]) for _ in g['sites']] or ([v([130, 135])] if rng.random() < 0.5 else [])
    for key, pool in (('cat', [100]), ('method', [120]), ('geom', [170]), ('tp', [180])):
        if g[key] is not None:
            g[key] = v(pool)
    # stored measurement / evaluation NAMES carry scheme versions too (D101: find_content_items used to drop them)
    g['meas'] = [[v([140, 141]), val] for _, val in g['meas']]
    g['evals'] = [[v([150, 151]), v([160, 114])] for _ in g['evals']]
    g['srt'] = rng.random() < 0.3      # SNOMED members written in their retired SRT spelling
    return g


def _filters_codes(rng, groups, n):
    """filter sets whose code filters are the exact code of a group, a sibling variant of it (same value, other
    version / scheme: must NOT match) or an unused code; every code filter also alone"""
    def near(z):
        r = rng.random()
        if z is None or r < 0.1:
            return _variant(rng, rng.choice([110, 114, 130, 135, 119]))
        if r < 0.6:
            return z
        return rng.choice([y for y in variants(z) if y != z])
    out = [{}]
    fs = [g['finding'] for g in groups if g['finding'] is not None]
    ss = [x for g in groups for x in g['sites']]
    for z in rng.sample(fs, min(2, len(fs))):
        out += [{'finding': z}, {'finding': rng.choice([y for y in variants(z) if y != z])}]
    for z in rng.sample(ss, min(2, len(ss))):
        out += [{'site': z}, {'site': rng.choice([y for y in variants(z) if y != z])}]
    while len(out) < n:
        vals = _filter_values(rng, groups)
        g = rng.choice(groups) if groups else None
        vals['finding'] = near(g and g['finding'])
        vals['site'] = near(g and (rng.choice(g['sites']) if g['sites'] else None))
        if rng.random() < 0.15:         # a reference type given with a scheme version is not an allowed value
            vals['reftype'] = ck(rng.choice(REFTYPES), 0, rng.choice([0, 1]))
        r = rng.choice([1, 2, 2, 3, 4])
        keys = set(rng.sample(FKEYS, r)) | {rng.choice(['finding', 'site'])}
        out.append({k: vals[k] for k in FKEYS if k in keys})
    return out


def _gen_code_cases(rng, tier):
    n = {'quick': 48, 'thorough': 400, 'search': 90}[tier]
    cases = []
    for j in range(n):
        ng = rng.choice([1, 2, 3, 3, 4, 5])
        notid = rng.choice([0.0, 0.0, 0.0, 1.0])
        groups = [_codes_group(rng, _group(rng, i, notid=notid, allow_ris=False)) for i in range(ng)]
        for g in groups:        # untyped groups stay classifiable (the ambiguity is exercised by report_notid)
            if not g['has_tid'] and g['ref'][0] == 'rs' and len(g['ref'][1]) < 2:
                g['ref'][1].append([g['ref'][1][0][0]] + _src(rng))
        cases.append({'kind': 'report_codes', 'groups': groups, 'io': rng.choice(['mem', 'doc', 'file']),
                      'pre': rng.choice(['person', 'device']), 'hd_codes': rng.random() < 0.5,
                      'f_hd': rng.random() < 0.5, 'f_srt': rng.random() < 0.3, 'f_alt': rng.random() < 0.3,
                      'filters': _filters_codes(rng, groups, 10)})
    for j in range(n // 2):
        ng = rng.choice([1, 2, 3])
        groups = [_codes_group(rng, _group(rng, i, notid=rng.choice([0.0, 0.0, 1.0]), allow_ris=False))
                  for i in range(ng)]
        for g in groups:
            if not g['has_tid'] and g['ref'][0] == 'rs' and len(g['ref'][1]) < 2:
                g['ref'][1].append([g['ref'][1][0][0]] + _src(rng))
        allnames = [m[0] for g in groups for m in g['meas']]
        allev = [e[0] for g in groups for e in g['evals']]
        # by-name arguments: the exact stored name (versioned or not) half of the time, else a sibling variant
        def sib(l, d):
            if not l:
                return d
            z = rng.choice(l)
            return z if rng.random() < 0.5 else rng.choice(variants(z))
        cases.append({'kind': 'acc_codes', 'groups': groups, 'io': rng.choice(['mem', 'file', 'doc']),
                      'pre': 'person', 'hd_codes': rng.random() < 0.5,
                      'f_hd': rng.random() < 0.5, 'f_srt': rng.random() < 0.3, 'f_alt': rng.random() < 0.3,
                      'mname': sib(allnames, 149) if rng.random() < 0.85 else None,
                      'ename': sib(allev, 159) if rng.random() < 0.85 else None})
    return cases


MUTS = ['dup_ref', 'drop_ref', 'add_foreign_ref', 'wrong_tid', 'rename_group', 'add_empty_container',
        'second_im_container', 'ref_relationship', 'dup_tracking', 'add_region', 'add_vs_to_planar',
        'drop_source', 'add_series_and_image', 'add_region3d', 'add_region3d']


def _mutation(rng, ng):
    return [rng.choice(MUTS), rng.randrange(ng), rng.randint(0, 10**6)]


# ---------------------------------------------------------------------------------------------
# building the real objects
# ---------------------------------------------------------------------------------------------
def _gdata2(gt):
    import numpy as np
    return {1: np.array([[1.0, 1.0]]), 3: np.array([[1.0, 1.0], [4.0, 1.0], [4.0, 4.0]]),
            4: np.array([[2.0, 2.0], [3.0, 2.0]]),
            5: np.array([[1.0, 2.0], [5.0, 2.0], [3.0, 1.0], [3.0, 3.0]])}[gt]


def _gdata3(gt):
    import numpy as np
    return {1: np.array([[1.0, 1.0, 1.0]]),
            3: np.array([[1.0, 1.0, 1.0], [2.0, 2.0, 1.0]]),
            4: np.array([[1.0, 1.0, 1.0], [4.0, 1.0, 1.0], [4.0, 4.0, 1.0], [1.0, 1.0, 1.0]]),
            5: np.array([[1.0, 2.0, 1.0], [5.0, 2.0, 1.0], [3.0, 1.0, 1.0], [3.0, 3.0, 1.0]]),
            6: np.array([[1.0, 2.0, 2.0], [5.0, 2.0, 2.0], [3.0, 1.0, 2.0], [3.0, 3.0, 2.0],
                         [3.0, 2.0, 1.0], [3.0, 2.0, 3.0]])}[gt]


FOR_UID = '1.2.826.0.1.3680043.8.498.4.1'


def _mk_sources(so):
    from highdicom import sr
    if so[0] == 'series':
        return {'source_series': sr.SourceSeriesForSegmentation(series_str(so[1]))}
    return {'source_images': [sr.SourceImageForSegmentation(CLASSES[c], inst_str(i)) for c, i in so[1]]}


def _mk_meas_opts(g, j, C):
    """options of the j-th measurement of a report_opts group: items NESTED in the NUM item (a tracking identifier,
    finding sites, method, derivation, qualifier, referenced images, algorithm identification, value map)"""
    from highdicom import sr
    mx = (g.get('x') or {}).get('mx')
    if not mx or j >= len(mx) or not mx[j]:
        return {}
    m, kw = mx[j], {}
    if m.get('track') is not None:
        kw['tracking_identifier'] = sr.TrackingIdentifier(uid=tuid_str(m['track']), identifier=f"t{m['tident']}")
    if m.get('sites'):
        kw['finding_sites'] = [sr.FindingSite(C(z)) for z in m['sites']]
    for key, arg in (('method', 'method'), ('deriv', 'derivation'), ('qual', 'qualifier')):
        if m.get(key) is not None:
            kw[arg] = C(m[key])
    if m.get('imgs'):
        kw['referenced_images'] = [sr.SourceImageForMeasurement(CLASSES[c], inst_str(i)) for c, i in m['imgs']]
    if m.get('algo'):
        kw['algorithm_id'] = sr.AlgorithmIdentification(name='malgo', version='2')
    if m.get('rwvm') is not None:
        kw['referenced_real_world_value_map'] = sr.RealWorldValueMap(inst_str(m['rwvm']))
    return kw


def _mk_measurement(g, j, n, v, C):
    """the j-th measurement of a group: with its full details (acc_meas: unit, qualifier, ...), else in millimeter
    with the options of report_opts"""
    from highdicom import sr
    from pydicom.sr.codedict import codes
    md = g.get('md')
    if not md:
        return sr.Measurement(name=C(n), value=_pv(v), unit=codes.UCUM.Millimeter, **_mk_meas_opts(g, j, C))
    d, kw = md[j], {}
    if d['qual'] is not None:
        kw['qualifier'] = C(d['qual'])
    if d['track']:
        kw['tracking_identifier'] = sr.TrackingIdentifier(uid=tuid_str(d['track'][1]), identifier=f"t{d['track'][0]}")
    if d['method'] is not None:
        kw['method'] = C(d['method'])
    if d['deriv'] is not None:
        kw['derivation'] = C(d['deriv'])
    if d['sites']:
        kw['finding_sites'] = [sr.FindingSite(C(z)) for z in d['sites']]
    if d['imgs']:
        kw['referenced_images'] = [sr.SourceImageForMeasurement(CLASSES[c], inst_str(i)) for c, i in d['imgs']]
    return sr.Measurement(name=C(n), value=_pv(v), unit=C(d['unit']), **kw)


def _build_group(g, hd_codes):
    from highdicom import sr
    from pydicom.sr.codedict import codes
    C = lambda z: code_of(z, hd_codes, srt=g.get('srt', False))  # noqa: E731
    kw = dict(
        tracking_identifier=sr.TrackingIdentifier(uid=tuid_str(g['tuid']), identifier=f"t{g['tid']}"),
        finding_type=None if g['finding'] is None else C(g['finding']),
        finding_category=None if g['cat'] is None else C(g['cat']),
        method=None if g['method'] is None else C(g['method']),
        finding_sites=[sr.FindingSite(C(s)) for s in g['sites']] or None,
        session=None if g['session'] is None else f"s{g['session']}",
        time_point_context=None if g['tp'] is None else sr.TimePointContext(time_point='tp', time_point_type=C(g['tp'])),
        measurements=[_mk_measurement(g, j, n, v, C) for j, (n, v) in enumerate(g['meas'])] or None,
        qualitative_evaluations=[sr.QualitativeEvaluation(name=C(n), value=C(v)) for n, v in g['evals']] or None,
    )
    x = g.get('x') or {}
    if x.get('algo') is not None:
        kw['algorithm_id'] = sr.AlgorithmIdentification(name='algo', version='1', parameters=[f'p{i}' for i in range(x['algo'])] or None)
    if x.get('rwvm') is not None:
        kw['referenced_real_world_value_map'] = sr.RealWorldValueMap(inst_str(x['rwvm']))
    if g['sites'] == [] and g['tuid'] % 2:
        kw['finding_sites'] = []
    r = g['ref']
    t = r[0]
    ris = None
    if t == 'ris':       # build with a placeholder region, then replace it by the COMPOSITE item
        ris = r
        r = ['r2', 1, 0, 1] if g['k'] == 'P' else ['rs', [[1, 0, 1]]]
        t = r[0]

    geo = g.get('geo') or None          # acc_geom: the coordinates (and memory layout) of every region

    def region(gt, c, i, k=0):
        if geo:
            sp = geo[k]
            fr = {'referenced_frame_numbers': [1]} if sp.get('poi') == 'FRAME' else {}
            return sr.ImageRegion(graphic_type=G2[gt], graphic_data=_geo_array(sp),
                                  source_image=sr.SourceImageForRegion(CLASSES[c], inst_str(i), **fr),
                                  pixel_origin_interpretation=sp.get('poi'))
        return sr.ImageRegion(graphic_type=G2[gt], graphic_data=_gdata2(gt),
                              source_image=sr.SourceImageForRegion(CLASSES[c], inst_str(i)))
    if g['k'] != 'I':
        kw['geometric_purpose'] = None if g['geom'] is None else C(g['geom'])
    if g['k'] == 'P':
        if t == 'r2':
            kw['referenced_region'] = region(r[1], r[2], r[3])
        elif t == 'r3':
            kw['referenced_region'] = sr.ImageRegion3D(
                graphic_type=G3[r[1]], graphic_data=_geo_array(geo[0]) if geo else _gdata3(r[1]),
                frame_of_reference_uid=FOR_UIDS[geo[0]['for']] if geo else FOR_UID)
        elif t == 'sf':
            kw['referenced_segment'] = sr.ReferencedSegmentationFrame(
                sop_class_uid=CLASSES[r[1]], sop_instance_uid=inst_str(r[2]), frame_number=1, segment_number=1,
                source_image=sr.SourceImageForSegmentation(CLASSES[r[3]], inst_str(r[4])))
        else:
            raise ValueError(r)
        obj = sr.PlanarROIMeasurementsAndQualitativeEvaluations(**kw)
    elif g['k'] == 'V':
        if t == 'rs':
            kw['referenced_regions'] = [region(*x, k=k) for k, x in enumerate(r[1])]
        elif t == 'seg':
            kw['referenced_segment'] = sr.ReferencedSegment(
                sop_class_uid=CLASSES[r[1]], sop_instance_uid=inst_str(r[2]), segment_number=1, **_mk_sources(r[3]))
        elif t == 'surf':
            gd = [_gdata3(r[1]) for _ in range(r[2])]
            if geo:
                import numpy as np
                gd = [_geo_array(sp) for sp in geo]
                pack = g.get('geo_pack', 'list')
                gd = {'list': lambda: gd, 'tuple': lambda: tuple(gd), 'single': lambda: gd[0],
                      'stack': lambda: np.stack(gd), 'stack_f': lambda: np.asfortranarray(np.stack(gd))}[pack]()
            kw['referenced_volume_surface'] = sr.VolumeSurface(
                graphic_type=G3[r[1]], graphic_data=gd,
                frame_of_reference_uid=FOR_UIDS[geo[0]['for']] if geo else FOR_UID, **_mk_sources(r[3]))
        else:
            raise ValueError(r)
        obj = sr.VolumetricROIMeasurementsAndQualitativeEvaluations(**kw)
    else:
        kw['source_images'] = [sr.SourceImageForMeasurementGroup(CLASSES[c], inst_str(i)) for c, i in r[1]]
        if not r[1] and g['tid'] % 2:
            kw['source_images'] = None
        obj = sr.MeasurementsAndQualitativeEvaluations(**kw)
    if ris is not None:
        from highdicom.sr import CompositeContentItem, ContentSequence
        comp = CompositeContentItem(name=code_of(13), referenced_sop_class_uid=CLASSES[ris[1]],
                                    referenced_sop_instance_uid=inst_str(ris[2]), relationship_type='CONTAINS')
        items = [it for it in obj[0].ContentSequence]
        obj[0].ContentSequence = ContentSequence(items[:-1] + [comp])
    if not g['has_tid']:
        del obj[0].ContentTemplateSequence
    return obj


def _observation_context(pre):
    from highdicom import sr
    from pydicom.sr.codedict import codes
    if pre == 'device':
        oc = sr.ObserverContext(observer_type=codes.DCM.Device,
                                observer_identifying_attributes=sr.DeviceObserverIdentifyingAttributes(
                                    uid='1.2.826.0.1.3680043.8.498.5.1', name='dev'))
        return sr.ObservationContext(observer_device_context=oc)
    oc = sr.ObserverContext(observer_type=codes.DCM.Person,
                            observer_identifying_attributes=sr.PersonObserverIdentifyingAttributes(name='Doe^John'))
    return sr.ObservationContext(observer_person_context=oc)


def _evidence(root):
    """one minimal evidence dataset per referenced SOP instance"""
    import synth
    from highdicom.sr.utils import find_content_items
    refs = find_content_items(root, value_type='IMAGE', recursive=True)
    refs += find_content_items(root, value_type='COMPOSITE', recursive=True)
    base = synth.base('ct_image.dcm')
    del base.PixelData
    out, seen = [], set()
    for r in refs:
        it = r.ReferencedSOPSequence[0]
        if it.ReferencedSOPInstanceUID in seen:
            continue
        seen.add(it.ReferencedSOPInstanceUID)
        e = copy.deepcopy(base)
        e.SOPInstanceUID = it.ReferencedSOPInstanceUID
        e.SOPClassUID = it.ReferencedSOPClassUID
        out.append(e)
    if not out:
        out = [base]
    return out


def _build_report(c):
    """-> MeasurementReport-like object to query (in memory, document content or re-read)"""
    import synth
    from highdicom import sr
    from pydicom.sr.codedict import codes
    groups = [_build_group(g, c.get('hd_codes', False)) for g in c['groups']]
    kw = {}
    if c.get('pre') == 'library':
        kw['referenced_images'] = [synth.base('ct_image.dcm')]
    ro = c.get('ropts') or {}
    if ro.get('title'):
        kw['title'] = codes.cid7021.ImagingMeasurementReport if ro['title'] == 1 else code_of(151)
    if ro.get('lang'):
        kw['language_of_content_item_and_descendants'] = sr.LanguageOfContentItemAndDescendants(
            sr.CodedConcept('de-DE', 'RFC5646', 'German (Germany)'))
    procs = [codes.LN.CTUnspecifiedBodyRegion, code_of(5), code_of(111)][:ro.get('procs', 1)]
    if groups:
        rep = sr.MeasurementReport(observation_context=_observation_context(c.get('pre')),
                                   procedure_reported=procs if len(procs) > 1 else procs[0],
                                   imaging_measurements=groups, **kw)
    else:
        # the constructor refuses an empty list; a report without measurement groups is one whose
        # Imaging Measurements container is empty
        g0 = _build_group(_group(__import__('random').Random(0), 0, k='I'), False)
        rep = sr.MeasurementReport(observation_context=_observation_context(c.get('pre')),
                                   procedure_reported=codes.LN.CTUnspecifiedBodyRegion,
                                   imaging_measurements=[g0], **kw)
        im = [it for it in rep[0].ContentSequence if it.name == codes.DCM.ImagingMeasurements][0]
        del im.ContentSequence[0]
    for m in c.get('muts', []):
        _apply_mutation(rep, m)
    for m in c.get('nmuts', []):
        _apply_num_mutation(rep, m)
    for m in c.get('mmuts', []):
        _apply_meas_mutation(rep, m)
    if c['io'] == 'mem':
        return rep
    if c['io'] == 'parsed':     # the in-memory object parsed again (copies every item)
        return sr.MeasurementReport.from_sequence(rep)
    if c['io'] == 'json':       # the content tree through the DICOM JSON model (pydicom writes DS as full numbers)
        import pydicom
        ds = pydicom.Dataset()
        for elem in rep[0]:
            ds.add(elem)
        return sr.MeasurementReport.from_sequence([pydicom.Dataset.from_json(ds.to_json())])
    if c['io'] in ('dcm', 'dcm_implicit'):
        # the bare content tree written into a data set, ENCODED and decoded (no SR document around it)
        import pydicom
        ds = pydicom.Dataset()
        for elem in rep[0]:
            ds.add(elem)
        b = io.BytesIO()
        pydicom.dcmwrite(b, ds, implicit_vr=(c['io'] == 'dcm_implicit'), little_endian=True, enforce_file_format=False)
        b.seek(0)
        return sr.MeasurementReport.from_sequence([pydicom.dcmread(b, force=True)])
    ev = _evidence(rep[0])
    if c.get('pre') == 'library':
        ev = ev + [synth.base('ct_image.dcm')]
    doc = sr.Comprehensive3DSR(evidence=ev, content=rep[0], series_number=1,
                               series_instance_uid='1.2.826.0.1.3680043.8.498.6.1',
                               sop_instance_uid='1.2.826.0.1.3680043.8.498.6.2', instance_number=1,
                               manufacturer='verif')
    if c['io'] == 'doc':       # parsed from the in-memory dataset, no file
        return sr.Comprehensive3DSR.from_dataset(doc).content
    b = io.BytesIO()
    doc.save_as(b)
    b.seek(0)
    if c['io'] == 'file2':      # a second document made of the content read back, written and read again
        first = sr.srread(b)
        doc2 = sr.Comprehensive3DSR(evidence=ev, content=first.content[0], series_number=2,
                                    series_instance_uid='1.2.826.0.1.3680043.8.498.6.3',
                                    sop_instance_uid='1.2.826.0.1.3680043.8.498.6.4', instance_number=1,
                                    manufacturer='verif')
        b = io.BytesIO()
        doc2.save_as(b)
        b.seek(0)
    return sr.srread(b).content


def _groups_container(rep):
    from pydicom.sr.codedict import codes
    return [it for it in rep[0].ContentSequence
            if it.name == codes.DCM.ImagingMeasurements and it.ValueType == 'CONTAINER'][0]


def _apply_mutation(rep, m):
    """damage the in-memory content tree (third-party / malformed reports)"""
    import random
    from highdicom import sr
    from highdicom.sr import ContentSequence
    name, gi, seed = m
    rng = random.Random(seed)
    im = _groups_container(rep)
    grp = im.ContentSequence[gi % len(im.ContentSequence)]
    seq = grp.ContentSequence
    ref_names = {RESERVED[z][0] for z in REFTYPES}
    ref_idx = [i for i, it in enumerate(seq) if it.name.value in ref_names]

    def set_items(items):
        grp.ContentSequence = ContentSequence(items)
    items = [it for it in seq]
    if name == 'dup_ref' and ref_idx:
        i = rng.choice(ref_idx)
        set_items(items + [copy.deepcopy(items[i])])
    elif name == 'drop_ref' and ref_idx:
        i = rng.choice(ref_idx)
        set_items(items[:i] + items[i + 1:])
    elif name == 'add_foreign_ref':
        t = rng.choice(['sf', 'rs', 'ris', 'r3'])
        if t == 'sf':
            new = sr.ImageContentItem(name=code_of(12), referenced_sop_class_uid=CLASSES[3],
                                      referenced_sop_instance_uid=inst_str(12), relationship_type='CONTAINS')
        elif t == 'rs':
            new = sr.ImageContentItem(name=code_of(11), referenced_sop_class_uid=CLASSES[3],
                                      referenced_sop_instance_uid=inst_str(13), relationship_type='CONTAINS')
        elif t == 'ris':
            new = sr.CompositeContentItem(name=code_of(13), referenced_sop_class_uid=CLASSES[4],
                                          referenced_sop_instance_uid=inst_str(21), relationship_type='CONTAINS')
        else:
            new = sr.ImageRegion3D(graphic_type='POINT', graphic_data=_gdata3(1), frame_of_reference_uid=FOR_UID)
        pos = rng.choice([len(items), max(0, len(items) - 1)])
        set_items(items[:pos] + [new] + items[pos:])
    elif name == 'wrong_tid':
        from pydicom import Dataset
        d = Dataset()
        d.MappingResource = 'DCMR'
        d.TemplateIdentifier = rng.choice(['1410', '1411', '1501', '1500', '9999'])
        grp.ContentTemplateSequence = [d]
    elif name == 'rename_group':
        c = code_of(rng.choice([2, 5, 151]))
        grp.ConceptNameCodeSequence[0].CodeValue = c.value
        grp.ConceptNameCodeSequence[0].CodingSchemeDesignator = c.scheme_designator
        grp.ConceptNameCodeSequence[0].CodeMeaning = c.meaning
    elif name == 'add_empty_container':
        new = sr.ContainerContentItem(name=code_of(rng.choice([1, 150])), relationship_type='CONTAINS',
                                      template_id=rng.choice([None, '1410', '1501']))
        new.ContentSequence = ContentSequence([sr.TextContentItem(name=code_of(3), value='t1999',
                                                                  relationship_type='HAS OBS CONTEXT')])
        im.ContentSequence.append(new)
    elif name == 'second_im_container':
        new = sr.ContainerContentItem(name=code_of(2), relationship_type='CONTAINS')
        new.ContentSequence = ContentSequence([copy.deepcopy(grp)])
        root_items = [it for it in rep[0].ContentSequence]
        if rng.random() < 0.5:
            rep[0].ContentSequence.append(new)
        else:
            k = [i for i, it in enumerate(root_items) if it is im][0]
            rep[0].ContentSequence = ContentSequence(root_items[:k] + [new] + root_items[k:], is_root=False)
    elif name == 'ref_relationship' and ref_idx:
        i = rng.choice(ref_idx)
        items[i].RelationshipType = rng.choice(['HAS PROPERTIES', 'INFERRED FROM'])
    elif name == 'dup_tracking':
        new = sr.UIDRefContentItem(name=code_of(4), value=tuid_str(rng.randint(1, 4)),
                                   relationship_type=rng.choice(['HAS OBS CONTEXT', 'CONTAINS']))
        set_items(items + [new])
    elif name == 'add_region':
        gt = rng.choice([1, 3, 4, 5])
        i = rng.choice(IMG_INST)
        new = sr.ImageRegion(graphic_type=G2[gt], graphic_data=_gdata2(gt),
                             source_image=sr.SourceImageForRegion(CLASSES[cls_of(i)], inst_str(i)))
        set_items(items + [new])
    elif name == 'add_region3d':       # image regions of mixed value types in one group
        new = sr.ImageRegion3D(graphic_type='POINT', graphic_data=_gdata3(1), frame_of_reference_uid=FOR_UID)
        set_items(items + [new] if rng.random() < 0.7 else [new] + items)
    elif name == 'add_vs_to_planar':
        new = sr.Scoord3DContentItem(name=code_of(10), graphic_type='POINT', graphic_data=_gdata3(1),
                                     frame_of_reference_uid=FOR_UID, relationship_type='CONTAINS')
        set_items(items + [new])
    elif name == 'drop_source':
        idx = [i for i, it in enumerate(items) if it.name.value in ('121233', '121232')]
        if idx:
            i = rng.choice(idx)
            set_items(items[:i] + items[i + 1:])
    elif name == 'add_series_and_image':
        new = [sr.SourceSeriesForSegmentation(series_str(2)),
               sr.SourceImageForSegmentation(CLASSES[0], inst_str(3))]
        set_items(items + new[:rng.choice([1, 2])])
    elif name == 'add_image_source':   # one more Source Image For Segmentation item
        i = rng.choice(IMG_INST)
        set_items(items + [sr.SourceImageForSegmentation(CLASSES[cls_of(i)], inst_str(i))])
    elif name == 'dup_code':           # a second Finding / Finding category / Method / Finding Site item
        z, rel = rng.choice([(5, 'CONTAINS'), (7, 'CONTAINS'), (8, 'CONTAINS'), (6, 'HAS CONCEPT MOD'),
                             (5, 'HAS PROPERTIES'), (17, 'CONTAINS'), (151, 'CONTAINS'), (151, 'HAS PROPERTIES')])
        new = sr.CodeContentItem(name=code_of(z), value=code_of(rng.choice([111, 131, 161])), relationship_type=rel)
        pos = rng.choice([0, len(items)])
        set_items(items[:pos] + [new] + items[pos:])
    elif name == 'surface_other_gt':   # volume surface items of two graphic types
        gt = rng.choice([4, 5])
        new = sr.Scoord3DContentItem(name=code_of(10), graphic_type=G3[gt], graphic_data=_gdata3(gt),
                                     frame_of_reference_uid=FOR_UID, relationship_type='CONTAINS')
        pos = rng.choice([0, len(items)])
        set_items(items[:pos] + [new] + items[pos:])
    elif name == 'region_no_source_rel':   # the reference / source items lose their CONTAINS relationship
        idx = [i for i, it in enumerate(items) if it.name.value in ('121233', '121232', '121191', '121214', '121231')]
        if idx:
            items[rng.choice(idx)].RelationshipType = rng.choice(['HAS PROPERTIES', 'INFERRED FROM'])


def _apply_num_mutation(rep, m):
    """NUM items as other writers leave them (in memory)"""
    from pydicom.valuerep import DS
    name, gi, mi, other = m
    grp = _groups_container(rep).ContentSequence[gi]
    nums = [it for it in grp.ContentSequence if it.ValueType == 'NUM']
    mv = nums[mi].MeasuredValueSequence[0]
    if name in ('restring', 'restring_drop_fd'):      # Numeric Value as decoding yields it: the number its string says
        mv.NumericValue = DS(str(mv.NumericValue))
    if name in ('drop_fd', 'restring_drop_fd') and 'FloatingPointValue' in mv:
        del mv.FloatingPointValue
    if name == 'fd_other':                            # inconsistent attributes: Floating Point Value is the exact one
        mv.FloatingPointValue = float(_pv(other))
    if name == 'add_fd':
        mv.FloatingPointValue = float(mv.NumericValue)


def _apply_meas_mutation(rep, m):
    """the attributes and the child content of NUM items as other writers leave them (in memory): qualifier dropped /
    set / replaced, another unit, child content dropped, a further derivation / method / finding site item (in front
    or behind), a second NUM item of the same name with another qualifier"""
    import random
    from highdicom import sr
    from highdicom.sr import ContentSequence
    name, gi, mi, seed = m
    rng = random.Random(seed)
    grp = _groups_container(rep).ContentSequence[gi]
    nums = [it for it in grp.ContentSequence if it.ValueType == 'NUM']
    if not nums:
        return
    it = nums[mi % len(nums)]
    cc = lambda z: code_of(z, True)  # noqa: E731
    if name == 'drop_qual':
        if 'NumericValueQualifierCodeSequence' in it:
            del it.NumericValueQualifierCodeSequence
    elif name == 'set_qual':
        it.NumericValueQualifierCodeSequence = [cc(_mcode(rng, [210, 211, 212]))]
    elif name == 'set_unit':
        it.MeasuredValueSequence[0].MeasurementUnitsCodeSequence = [cc(_mcode(rng, [200, 201, 202, 203]))]
    elif name == 'drop_content':
        if 'ContentSequence' in it:
            del it.ContentSequence
    elif name == 'add_child':
        kids = list(it.ContentSequence) if 'ContentSequence' in it else []
        # mostly a SECOND derivation / method / finding site item (the accessors take the first / all of them)
        have = [z for z in (23, 8, 6) if any(k.ValueType == 'CODE' and k.name == code_of(z) for k in kids)]
        z = rng.choice(have) if have and rng.random() < 0.7 else rng.choice([23, 8, 6, 151])
        new = sr.CodeContentItem(name=code_of(z), value=code_of(rng.choice([111, 121, 131, 221])),
                                 relationship_type='HAS CONCEPT MOD')
        it.ContentSequence = ContentSequence([new] + kids if rng.random() < 0.5 else kids + [new])
    elif name == 'dup_num':
        new = copy.deepcopy(it)
        if rng.random() < 0.7:
            new.NumericValueQualifierCodeSequence = [cc(_mcode(rng, [210, 211, 212]))]
        elif 'NumericValueQualifierCodeSequence' in new:
            del new.NumericValueQualifierCodeSequence
        items = [x for x in grp.ContentSequence]
        pos = rng.choice([len(items), items.index(it)])
        grp.ContentSequence = ContentSequence(items[:pos] + [new] + items[pos:])


def _num_shadow(c):
    """(Numeric Value as a number, Floating Point Value or None) of every measurement after the NUM mutations,
    from the definitions of the two attributes (PS3.3 C.18.1) - independent of the implementation"""
    sh = [[[float(_pv(v)), float(_pv(v)) if _writes_fp(v) else None, _ds_str(v)] for _, v in g['meas']]
          for g in c['groups']]
    for name, gi, mi, other in c.get('nmuts', []):
        e = sh[gi][mi]
        if name in ('restring', 'restring_drop_fd'):
            e[0] = float(e[2])
        if name in ('drop_fd', 'restring_drop_fd'):
            e[1] = None
        if name == 'fd_other':
            e[1] = float(_pv(other))
        if name == 'add_fd':
            e[1] = e[0]
    return sh


# ---------------------------------------------------------------------------------------------
# running the implementation
# ---------------------------------------------------------------------------------------------
def _fopts(c):
    """how the codes given as arguments are written: class (CodedConcept / Code; default: like the stored ones),
    SRT spelling of SNOMED members, another code meaning"""
    return {'hd': c.get('f_hd', c.get('hd_codes', False)), 'srt': c.get('f_srt', False), 'alt': c.get('f_alt', False)}


def _py_filter(f, K, hd_codes=False, srt=False, alt=False):
    from highdicom.sr import GraphicTypeValues, GraphicTypeValues3D
    kw = {}
    code_of = lambda z, hd: globals()['code_of'](z, hd, srt=srt, alt=alt)  # noqa: E731
    if 'tuid' in f:
        kw['tracking_uid'] = tuid_str(f['tuid'])
    if 'finding' in f:
        kw['finding_type'] = code_of(f['finding'], hd_codes)
    if 'site' in f:
        kw['finding_site'] = code_of(f['site'], hd_codes)
    if 'inst' in f:
        kw['referenced_sop_instance_uid'] = inst_str(f['inst'])
    if 'cls' in f:
        kw['referenced_sop_class_uid'] = CLASSES[f['cls']]
    if K != 'I':
        if 'reftype' in f:
            kw['reference_type'] = code_of(f['reftype'], hd_codes)
        if 'gt' in f:
            d, g = f['gt']
            kw['graphic_type'] = (GraphicTypeValues(G2[g]) if d == '2' else
                                  GraphicTypeValues3D(G3[g]) if d == '3' else 'CIRCLE')
    return kw


def _tident(g):
    t = g.tracking_identifier
    return None if t is None else int(str(t)[1:])


def _query(rep, K, f, hd_codes=False, srt=False, alt=False):
    fn = {'P': rep.get_planar_roi_measurement_groups, 'V': rep.get_volumetric_roi_measurement_groups,
          'I': rep.get_image_measurement_groups}[K]
    return catch(lambda: [_tident(g) for g in fn(**_py_filter(f, K, hd_codes, srt, alt))])


def _pairs(l):
    return [[int(a), int(b)] for a, b in l]


def _img_ref(it):
    return [uid_id(it.referenced_sop_class_uid), uid_id(it.referenced_sop_instance_uid)]


def _sources_val(obj):
    if obj.has_source_images():
        return ['images', [_img_ref(s) for s in obj.source_images_for_segmentation]]
    return ['series', uid_id(obj.source_series_for_segmentation.value)]


def _accessors(g, K, mname, ename, hd_codes, srt=False, alt=False):
    code_id = lambda c: globals()['code_id'](c, hd_codes)  # noqa: E731
    _opt_code = lambda c: None if c is None else code_id(c)  # noqa: E731

    def mlist(name):
        ms = g.get_measurements(name=None if name is None else code_of(name, hd_codes, srt, alt))
        return [[code_id(m.name), vkey(m.value)] for m in ms]

    def elist(name):
        es = g.get_qualitative_evaluations(name=None if name is None else code_of(name, hd_codes, srt, alt))
        return [[code_id(e.name), code_id(e.value)] for e in es]
    out = [None if g.tracking_uid is None else uid_id(g.tracking_uid), _tident(g),
           _opt_code(g.finding_type), _opt_code(g.finding_category), _opt_code(g.method),
           [code_id(s.value) for s in g.finding_sites],
           mlist(None), elist(None), mlist(mname), elist(ename)]
    if K == 'P':
        out.append(catch(lambda: code_id(g.reference_type)))
        roi = g.roi
        from highdicom.sr import ImageRegion
        if roi is None:
            out.append(None)
        elif isinstance(roi, ImageRegion):
            gt = [k for k, v in G2.items() if v == roi.graphic_type.value][0]
            src = roi.ContentSequence[0] if 'ContentSequence' in roi and len(roi.ContentSequence) else None
            out.append(['2D', gt] + (_img_ref(src) if src is not None else [-1, -1]))
        else:
            gt = [k for k, v in G3.items() if v == roi.graphic_type.value][0]
            out.append(['3D', gt])

        def sf():
            r = g.referenced_segmentation_frame
            if r is None:
                return None
            return [uid_id(r.referenced_sop_class_uid), uid_id(r.referenced_sop_instance_uid)] + \
                _img_ref(r.source_image_for_segmentation)
        out.append(catch(sf))
    elif K == 'V':
        out.append(catch(lambda: code_id(g.reference_type)))

        def roi():
            r = g.roi
            if r is None:
                return None
            if isinstance(r, list):
                return ['regions', [[[k for k, v in G2.items() if v == x.graphic_type.value][0]] +
                                    (_img_ref(x.ContentSequence[0]) if 'ContentSequence' in x else [-1, -1])
                                    for x in r]]
            gt = [k for k, v in G3.items() if v == r.graphic_type.value][0]
            return ['surface', gt, len(r._graphic_data_items), _sources_val(r)]
        out.append(catch(roi))

        def seg():
            r = g.referenced_segment
            if r is None:
                return None
            return [uid_id(r.referenced_sop_class_uid), uid_id(r.referenced_sop_instance_uid), _sources_val(r)]
        out.append(catch(seg))
    else:
        out.append([_img_ref(s) for s in g.source_images])
    return out


def _geom_obs(g, K):
    """region geometry a returned group reports: per coordinate-bearing reference item of roi
    [dimension, Pixel Origin Interpretation code (2D) / frame of reference number (3D), stored GraphicData,
    the rows of the array `value` (for a volume surface: VolumeSurface.graphic_data) returns] - every number exactly"""
    import numpy as np
    from highdicom.sr import ImageRegion, VolumeSurface

    def aux(it, d):
        if d == 2:
            return POI.get(it.get('PixelOriginInterpretation'), -1)
        u = str(it.frame_of_reference_uid)
        return next((k for k, v in FOR_UIDS.items() if v == u), -1)

    def rows(v):
        v = np.asarray(v)
        if v.ndim != 2:
            return ['not a 2-dimensional array', list(v.shape)]
        return [[vkey(x) for x in row] for row in v.tolist()]

    def item(it, d, value=None):
        return [d, aux(it, d), [vkey(float(x)) for x in it.GraphicData], rows(it.value if value is None else value)]
    if K == 'I':
        return []
    r = g.roi
    if r is None:
        return []
    if K == 'P':
        return [item(r, 2 if isinstance(r, ImageRegion) else 3)]
    if isinstance(r, VolumeSurface):
        gd = r.graphic_data
        if isinstance(gd, np.ndarray):      # one array for a single-item surface (POINT / ELLIPSOID)
            gd = [gd]
        items = r._graphic_data_items
        if len(gd) != len(items):
            return ['graphic_data has', len(gd), 'arrays for', len(items), 'items']
        return [item(it, 3, v) for it, v in zip(items, gd)]
    return [item(x, 2) for x in r]


class _AlphaIds:
    """numbering of the generated alphabets (no foreign values)"""

    @staticmethod
    def codeobj(c):
        return code_id(c, False)

    uid = staticmethod(uid_id)

    @staticmethod
    def text(s):
        return int(str(s)[1:])


class _TreeIds:
    """numbering shared with the rendering of a shipped document (ids: the _Ids used by render_item)"""

    def __init__(self, ids):
        self.ids = ids
        self.uid = ids.uid
        self.text = ids.text

    def codeobj(self, c):
        return self.ids.code(str(c.value), str(c.scheme_designator), c.scheme_version)


def _accessors_tree(g, K, mname_code, ename_code, ids):
    """observation of one group of a damaged / third-party tree, shaped like C16_Model.acc_val: every accessor is
    called separately and an exception is that accessor's observation"""
    from highdicom.sr import ImageRegion
    cid = ids.codeobj
    oc = lambda c: None if c is None else cid(c)  # noqa: E731

    def iref(it):
        return [ids.uid(it.referenced_sop_class_uid), ids.uid(it.referenced_sop_instance_uid)]

    def sources(obj):
        if obj.has_source_images():
            return ['images', [iref(s) for s in obj.source_images_for_segmentation]]
        return ['series', ids.uid(obj.source_series_for_segmentation.value)]

    def mlist(name):
        return [[cid(m.name), vkey(m.value)] for m in g.get_measurements(name=name)]

    def elist(name):
        return [[cid(e.name), cid(e.value)] for e in g.get_qualitative_evaluations(name=name)]
    out = [catch(lambda: None if g.tracking_uid is None else ids.uid(g.tracking_uid)),
           catch(lambda: None if g.tracking_identifier is None else ids.text(g.tracking_identifier)),
           catch(lambda: oc(g.finding_type)), catch(lambda: oc(g.finding_category)), catch(lambda: oc(g.method)),
           catch(lambda: [cid(s.value) for s in g.finding_sites]),
           catch(lambda: mlist(None)), catch(lambda: elist(None)),
           catch(lambda: mlist(mname_code)), catch(lambda: elist(ename_code))]
    if K == 'I':
        return out + [catch(lambda: [iref(s) for s in g.source_images])]
    out.append(catch(lambda: cid(g.reference_type)))
    if K == 'P':
        def roi():
            r = g.roi
            if r is None:
                return None
            if isinstance(r, ImageRegion):
                gt = [k for k, v in G2.items() if v == r.graphic_type.value][0]
                kids = list(r.ContentSequence) if 'ContentSequence' in r else []
                return ['2D', gt] + (iref(kids[0]) if kids else [-1, -1])
            return ['3D', [k for k, v in G3.items() if v == r.graphic_type.value][0]]

        def sf():
            r = g.referenced_segmentation_frame
            if r is None:
                return None
            return [ids.uid(r.referenced_sop_class_uid), ids.uid(r.referenced_sop_instance_uid)] + \
                iref(r.source_image_for_segmentation)
        return out + [catch(roi), catch(sf)]

    def vroi():
        r = g.roi
        if r is None:
            return None
        if isinstance(r, list):
            res = []
            for x in r:
                kids = list(x.ContentSequence) if 'ContentSequence' in x else []
                res.append([[k for k, v in G2.items() if v == x.graphic_type.value][0]] +
                           (iref(kids[0]) if kids else [-1, -1]))
            return ['regions', res]
        gt = [k for k, v in G3.items() if v == r.graphic_type.value][0]
        return ['surface', gt, len(r._graphic_data_items), sources(r)]

    def seg():
        r = g.referenced_segment
        if r is None:
            return None
        return [ids.uid(r.referenced_sop_class_uid), ids.uid(r.referenced_sop_instance_uid), sources(r)]
    return out + [catch(vroi), catch(seg)]


def _meas_obs(m, cid, ids):
    """one sr.Measurement returned by get_measurements, shaped like C16_Model.meas_val: name, value, unit, qualifier,
    derivation, method, finding sites, referenced images - each through the accessor of the class - and the child
    content of its NUM item, item by item (concept name, value type, relationship, values)"""
    oc = lambda c: None if c is None else cid(c)  # noqa: E731
    it = m[0]
    kids = list(it.ContentSequence) if 'ContentSequence' in it else []
    content = []
    for k in kids:
        name, vt, rl, a, b = _item_fields(ids, k)
        content.append([name, VT_TAG.get(vt, 9), RT_TAG[rl], a, b])
    return [cid(m.name), vkey(m.value), cid(m.unit), oc(m.qualifier), oc(m.derivation), oc(m.method),
            [cid(s.value) for s in m.finding_sites],
            [[ids.uid(x.referenced_sop_class_uid), ids.uid(x.referenced_sop_instance_uid)] for x in m.referenced_images],
            content]


def _run_meas(rep, filters, mname_code, cid, ids, fo):
    """for every filter set and every query: [tracking identifier, get_measurements(), get_measurements(name)] of each
    returned group, every measurement in full (shape of C16_Model.run_tree_meas)"""
    out = []
    for f in filters:
        row = []
        for K in 'PVI':
            fn = {'P': rep.get_planar_roi_measurement_groups, 'V': rep.get_volumetric_roi_measurement_groups,
                  'I': rep.get_image_measurement_groups}[K]

            def one(g):
                t = g.tracking_identifier
                return [None if t is None else ids.text(t),
                        catch(lambda: [_meas_obs(m, cid, ids) for m in g.get_measurements()]),
                        catch(lambda: [_meas_obs(m, cid, ids) for m in g.get_measurements(name=mname_code)])]
            row.append(catch(lambda: [one(g) for g in fn(**_py_filter(f, K, fo['hd'], fo['srt'], fo['alt']))]))
        out.append(row)
    return out


def _run_meas_tree(c):
    """acc_meas_tree: NUM items rewritten in memory / a shipped document -> (observation, model term on the rendered
    tree).  The tree is rendered first so that foreign codes, uids and texts are numbered in document order."""
    import random
    import synth
    from highdicom import sr
    from pydicom.sr.coding import Code
    common.import_highdicom()
    ids = _Ids()
    if 'file' in c:
        rng = random.Random(c['seed'])
        rep = sr.srread(os.path.join(synth.TEST_FILES, c['file'])).content
        root = render_item(ids, rep[0], 4)
        names = [it.ConceptNameCodeSequence[0] for im in rep[0].ContentSequence if im.ValueType == 'CONTAINER'
                 for grp in im.get('ContentSequence', []) for it in grp.get('ContentSequence', []) if it.ValueType == 'NUM']
        mc = mz = None
        if names and rng.random() < 0.8:
            v = rng.choice(names)
            cv = v.get('CodeValue') or v.get('LongCodeValue') or v.get('URNCodeValue')
            mc = Code(str(cv), str(v.CodingSchemeDesignator), str(v.CodeMeaning), v.get('CodingSchemeVersion') or None)
            mz = ids.code(str(cv), str(v.CodingSchemeDesignator), v.get('CodingSchemeVersion'))
        filters = [{}]
    else:
        mem = _build_report(dict(c, io='mem'))
        root = render_item(ids, mem[0], 4)
        rep = mem if c['io'] == 'mem' else sr.MeasurementReport.from_sequence(mem)
        mz = c['mname']
        mc = None if mz is None else code_of(mz)
        filters = c['filters']
    out = _run_meas(rep, filters, mc, _TreeIds(ids).codeobj, ids, {'hd': False, 'srt': False, 'alt': False})
    fs = '; '.join(f'run_tree_meas root {_coq_filter(f)} {ocz(mz)}' for f in filters)
    return out, f'(let root := {root} in VL [{fs}])'


def _run_acc_tree(rep, mname_code, ename_code, ids):
    out = []
    for K, fn in (('P', rep.get_planar_roi_measurement_groups), ('V', rep.get_volumetric_roi_measurement_groups),
                  ('I', rep.get_image_measurement_groups)):
        out.append(catch(lambda: [_accessors_tree(g, K, mname_code, ename_code, ids) for g in fn()]))
    return out


def _run_fixture_acc(c):
    """shipped document: accessors of every group of the unfiltered queries + the rendered tree"""
    import random
    import synth
    from highdicom import sr
    from pydicom.sr.coding import Code
    common.import_highdicom()
    rng = random.Random(c['seed'])
    doc = sr.srread(os.path.join(synth.TEST_FILES, c['file']))
    rep = doc.content
    ids = _Ids()
    root = render_item(ids, rep[0], 4)
    # by-name arguments: a NUM / CODE name that occurs in some group, or an unused one
    names = {'NUM': [], 'CODE': []}
    for im in rep[0].ContentSequence:
        for grp in (im.get('ContentSequence', []) if im.ValueType == 'CONTAINER' else []):
            for it in grp.get('ContentSequence', []):
                if it.ValueType in names:
                    names[it.ValueType].append(it.ConceptNameCodeSequence[0])

    def pick(vt):
        if not names[vt] or rng.random() < 0.25:
            return (None, None) if rng.random() < 0.5 else (code_of(149), 149)
        v = rng.choice(names[vt])
        cv = v.get('CodeValue') or v.get('LongCodeValue') or v.get('URNCodeValue')
        return (Code(str(cv), str(v.CodingSchemeDesignator), str(v.CodeMeaning), v.get('CodingSchemeVersion') or None),
                ids.code(str(cv), str(v.CodingSchemeDesignator), v.get('CodingSchemeVersion')))
    (mc, mz), (ec, ez) = pick('NUM'), pick('CODE')
    out = _run_acc_tree(rep, mc, ec, _TreeIds(ids))
    return out, f'(run_tree_accessors {root} {oz(mz)} {oz(ez)})'


def run_impl(c):
    k = c['kind']
    if k == 'fixture':
        return _run_fixture(c)[0]
    if k == 'acc_fixture':
        return _run_fixture_acc(c)[0]
    if k == 'construct':
        return [_run_construct(it) for it in c['items']]
    if k == 'acc_meas_tree':
        return _run_meas_tree(c)[0]
    if k == 'acc_meas':
        rep = _build_report(c)
        fo = _fopts(c)
        return _run_meas(rep, c['filters'], None if c['mname'] is None else code_of(c['mname'], fo['hd'], fo['srt'], fo['alt']),
                         lambda x: code_id(x, fo['hd']), _Ids(), fo)
    if k in ('acc_tree', 'acc_opts', 'acc_num_tree'):
        rep = _build_report(c)
        return _run_acc_tree(rep, None if c['mname'] is None else code_of(c['mname']),
                             None if c['ename'] is None else code_of(c['ename']), _AlphaIds)
    rep = _build_report(c)
    fo = _fopts(c)
    if k in ('acc', 'acc_codes', 'acc_values'):
        out = []
        for K, fn in (('P', rep.get_planar_roi_measurement_groups), ('V', rep.get_volumetric_roi_measurement_groups),
                      ('I', rep.get_image_measurement_groups)):
            out.append(catch(lambda: [_accessors(g, K, c['mname'], c['ename'], fo['hd'], fo['srt'], fo['alt'])
                                      for g in fn()]))
        return out
    if k == 'acc_geom':
        out = []
        for K, fn in (('P', rep.get_planar_roi_measurement_groups), ('V', rep.get_volumetric_roi_measurement_groups),
                      ('I', rep.get_image_measurement_groups)):
            out.append(catch(lambda: [[_accessors(g, K, c['mname'], c['ename'], fo['hd'], fo['srt'], fo['alt']),
                                       _geom_obs(g, K)] for g in fn()]))
        return out
    return [[_query(rep, K, f, fo['hd'], fo['srt'], fo['alt']) for K in 'PVI'] for f in c['filters']]


# ---------------------------------------------------------------------------------------------
# rendering for the model
# ---------------------------------------------------------------------------------------------
def oz(x):
    return 'None' if x is None else f'(Some {zlit(x)})'


def cz(z):
    """a coded concept of the alphabet as model term: plain number, or the key of (value, scheme, version)"""
    if z is None or z < KEYMUL:
        return zlit(z)
    base, s, ver = ck_split(z)
    return f"(ck {base} {s} {'None' if ver is None else f'(Some {ver})'})"


def ocz(x):
    return 'None' if x is None else f'(Some {cz(x)})'


def _coq_sources(so):
    if so[0] == 'series':
        return f'(SrcSeries {so[1]})'
    return '(SrcImages [' + '; '.join(f'({c}, {i})' for c, i in so[1]) + '])'


def _coq_ref(r):
    t = r[0]
    if t == 'r2':
        return f'(Region2D {r[1]} {r[2]} {r[3]})'
    if t == 'r3':
        return f'(Region3D {r[1]})'
    if t == 'sf':
        return f'(SegFrame {r[1]} {r[2]} {r[3]} {r[4]})'
    if t == 'rs':
        return '(Regions [' + '; '.join(f'({g}, ({c}, {i}))' for g, c, i in r[1]) + '])'
    if t == 'seg':
        return f'(Segment {r[1]} {r[2]} {_coq_sources(r[3])})'
    if t == 'surf':
        return f'(Surface {r[1]} {r[2]}%nat {_coq_sources(r[3])})'
    if t == 'ris':
        return f'(RegionInSpace {r[1]} {r[2]})'
    return '(SourceImgs [' + '; '.join(f'({c}, {i})' for c, i in r[1]) + '])'


def _coq_group(g):
    kind = {'P': 'Planar', 'V': 'Volumetric', 'I': 'ImageK'}[g['k']]
    pm = lambda l: '[' + '; '.join(f'({cz(a)}, {zlit(_vk(b))})' for a, b in l) + ']'  # noqa: E731
    pe = lambda l: '[' + '; '.join(f'({cz(a)}, {cz(b)})' for a, b in l) + ']'  # noqa: E731
    sites = '[' + '; '.join(cz(x) for x in g['sites']) + ']'
    return (f"(Group {kind} {g['tuid']} {g['tid']} {ocz(g['cat'])} {ocz(g['finding'])} {ocz(g['method'])} "
            f"{sites} {_coq_ref(g['ref'])} {pm(g['meas'])} {pe(g['evals'])} "
            f"{ocz(g['geom'])} {ocz(g['tp'])} {oz(g['session'])} {'true' if g['has_tid'] else 'false'})")


def _coq_mrec(n, v, d):
    tr = 'None' if not d['track'] else f"(Some ({d['track'][0]}, {d['track'][1]}))"
    return (f"MRec {cz(n)} {zlit(_vk(v))} {cz(d['unit'])} {ocz(d['qual'])} {tr} {ocz(d['method'])} {ocz(d['deriv'])} "
            f"[{'; '.join(cz(x) for x in d['sites'])}] [{'; '.join(f'({a}, {b})' for a, b in d['imgs'])}]")


def _coq_filter(f):
    gt = 'GNone'
    if 'gt' in f:
        d, g = f['gt']
        gt = {'2': f'(G2 {g})', '3': f'(G3 {g})', 'bad': 'GBad'}[d]
    return (f"(Filt {oz(f.get('tuid'))} {ocz(f.get('finding'))} {ocz(f.get('site'))} {ocz(f.get('reftype'))} "
            f"{gt} {oz(f.get('inst'))} {oz(f.get('cls'))})")


PRE_ITEMS = ('[leaf 31 CODE HAS_CONCEPT_MOD 32 0; leaf 33 CODE HAS_OBS_CONTEXT 34 0; '
             'leaf 35 PNAME HAS_OBS_CONTEXT 0 0; leaf 36 CODE HAS_CONCEPT_MOD 37 0; '
             'Item 38 CONTAINER CONTAINS 0 0 None [Item 39 CONTAINER CONTAINS 0 0 None []]]')


class _Ids:
    """assigns model integers to texts / foreign codes met while rendering a tree"""

    def __init__(self):
        self.codes = {}
        self.uids = {}

    def code(self, value, scheme, version=None):
        if scheme == 'SRT':        # pydicom compares SRT codes through their SNOMED-CT equivalent
            from pydicom.sr._snomed_dict import mapping
            if value in mapping['SRT']:
                value, scheme = mapping['SRT'][value], 'SCT'
        version = None if version in (None, '') else str(version)
        z = code_key(value, scheme, version)
        if z is not None:
            return z
        # foreign code (or foreign scheme version): a number of its own per (value, scheme, version)
        return self.codes.setdefault((value, scheme, version), 5000 + len(self.codes))

    def uid(self, s):
        s = str(s)
        if s in CLASSES:
            return CLASSES.index(s)
        for pre in ('1.2.826.0.1.3680043.8.498.1.', '1.2.826.0.1.3680043.8.498.2.', '1.2.826.0.1.3680043.8.498.3.'):
            if s.startswith(pre):
                return int(s[len(pre):])
        return self.uids.setdefault(s, 7000 + len(self.uids))

    def text(self, s):
        s = str(s)
        if s[:1] == 't' and s[1:].isdigit():
            return int(s[1:])
        return self.uids.setdefault('text:' + s, 7000 + len(self.uids))


def _code_item_ids(ids, seq_item):
    v = seq_item.get('CodeValue') or seq_item.get('LongCodeValue') or seq_item.get('URNCodeValue')
    return ids.code(str(v), str(seq_item.CodingSchemeDesignator), seq_item.get('CodingSchemeVersion'))


def _item_fields(ids, ds):
    """raw pydicom view of one content item -> (concept name, value type, relationship type, v1, v2) as the item
    model carries them"""
    name = _code_item_ids(ids, ds.ConceptNameCodeSequence[0]) if 'ConceptNameCodeSequence' in ds else 0
    vt = str(ds.ValueType)
    rl = ds.get('RelationshipType', None)
    a = b = 0
    if vt == 'CODE':
        a = _code_item_ids(ids, ds.ConceptCodeSequence[0])
    elif vt == 'TEXT':
        a = ids.text(ds.TextValue)
    elif vt == 'UIDREF':
        a = ids.uid(ds.UID)
    elif vt == 'NUM':
        mv = ds.MeasuredValueSequence
        if len(mv):       # both sources of the value: Numeric Value (DS) and, if present, Floating Point Value (FD)
            a = vkey(float(mv[0].NumericValue))
            if 'FloatingPointValue' in mv[0]:
                b = fp_code(vkey(float(mv[0].FloatingPointValue)))
    elif vt in ('IMAGE', 'COMPOSITE'):
        a = ids.uid(ds.ReferencedSOPSequence[0].ReferencedSOPClassUID)
        b = ids.uid(ds.ReferencedSOPSequence[0].ReferencedSOPInstanceUID)
    elif vt == 'SCOORD':
        a = [k for k, v in G2.items() if v == ds.GraphicType][0]
    elif vt == 'SCOORD3D':
        a = [k for k, v in G3.items() if v == ds.GraphicType][0]
    return name, vt, rl, a, b


def _num_attr_ids(ids, ds):
    """(unit, qualifier) of a NUM item read from its raw attributes (None: absent): Measurement Units Code Sequence of
    the Measured Value Sequence item, Numeric Value Qualifier Code Sequence (PS3.3 C.18.1)"""
    mv = ds.get('MeasuredValueSequence') or []
    unit = qual = None
    if len(mv) and len(mv[0].get('MeasurementUnitsCodeSequence') or []):
        unit = _code_item_ids(ids, mv[0].MeasurementUnitsCodeSequence[0])
    if len(ds.get('NumericValueQualifierCodeSequence') or []):
        qual = _code_item_ids(ids, ds.NumericValueQualifierCodeSequence[0])
    return unit, qual


def render_item(ids, ds, depth):
    """raw pydicom view of one content item -> Coq term `Item ...` (children down to `depth`).  The unit and the
    qualifier of a NUM item (attributes, not content items) are rendered as two pseudo children named UNIT_ATTR /
    QUAL_ATTR in front of its child content (modelling device of C16_Model.v, `num_unit` / `num_qualifier`)"""
    name, vt, rl, a, b = _item_fields(ids, ds)
    tmpl = 'None'
    if 'ContentTemplateSequence' in ds and len(ds.ContentTemplateSequence):
        tmpl = f'(Some {int(ds.ContentTemplateSequence[0].TemplateIdentifier)})'
    kids = []
    if depth > 0 and vt == 'NUM':
        unit, qual = _num_attr_ids(ids, ds)
        if unit is not None:
            kids.append(f'leaf {UNIT_ATTR} CODE RNone {cz(unit)} 0')
        if qual is not None:
            kids.append(f'leaf {QUAL_ATTR} CODE RNone {cz(qual)} 0')
    if depth > 0 and 'ContentSequence' in ds:
        kids += [render_item(ids, k, depth - 1) for k in ds.ContentSequence]
    return f"(Item {zlit(name)} {VT.get(vt, 'PNAME')} {RT[rl]} {zlit(a)} {zlit(b)} {tmpl} [{'; '.join(kids)}])"


def _tree_term(rep, filters):
    ids = _Ids()
    root = render_item(ids, rep[0], 4)
    fs = '; '.join(f'run_tree_queries root {_coq_filter(f)}' for f in filters)
    return f'(let root := {root} in VL [{fs}])'


def coq_term(c):
    k = c['kind']
    if k == 'fixture':
        return _run_fixture(c)[1]
    if k == 'acc_fixture':
        return _run_fixture_acc(c)[1]
    if k == 'construct':
        return '(VL [' + '; '.join(_coq_construct(it) for it in c['items']) + '])'
    if k in ('tree', 'report_opts'):
        common.import_highdicom()
        c2 = dict(c, io='mem')
        return _tree_term(_build_report(c2), c['filters'])
    if k == 'acc_meas_tree':
        return _run_meas_tree(c)[1]
    if k == 'acc_meas':
        gms = '[' + '; '.join(f"({_coq_group(g)}, [{'; '.join(_coq_mrec(n, v, d) for (n, v), d in zip(g['meas'], g['md']))}])"
                              for g in c['groups']) + ']'
        pre = PRE_ITEMS if c.get('pre') == 'library' else '[]'
        fs = '; '.join(f"run_meas pre gms {_coq_filter(f)} {ocz(c['mname'])}" for f in c['filters'])
        return f'(let gms := {gms} in let pre := {pre} in VL [{fs}])'
    if k in ('acc_tree', 'acc_opts', 'acc_num_tree'):
        common.import_highdicom()
        root = render_item(_Ids(), _build_report(dict(c, io='mem'))[0], 4)
        return f"(run_tree_accessors {root} {ocz(c['mname'])} {ocz(c['ename'])})"
    gs = '[' + '; '.join(_coq_group(g) for g in c['groups']) + ']'
    pre = PRE_ITEMS if c.get('pre') == 'library' else '[]'
    if k in ('acc', 'acc_codes'):
        return f"(run_accessors {pre} {gs} {ocz(c['mname'])} {ocz(c['ename'])})"
    if k == 'acc_geom':
        enc = c['io'] in ENCODING_IO
        tbl = set()
        ggs = []
        for g in c['groups']:
            its = []
            for j, sp in enumerate(g.get('geo') or []):
                vals = _geo_vals(sp)
                if enc:
                    tbl |= {(vkey(x), vkey(_f32(x))) for row in vals for x in row if _f32(x) != x}
                rows = '; '.join('[' + '; '.join(zlit(vkey(x)) for x in row) + ']' for row in vals)
                its.append(f"GI {sp['d']}%nat {zlit(_geo_aux(g, j))} [{rows}]")
            ggs.append(f"({_coq_group(g)}, [{'; '.join(its)}])")
        return (f"(run_accessors_geom [{'; '.join(f'({zlit(a)}, {zlit(b)})' for a, b in sorted(tbl))}] {pre} "
                f"[{'; '.join(ggs)}] {ocz(c['mname'])} {ocz(c['ename'])})")
    if k == 'acc_values':
        vals = [v for g in c['groups'] for _, v in g['meas']]
        floats = sorted({_vk(v) for v in vals if _writes_fp(v)})     # values for which Floating Point Value is written
        # what DICOM encoding makes of Numeric Value: the number its DS string says (identity when not encoded)
        tbl = sorted({(_vk(v), vkey(float(_ds_str(v)))) for v in vals}) if c['io'] in ENCODING_IO else []
        return (f"(run_accessors_enc [{'; '.join(zlit(x) for x in floats)}] "
                f"[{'; '.join(f'({zlit(a)}, {zlit(b)})' for a, b in tbl)}] {pre} {gs} {ocz(c['mname'])} {ocz(c['ename'])})")
    fs = '; '.join(f'run_queries pre gs {_coq_filter(f)}' for f in c['filters'])
    return f'(let gs := {gs} in let pre := {pre} in VL [{fs}])'


# ---------------------------------------------------------------------------------------------
# fixtures: shipped third-party-like documents, rendered as trees
# ---------------------------------------------------------------------------------------------
def _fixture_filters(rep, seed, nf):
    """filters drawn from what the groups of the document contain (raw walk)"""
    import random
    rng = random.Random(seed)
    ids = _Ids()
    vals = {'tuid': [], 'finding': [], 'site': [], 'inst': [], 'cls': []}
    for im in rep[0].ContentSequence:
        if im.ValueType != 'CONTAINER' or 'ContentSequence' not in im:
            continue
        for grp in im.ContentSequence:
            if grp.ValueType != 'CONTAINER' or 'ContentSequence' not in grp:
                continue
            for it in grp.ContentSequence:
                n = _code_item_ids(ids, it.ConceptNameCodeSequence[0])
                if it.ValueType == 'UIDREF' and n == 4:
                    vals['tuid'].append(str(it.UID))
                if it.ValueType == 'CODE' and n == 5:
                    vals['finding'].append(it.ConceptCodeSequence[0])
                if it.ValueType == 'CODE' and n == 6:
                    vals['site'].append(it.ConceptCodeSequence[0])
                for sub in [it] + list(it.get('ContentSequence', [])):
                    if sub.ValueType in ('IMAGE', 'COMPOSITE'):
                        vals['inst'].append(str(sub.ReferencedSOPSequence[0].ReferencedSOPInstanceUID))
                        vals['cls'].append(str(sub.ReferencedSOPSequence[0].ReferencedSOPClassUID))
    out = [{}]
    for _ in range(nf):
        f = {}
        for key in rng.sample(FKEYS, rng.choice([1, 1, 2, 3])):
            if key in vals:
                if vals[key] and rng.random() < 0.8:
                    f[key] = ('raw', rng.choice(vals[key]))
                else:
                    f[key] = ('raw', {'tuid': '1.2.3.4.5', 'inst': '1.2.3.4.6', 'cls': CLASSES[5]}.get(key)) \
                        if key in ('tuid', 'inst', 'cls') else ('id', 199)
            elif key == 'reftype':
                f[key] = ('id', rng.choice(REFTYPES))
            else:
                f[key] = ('gt', rng.choice([['2', 1], ['2', 3], ['2', 4], ['2', 5], ['3', 1], ['3', 4], ['3', 5]]))
        out.append(f)
    return out


def _run_fixture(c):
    import synth
    from highdicom import sr
    from highdicom.sr import GraphicTypeValues, GraphicTypeValues3D
    from pydicom.sr.coding import Code
    common.import_highdicom()
    doc = sr.srread(os.path.join(synth.TEST_FILES, c['file']))
    rep = doc.content
    ids = _Ids()
    root = render_item(ids, rep[0], 4)
    fl = _fixture_filters(rep, c['seed'], c['nf'])
    outs, terms = [], []
    for f in fl:
        kw, mf = {}, {}
        for key, (tag, v) in f.items():
            pyk = {'tuid': 'tracking_uid', 'finding': 'finding_type', 'site': 'finding_site', 'inst':
                   'referenced_sop_instance_uid', 'cls': 'referenced_sop_class_uid', 'reftype': 'reference_type',
                   'gt': 'graphic_type'}[key]
            if tag == 'raw' and key in ('tuid', 'inst', 'cls'):
                kw[pyk] = v
                mf[key] = ids.uid(v)
            elif tag == 'raw':
                cv = v.get('CodeValue') or v.get('LongCodeValue') or v.get('URNCodeValue')
                kw[pyk] = Code(str(cv), str(v.CodingSchemeDesignator), str(v.CodeMeaning),
                               v.get('CodingSchemeVersion') or None)
                mf[key] = ids.code(str(cv), str(v.CodingSchemeDesignator), v.get('CodingSchemeVersion'))
            elif tag == 'id':
                kw[pyk] = code_of(v)
                mf[key] = v
            else:
                kw[pyk] = GraphicTypeValues(G2[v[1]]) if v[0] == '2' else GraphicTypeValues3D(G3[v[1]])
                mf[key] = v
        row = []
        for K, fn in (('P', rep.get_planar_roi_measurement_groups), ('V', rep.get_volumetric_roi_measurement_groups),
                      ('I', rep.get_image_measurement_groups)):
            kk = {a: b for a, b in kw.items() if K != 'I' or a not in ('reference_type', 'graphic_type')}

            def run():
                res = []
                for g in fn(**kk):
                    t = g.tracking_identifier
                    res.append(None if t is None else ids.text(t))
                return res
            row.append(catch(run))
        outs.append(row)
        terms.append(f'run_tree_queries root {_coq_filter(mf)}')
    return outs, f"(let root := {root} in VL [{'; '.join(terms)}])"


# ---------------------------------------------------------------------------------------------
# independent oracle: filter over the Python-side records
# ---------------------------------------------------------------------------------------------
def _refused(K, f):
    """filter combinations the query must refuse (written from the documentation of the queries)"""
    if K == 'I':
        return False
    gt, rt = f.get('gt'), f.get('reftype')
    uid = 'inst' in f or 'cls' in f
    if gt is not None:
        d, g = gt
        if d == 'bad':
            return True
        if G2.get(g) == 'MULTIPOINT' and d == '2':
            return True
        if d == '3' and G3[g] in (('MULTIPOINT', 'POLYLINE', 'ELLIPSOID') if K == 'P' else ('MULTIPOINT', 'POLYLINE')):
            return True
        if d == '3' and uid:
            return True
    if rt is not None:
        allowed = {'P': (9, 12, 13), 'V': (9, 11, 10, 13)}[K]
        if rt not in allowed:
            return True
        if gt is not None:
            if rt in (11, 12, 13):
                return True
            if K == 'V' and rt == 9 and gt[0] == '3':
                return True
            if K == 'V' and rt == 10 and gt[0] == '2':
                return True
        if K == 'V' and rt == 10 and uid:      # a volume surface (SCOORD3D) references no SOP instance
            return True
    return False


def _uid_ok(f, ci):
    return ('cls' not in f or f['cls'] == ci[0]) and ('inst' not in f or f['inst'] == ci[1])


def _sat(K, f, g):
    """does the group, as it was constructed, satisfy every filter"""
    if 'tuid' in f and g['tuid'] != f['tuid']:
        return False
    if 'finding' in f and g['finding'] != f['finding']:
        return False
    if 'site' in f and f['site'] not in g['sites']:
        return False
    r = g['ref']
    if K != 'I':
        if 'reftype' in f and _ref_code(g) != f['reftype']:
            return False
        if 'gt' in f and _ref_gt(g) != list(f['gt']):
            return False
    if 'inst' in f or 'cls' in f:
        if r[0] in ('r3', 'surf'):     # SCOORD3D references carry no SOP instance reference
            return False
        if not any(_uid_ok(f, ci) for ci in _ref_uids(g)):
            return False
    return True


def _ambiguous(g):
    return (not g['has_tid']) and (g['ref'][0] == 'ris' or (g['ref'][0] == 'rs' and len(g['ref'][1]) < 2))


def _check_queries(c, out):
    groups = c['groups']
    by_id = {g['tid']: g for g in groups}
    for f, row in zip(c['filters'], out):
        for K, res in zip('PVI', row):
            if _refused(K, f):
                if not isinstance(res, Err):
                    return f'filter {f} cannot apply to a {K} query but was accepted: {res}'
                continue
            if isinstance(res, Err):
                return f'{K} query with applicable filter {f} raised {res}'
            if any(t not in by_id for t in res):
                return f'{K} query returned an unknown group: {res}'
            want = [g['tid'] for g in groups if g['k'] == K and not _ambiguous(g) and _sat(K, f, g)]
            got = [t for t in res if not _ambiguous(by_id[t])]
            if got != want:
                return (f'{K} query, filter {f}: returned {res}, groups of that kind satisfying the filter '
                        f'(in document order): {want}')
            for t in res:
                g = by_id[t]
                if _ambiguous(g) and (K == 'I' or g['k'] == 'I' or not _sat(K, f, g)):
                    return f'{K} query, filter {f}: returned group {t} which fails the filter or is of another kind'
    return None


def _check_acc(c, out):
    groups = c['groups']
    by_id = {g['tid']: g for g in groups}
    seen = {}
    for K, res in zip('PVI', out):
        if isinstance(res, Err):
            return f'unfiltered {K} query raised {res}'
        for a in res:
            g = by_id.get(a[1])
            if g is None:
                return f'unknown group {a[1]}'
            if g['k'] != K and not _ambiguous(g):
                return f'group {a[1]} of kind {g["k"]} returned by {K} query'
            seen[a[1]] = True
            meas = [[n, _vk(v)] for n, v in g['meas']]     # exactly the numbers the group was constructed with
            want = [g['tuid'], g['tid'], g['finding'], g['cat'], g['method'], g['sites'], meas, g['evals'],
                    [m for m in meas if c['mname'] is None or m[0] == c['mname']],
                    [e for e in g['evals'] if c['ename'] is None or e[0] == c['ename']]]
            names = ['tracking_uid', 'tracking_identifier', 'finding_type', 'finding_category', 'method',
                     'finding_sites', 'get_measurements()', 'get_qualitative_evaluations()',
                     'get_measurements(name)', 'get_qualitative_evaluations(name)']
            for nme, x, w in zip(names, a[:10], want):
                if x != w:
                    if nme.startswith('get_measurements') and [m[0] for m in x] == [m[0] for m in w]:
                        vals = [v for n, v in g['meas'] if nme.endswith('()') or c['mname'] is None or n == c['mname']]
                        bad = [(repr(_pv(v)), repr(unkey(k))) for v, (_, k) in zip(vals, x) if k != _vk(v)]
                        return (f'group {a[1]} (history of the report: {c.get("io")}): {nme} reports other VALUES than '
                                f'the group was constructed with: (constructed, reported) = {bad}')
                    return f'group {a[1]}: {nme} = {x}, constructed with {w}'
            r = g['ref']
            if K == 'I':
                if a[10] != r[1]:
                    return f'group {a[1]}: source_images = {a[10]}, constructed with {r[1]}'
                continue
            if g['k'] != K:
                continue      # ambiguous untyped group seen through the other template class
            if a[10] != _ref_code(g):
                return f'group {a[1]}: reference_type = {a[10]}, constructed with {_ref_code(g)}'
            if K == 'P':
                w_roi = ['2D'] + r[1:] if r[0] == 'r2' else ['3D', r[1]] if r[0] == 'r3' else None
                w_sf = r[1:] if r[0] == 'sf' else None
                if a[11] != w_roi:
                    return f'group {a[1]}: roi = {a[11]}, constructed with {w_roi}'
                if a[12] != w_sf:
                    return f'group {a[1]}: referenced_segmentation_frame = {a[12]}, constructed with {w_sf}'
            else:
                w_roi = (['regions', r[1]] if r[0] == 'rs' else
                         ['surface', r[1], r[2], r[3]] if r[0] == 'surf' else None)
                w_seg = [r[1], r[2], r[3]] if r[0] == 'seg' else None
                if a[11] != w_roi:
                    return f'group {a[1]}: roi = {a[11]}, constructed with {w_roi}'
                if a[12] != w_seg:
                    return f'group {a[1]}: referenced_segment = {a[12]}, constructed with {w_seg}'
    missing = [g['tid'] for g in groups if g['tid'] not in seen]
    if missing:
        return f'groups {missing} returned by no query'
    return None


def _f32(x):
    """the binary32 number nearest to x (what VR FL keeps), as a Python float"""
    import struct
    return struct.unpack('<f', struct.pack('<f', x))[0]


def _geo_aux(g, j):
    """what is stored next to the coordinates of the j-th region: 2D the Pixel Origin Interpretation (as given, else
    VOLUME for a whole-slide image - the documented default - else absent), 3D the frame of reference"""
    sp = g['geo'][j]
    if sp['d'] == 3:
        return sp['for']
    r = g['ref']
    cls = r[2] if r[0] == 'r2' else r[1][j][1]
    return POI[sp.get('poi') or ('VOLUME' if cls == 2 else None)]


def _check_geom(c, out):
    """every returned group reports what it was constructed with (as `acc`) AND, region by region, the coordinates it
    was constructed with: GraphicData = the (column, row) pairs / (x, y, z) triplets one after the other, value = the
    n x d array, whatever the memory layout and dtype of the ndarray handed to the constructor; after DICOM
    encoding every coordinate is the nearest binary32 number (Graphic Data has VR FL in SCOORD and SCOORD3D), JSON is exact"""
    for K, rows in zip('PVI', out):
        if isinstance(rows, Err):
            return f'unfiltered {K} query (or an accessor of a returned group) raised {rows}'
    msg = _check_acc(c, [[a[0] for a in rows] for rows in out])
    if msg:
        return msg
    by_id = {g['tid']: g for g in c['groups']}
    enc = c['io'] in ENCODING_IO
    for K, rows in zip('PVI', out):
        for a, geo in rows:
            g = by_id[a[1]]
            want = []
            for j, sp in enumerate(g.get('geo') or []):
                vals = _geo_vals(sp)
                if enc:
                    vals = [[_f32(x) for x in row] for row in vals]
                want.append([sp['d'], _geo_aux(g, j), [vkey(x) for row in vals for x in row],
                             [[vkey(x) for x in row] for row in vals]])
            if geo == want:
                continue
            where = f'group {a[1]} (history of the report: {c["io"]})'
            if len(geo) != len(want) or any(not isinstance(x, list) or len(x) != 4 for x in geo):
                return f'{where}: roi reports {len(geo)} coordinate arrays {geo}, constructed with {len(want)}'
            for j, (x, w) in enumerate(zip(geo, want)):
                if x == w:
                    continue
                sp = g['geo'][j]
                how = (f"region {j} (ndarray layout '{sp['layout']}', dtype {sp['dtype']}"
                       f"{', surface given as ' + g['geo_pack'] if 'geo_pack' in g else ''})")
                un = lambda rows: [[unkey(v) for v in r] for r in rows] if all(isinstance(r, list) for r in rows) else rows  # noqa: E731
                if x[3] != w[3]:
                    return (f'{where}: {how} reports coordinates {un(x[3])} but was constructed with {un(w[3])}')
                if x[2] != w[2]:
                    return (f'{where}: {how} stores GraphicData {[unkey(v) for v in x[2]]}, the coordinates it was '
                            f'constructed with are {[unkey(v) for v in w[2]]}')
                return (f'{where}: {how} reports dimension / pixel origin interpretation or frame of reference '
                        f'{x[:2]}, constructed with {w[:2]}')
    return None


def _touched(c):
    """indices of the groups a mutation was applied to (the index is taken modulo the CURRENT number of items of
    the Imaging Measurements container, which add_empty_container increases)"""
    n = len(c['groups'])
    t = set()
    for name, gi, _ in c['muts']:
        t.add(gi % n)
        if name == 'add_empty_container':
            n += 1
    return t


def _check_acc_tree(c, out):
    """damaged trees: the unfiltered queries answer (C16_any_tree_unfiltered); a group no mutation touched still
    reports what it was constructed with; the by-name accessors return a sub-sequence of the unnamed ones"""
    touched = _touched(c)
    by_id = {g['tid']: (i, g) for i, g in enumerate(c['groups'])}
    for K, rows in zip('PVI', out):
        if isinstance(rows, Err):
            return f'unfiltered {K} query raised {rows} on a damaged tree'
        for a in rows:
            if not any(isinstance(x, Err) for x in a[6:10]):
                if a[8] != [m for m in a[6] if m in a[8]] or a[9] != [e for e in a[7] if e in a[9]]:
                    return f'by-name accessor is not a sub-sequence of the unnamed one: {a}'
            if isinstance(a[1], Err) or a[1] not in by_id:
                continue
            i, g = by_id[a[1]]
            if i in touched:
                continue
            if g['k'] != K and not _ambiguous(g):
                return f'untouched group {a[1]} of kind {g["k"]} returned by {K} query'
            want = [g['tuid'], g['tid'], g['finding'], g['cat'], g['method'], g['sites'], g['meas'], g['evals'],
                    [m for m in g['meas'] if c['mname'] is None or m[0] == c['mname']],
                    [e for e in g['evals'] if c['ename'] is None or e[0] == c['ename']]]
            if a[:10] != want:
                return f'untouched group {a[1]}: accessors {a[:10]}, constructed with {want}'
    return None


def _check_num_tree(c, out):
    """NUM items rewritten in memory: nothing but the measurement values may change, and a measurement reports its
    Floating Point Value when it has one (the exact representation), else the number its Numeric Value says"""
    sh = _num_shadow(c)
    by_id = {g['tid']: (i, g) for i, g in enumerate(c['groups'])}
    seen = []
    for K, rows in zip('PVI', out):
        if isinstance(rows, Err):
            return f'unfiltered {K} query raised {rows}'
        for a in rows:
            if any(isinstance(x, Err) for x in a):
                return f'an accessor raised on a group whose NUM items were rewritten: {a}'
            if a[1] not in by_id:
                return f'unknown group {a[1]}'
            i, g = by_id[a[1]]
            seen.append(a[1])
            if g['k'] != K:
                return f'group {a[1]} of kind {g["k"]} returned by {K} query'
            if a[:6] != [g['tuid'], g['tid'], g['finding'], g['cat'], g['method'], g['sites']] or a[7] != g['evals']:
                return f'group {a[1]}: accessors {a[:8]} differ from what it was constructed with'
            want = [[n, vkey(fd if fd is not None else nv)] for (n, _), (nv, fd, _) in zip(g['meas'], sh[i])]
            wantn = [m for m in want if c['mname'] is None or m[0] == c['mname']]
            if a[6] != want or a[8] != wantn:
                return (f'group {a[1]}: measurements {a[6]} / by name {a[8]}; (Numeric Value, Floating Point Value) '
                        f'of its NUM items are {[(repr(x[0]), repr(x[1])) for x in sh[i]]}: expected {want} / {wantn}')
    if sorted(seen) != sorted(by_id):
        return f'groups returned by the unfiltered queries: {seen}'
    return None


MEAS_FIELDS = ['name', 'value', 'unit', 'qualifier', 'derivation', 'method', 'finding_sites', 'referenced_images']


def _meas_expect(n, v, d):
    """what a measurement constructed as (n, v, d) must report: the eight accessor values + its child content as a
    multiset (TID 300: tracking identifier and uid HAS OBS CONTEXT, method / derivation / finding sites HAS CONCEPT
    MOD, referenced images INFERRED FROM)"""
    content = []
    if d['track']:
        content += [[3, VT_TAG['TEXT'], RT_TAG['HAS OBS CONTEXT'], d['track'][0], 0],
                    [4, VT_TAG['UIDREF'], RT_TAG['HAS OBS CONTEXT'], d['track'][1], 0]]
    if d['method'] is not None:
        content.append([8, VT_TAG['CODE'], RT_TAG['HAS CONCEPT MOD'], d['method'], 0])
    if d['deriv'] is not None:
        content.append([23, VT_TAG['CODE'], RT_TAG['HAS CONCEPT MOD'], d['deriv'], 0])
    content += [[6, VT_TAG['CODE'], RT_TAG['HAS CONCEPT MOD'], z, 0] for z in d['sites']]
    content += [[24, VT_TAG['IMAGE'], RT_TAG['INFERRED FROM'], a, b] for a, b in d['imgs']]
    return [n, _vk(v), d['unit'], d['qual'], d['deriv'], d['method'], d['sites'], d['imgs']], sorted(content)


def _meas_diff(got, want, where):
    """first difference between the measurements a group reports and the ones it was constructed with"""
    if isinstance(got, Err):
        return f'{where} raised {got}'
    if len(got) != len(want):
        return f'{where} returns {len(got)} measurements, the group was constructed with {len(want)}: {got}'
    for j, (x, (w, wc)) in enumerate(zip(got, want)):
        for nme, a, b in zip(MEAS_FIELDS, x[:8], w):
            if a != b:
                return (f'{where}[{j}].{nme} = {a}, but the measurement was constructed with {nme} = {b} '
                        f'(reported {dict(zip(MEAS_FIELDS, x[:8]))})')
        if sorted(x[8]) != wc:
            return f'{where}[{j}]: child content {x[8]}, constructed with {wc}'
    return None


def _check_meas(c, out):
    """acc_meas: every query returns exactly the groups of its kind that satisfy the filters (document order), and each
    returned group reports, through get_measurements() and get_measurements(name), every measurement it was constructed
    with: name, value, unit, QUALIFIER, derivation, method, finding sites, referenced images, child content"""
    groups = c['groups']
    by_id = {g['tid']: g for g in groups}
    for f, row in zip(c['filters'], out):
        for K, res in zip('PVI', row):
            if _refused(K, f):
                if not isinstance(res, Err):
                    return f'filter {f} cannot apply to a {K} query but was accepted: {res}'
                continue
            if isinstance(res, Err):
                return f'{K} query with applicable filter {f} raised {res}'
            got = [a[0] for a in res]
            want = [g['tid'] for g in groups if g['k'] == K and _sat(K, f, g)]
            if got != want:
                return (f'{K} query, filter {f}: returned {got}, groups of that kind satisfying the filter '
                        f'(in document order): {want}')
            for a in res:
                g = by_id[a[0]]
                exp = [_meas_expect(n, v, d) for (n, v), d in zip(g['meas'], g['md'])]
                where = f"group {a[0]} from the {K} query with filter {f} (history of the report: {c['io']})"
                msg = _meas_diff(a[1], exp, where + ': get_measurements()')
                if msg is None:
                    msg = _meas_diff(a[2], [e for e in exp if c['mname'] is None or e[0][0] == c['mname']],
                                     where + f": get_measurements(name={c['mname']})")
                if msg:
                    return msg
    return None


def _raw_measurements(root, ids):
    """independent walk over the raw data sets (pydicom only): tracking identifier -> per NUM item of that group
    [name, unit, qualifier, number of child items, first derivation child, first method child, finding site children],
    read from the attributes named in PS3.3 C.18.1 / C.17.3"""
    table = {}
    ims = [it for it in root.get('ContentSequence', []) if it.ValueType == 'CONTAINER' and
           _code_item_ids(ids, it.ConceptNameCodeSequence[0]) == 2]
    for grp in (ims[0].get('ContentSequence', []) if ims else []):
        if grp.ValueType != 'CONTAINER' or _code_item_ids(ids, grp.ConceptNameCodeSequence[0]) != 1:
            continue
        t, rows = None, []
        for it in grp.get('ContentSequence', []):
            n = _code_item_ids(ids, it.ConceptNameCodeSequence[0])
            if it.ValueType == 'TEXT' and n == 3 and t is None:
                t = ids.text(it.TextValue)
            if it.ValueType == 'NUM':
                unit, qual = _num_attr_ids(ids, it)
                kids = [(_code_item_ids(ids, k.ConceptNameCodeSequence[0]), k) for k in it.get('ContentSequence', [])]
                codes_of = lambda z: [_code_item_ids(ids, k.ConceptCodeSequence[0]) for m, k in kids  # noqa: E731
                                      if m == z and k.ValueType == 'CODE']
                # derivation / method: the FIRST child of that name; finding sites: all of them, in order
                rows.append([n, unit, qual, len(kids), (codes_of(23) + [None])[0], (codes_of(8) + [None])[0], codes_of(6)])
        table.setdefault(t, []).append(rows)
    return table


def _check_meas_tree(c, out):
    """acc_meas_tree (NUM items rewritten in memory, shipped documents): whatever a query returns, each returned group
    reports one measurement per NUM item of the group, in document order, with the name, the unit and the qualifier its
    raw attributes say and with all its child items (raw walk, independent of the accessors and of the model)"""
    import synth
    from highdicom import sr
    common.import_highdicom()
    ids = _Ids()
    if 'file' in c:
        root = sr.srread(os.path.join(synth.TEST_FILES, c['file'])).content[0]
        filters, mz = [{}], None        # (the by-name list is checked as a sub-list only)
    else:
        root = _build_report(dict(c, io='mem'))[0]
        filters, mz = c['filters'], c['mname']
    render_item(ids, root, 4)           # same numbering as the observation
    table = _raw_measurements(root, ids)
    for f, row in zip(filters, out):
        for K, res in zip('PVI', row):
            if isinstance(res, Err):
                if not f:
                    return f'unfiltered {K} query raised {res}'
                continue
            for a in res:
                cands = table.get(a[0])
                if not cands:
                    return f'{K} query returned a group with tracking identifier {a[0]} that the document does not contain'
                if isinstance(a[1], Err) or isinstance(a[2], Err):
                    return f'group {a[0]}: get_measurements raised: {a[1:]}'
                got = [[x[0], x[2], x[3], len(x[8]), x[4], x[5], x[6]] for x in a[1]]
                if got not in cands:
                    return (f'group {a[0]} ({K} query, filter {f}): get_measurements() reports [name, unit, qualifier, '
                            f'number of child items, derivation, method, finding sites] = {got}; the NUM items of the '
                            f'group carry {cands}')
                sub = [x for x in a[1] if 'file' in c or mz is None or x[0] == mz]
                if ('file' in c and [x for x in a[1] if x in a[2]] != a[2]) or ('file' not in c and a[2] != sub):
                    return f'group {a[0]}: get_measurements(name) = {a[2]}, expected the measurements of that name among {a[1]}'
    return None


def oracle(c, out):
    k = c['kind']
    if k == 'acc_meas':
        return _check_meas(c, out)
    if k == 'acc_meas_tree':
        return _check_meas_tree(c, out)
    if k in ('report_mem', 'report_doc', 'report_file', 'report_notid', 'refuse', 'report_codes', 'report_opts'):
        return _check_queries(c, out)
    if k in ('acc', 'acc_codes', 'acc_values'):
        return _check_acc(c, out)
    if k == 'acc_num_tree':
        return _check_num_tree(c, out)
    if k == 'acc_geom':
        return _check_geom(c, out)
    if k == 'fixture':
        # unfiltered queries partition the measurement groups of the shipped documents
        row = out[0]
        if any(isinstance(r, Err) for r in row):
            return f'unfiltered query on shipped document raised: {row}'
        allg = [t for r in row for t in r]
        if len(set(allg)) != len(allg):
            return f'a group of the shipped document is returned by two queries: {row}'
        for frow in out[1:]:
            for r0, r in zip(row, frow):
                if not isinstance(r, Err) and [t for t in r0 if t in r] != r:
                    return f'filtered answer {r} is not a sub-sequence of the unfiltered answer {r0}'
        return None
    if k == 'acc_fixture':
        if any(isinstance(r, Err) for r in out):
            return f'unfiltered query on shipped document raised: {out}'
        for K, rows in zip('PVI', out):
            for a in rows:
                bad = [x for x in a if isinstance(x, Err)]
                if bad:
                    return f'accessor of a {K} group of the shipped document raised {bad[0]}: {a}'
                if a[8] != [m for m in a[6] if m in a[8]] or a[9] != [e for e in a[7] if e in a[9]]:
                    return f'by-name accessor is not a sub-sequence of the unnamed one: {a}'
        return None
    if k == 'construct':
        return _check_construct(c, out)
    if k in ('acc_tree', 'acc_opts'):
        msg = _check_acc_tree(c, out)
        if msg is None and k == 'acc_opts':       # nothing is damaged: no accessor may raise, every group is seen
            rows = [a for r in out for a in r]
            if any(isinstance(x, Err) for a in rows for x in a):
                return f'an accessor raised on a group built by the template classes: {rows}'
            if sorted(a[1] for a in rows if not _ambiguous(c['groups'][a[1] - 1000])) != \
                    [g['tid'] for g in c['groups'] if not _ambiguous(g)]:
                return f'groups returned by the unfiltered queries: {[a[1] for a in rows]}'
        return msg
    if k == 'tree':
        # damaged trees: only structural sanity (the model comparison carries the case)
        for row in out:
            for r in row:
                if not isinstance(r, Err) and len(set(map(str, r))) != len(r) and 'second_im_container' not in str(c['muts']):
                    return f'duplicate group in answer {r}'
        return None
    return f'unknown kind {k}'


def nontrivial(c, out):
    k = c['kind']
    if k == 'acc_meas':       # some returned measurement carries a qualifier, and some filter removes a group
        rows = [a for row in out for r in row if not isinstance(r, Err) for a in r]
        return (any(x[3] is not None for a in rows if not isinstance(a[1], Err) for x in a[1]) and
                any(not isinstance(r, Err) and len(r) < sum(g['k'] == K for g in c['groups'])
                    for row in out for K, r in zip('PVI', row)))
    if k == 'acc_meas_tree':
        rows = [a for row in out for r in row if not isinstance(r, Err) for a in r]
        return 'file' in c or any(x[3] is not None for a in rows if not isinstance(a[1], Err) for x in a[1])
    if k in ('acc', 'acc_codes'):
        return len(c['groups']) >= 2
    if k == 'acc_values':     # some value does not survive as a DS string and the report was encoded
        return c['io'] in ENCODING_IO and any(float(_ds_str(v)) != float(_pv(v)) for g in c['groups'] for _, v in g['meas'])
    if k == 'acc_geom':       # some region of two or more points came in an array that is not C-ordered
        return any(len(sp['pts']) >= 2 and sp['layout'] != 'c' for g in c['groups'] for sp in g.get('geo') or [])
    if k == 'acc_num_tree':   # some measurement has two different sources
        return any(fd is not None and fd != nv for grp in _num_shadow(c) for nv, fd, _ in grp)
    if k == 'acc_tree':        # some group is returned and some accessor raises or some group is seen by no query
        rows = [a for r in out if not isinstance(r, Err) for a in r]
        return bool(rows) and (any(isinstance(x, Err) for a in rows for x in a) or len(rows) != len(c['groups']))
    if k in ('fixture', 'acc_fixture'):
        return True
    if k == 'acc_opts':
        return len(c['groups']) >= 2
    if k == 'construct':
        return len({o[0] for o in out}) >= 2
    n = len(c['groups'])
    for row in out:
        for r in row:
            if isinstance(r, Err) or (0 < len(r) < n):
                return n >= 2
    return False


def shrink(c):
    if c.get('kind') == 'construct':
        if len(c['items']) > 1:
            for it in c['items']:
                yield dict(c, items=[it])
        return
    if 'groups' not in c:
        return
    if 'mmuts' in c:          # the mutations address groups / measurements by position: only they and the filters shrink
        for i in range(len(c['mmuts'])):
            yield dict(c, mmuts=c['mmuts'][:i] + c['mmuts'][i + 1:])
        if len(c['filters']) > 1:
            for f in c['filters']:
                yield dict(c, filters=[f])
        if c.get('io') != 'mem':
            yield dict(c, io='mem')
        return
    if c.get('kind') == 'acc_meas':     # measurements and their details first (md runs parallel to meas)
        for i, g in enumerate(c['groups']):
            for j in range(len(g['meas'])):
                if len(g['meas']) > 1:
                    g2 = dict(g, meas=g['meas'][:j] + g['meas'][j + 1:], md=g['md'][:j] + g['md'][j + 1:])
                    yield dict(c, groups=c['groups'][:i] + [g2] + c['groups'][i + 1:])
                d = g['md'][j]
                for key, empty in (('track', None), ('method', None), ('deriv', None), ('sites', []), ('imgs', [])):
                    if d[key] != empty:
                        g2 = dict(g, md=g['md'][:j] + [dict(d, **{key: empty})] + g['md'][j + 1:])
                        yield dict(c, groups=c['groups'][:i] + [g2] + c['groups'][i + 1:])
        if c.get('mname') is not None:
            yield dict(c, mname=None)
    if 'nmuts' in c:          # the mutations address groups / measurements by position: only they are shrunk
        for i in range(len(c['nmuts'])):
            if len(c['nmuts']) > 1:
                yield dict(c, nmuts=c['nmuts'][:i] + c['nmuts'][i + 1:])
        if c.get('io') != 'mem':
            yield dict(c, io='mem')
        return
    if c.get('kind') == 'acc_geom':     # plainer arrays first (a failure that needs the layout keeps it)
        for i, g in enumerate(c['groups']):
            for j, sp in enumerate(g.get('geo') or []):
                for key, plain in (('layout', 'c'), ('dtype', 'f8'), ('poi', None)):
                    if key in sp and sp[key] != plain and not (key == 'dtype' and sp['dtype'][-2] in 'iu'):
                        geo2 = g['geo'][:j] + [dict(sp, **{key: plain})] + g['geo'][j + 1:]
                        yield dict(c, groups=c['groups'][:i] + [dict(g, geo=geo2)] + c['groups'][i + 1:])
            if g.get('geo_pack', 'list') != 'list':
                yield dict(c, groups=c['groups'][:i] + [dict(g, geo_pack='list')] + c['groups'][i + 1:])
    if c.get('kind') == 'acc_values':
        for i, g in enumerate(c['groups']):
            if len(g['meas']) > 1:
                for m in g['meas']:
                    yield dict(c, groups=c['groups'][:i] + [dict(g, meas=[m])] + c['groups'][i + 1:])
    if 'filters' in c and len(c['filters']) > 1:
        for i in range(len(c['filters'])):
            yield dict(c, filters=[c['filters'][i]])
    if 'muts' in c and len(c['muts']) > 1:
        for i in range(len(c['muts'])):
            yield dict(c, muts=c['muts'][:i] + c['muts'][i + 1:])
    if 'muts' not in c:
        for i in range(len(c['groups'])):
            if len(c['groups']) > 1:
                yield dict(c, groups=c['groups'][:i] + c['groups'][i + 1:])
    for i, g in enumerate(c['groups']):
        for key, empty in (('sites', []), ('meas', []), ('evals', []), ('cat', None), ('method', None),
                           ('geom', None), ('tp', None), ('session', None), ('finding', None)):
            if g[key] != empty and not (key == 'meas' and g.get('md')):
                g2 = dict(g, **{key: empty})
                yield dict(c, groups=c['groups'][:i] + [g2] + c['groups'][i + 1:])
    if 'filters' in c and len(c['filters']) == 1:
        f = c['filters'][0]
        for key in list(f):
            f2 = {a: b for a, b in f.items() if a != key}
            yield dict(c, filters=[f2])
    if c.get('io') != 'mem':
        yield dict(c, io='mem')


if __name__ == '__main__':
    sys.exit(common.main(sys.modules[__name__]))
