"""C13 - SR content items keep their values and parse back to the same type.

Real code driven (from /repo/src): every constructor of highdicom.sr.value_types
(15 value types), the value accessors, X.from_dataset on a plain Dataset copy,
ContentSequence.from_sequence (class dispatch), both also after dcmwrite +
dcmread of the bare dataset; sr.coding.CodedConcept (constructor, accessors,
from_dataset); the SCOORD / SCOORD3D graphic-data validation incl. degenerate
contours; spatial.are_points_coplanar directly; histories of value reads /
in-place changes by the caller / GraphicData edits on one SCOORD(3D) item;
3D POLYGON contours whose end points almost meet (gap of k ulp / a fraction of the
coordinate / an absolute size, at 0 .. 1e6 mm from the origin) through
Scoord3DContentItem, ImageRegion3D, CoordinatesForMeasurement3D and VolumeSurface;
datasets whose value sequences lack an inner attribute / are empty / have a second item.
Model: coq/theories/C13_Model.v; theorems: C13_Props.v.
"""
import copy
import datetime as dtm
import io
import os
import sys
import warnings
from fractions import Fraction as F

sys.path.insert(0, os.path.dirname(os.path.abspath(__file__)))
import common
from common import Err, catch, zlit, qlit, zl

PROPERTY = 'C13'
PROPS_FILE = 'C13_Props.v'
COQ_IMPORTS = ['C13_Model']
TOL = None
ORACLE_PREMISES = [
    'W1: pydicom dcmwrite/dcmread preserve each attribute value that is representable in its VR '
    '(DS <= 16 chars, FL float32, FD float64, IS/UL/US ranges, text without trailing blanks); '
    'string/byte encoding of single values is not modelled',
    'are_points_coplanar (SVD, tolerance 1e-5) agrees with the exact rank condition on the generated '
    'point sets (exactly coplanar dyadic points, or largest distance from the least-squares plane >= 1e-3; '
    'the oracle does not judge inputs in between)',
    'aliasing is outside the model: that arrays handed out by .value / handed to the constructors are not shared '
    'with the item is tied to the real objects by the history stratum only (model: HScribble is a no-op)',
    'pydicom DA/TM/DT objects carry the datetime fields they were built from',
]
MODELLED = ('sr/value_types.py: the 15 constructors (attribute writing + validation), value accessors, '
            '_assert_value_type, _get_content_item_class, ContentItem._from_dataset_derived/_from_dataset_base, '
            'X.from_dataset, ContentSequence.from_sequence/_check_dataset/__init__ relationship rule; '
            'sr/coding.py CodedConcept.__init__/from_dataset (code_accept: the checks alone; code_from: checks + accessors)'
            '/accessors; coplanarity as the exact rank test. '
            'accept = parse-time checks alone; parse = the same followed by reading every accessor; '
            'parse2 = accept over the whole tree, then the accessors (faithful error precedence, multi-fault '
            'malformed stream); ContentSequence(items, is_root, is_sr) / from_sequence(..., is_root, is_sr) in the '
            'three kinds of sequence; ContentSequence.append/insert/extend/+=/__setitem__/__delitem__ (int and '
            'slice)/find/get_nodes/index/__contains__ with the name look-up table; from_dataset of the 12 template '
            'content items of sr/content.py (whether each asserts the value type is read off the source); the '
            'len(str(value)) <= 16 rule of NumContentItem for ints and exact representability as a double; '
            'histories of reads of ScoordContentItem.value / Scoord3DContentItem.value (a fresh array per access, a copy '
            'stored by the constructor: in-place changes of arrays handed out or handed in do not reach the item, edits '
            'and re-assignment of GraphicData do); spatial.are_points_coplanar driven directly; the closedness test of '
            'Scoord3DContentItem.__init__ as EXACT equality of the first and the last row (run_scoord3d), also behind the '
            'constructors of ImageRegion3D / CoordinatesForMeasurement3D / VolumeSurface, which hand the rows on unchanged; '
            'NumContentItem.from_dataset reading MeasuredValueSequence[0].MeasurementUnitsCodeSequence[0] unconditionally '
            '(value_codes / accept), the accessors reading the inner attributes of the value sequences (read_value).')
STRATA = ['tree', 'code', 'code_from', 'scoord', 'scoord3d', 'malformed', 'seqmode', 'seqops', 'subclass', 'num_int',
          'falsy', 'history', 'coplanar', 'concept', 'nearclosed', 'nested']
NOT_EXECUTED = ['near-tolerance coplanarity (deviation from the least-squares plane between 1e-7 and 1e-3: not judged)',
                'non-ASCII text (model strings are ASCII)',
                'sr/content.py: constructors and accessors of the template content items, VolumeSurface / '
                'ReferencedSegment / ReferencedSegmentationFrame (only the from_dataset of the 12 item classes is driven, and '
                'the constructors of ImageRegion3D / CoordinatesForMeasurement3D / VolumeSurface for the verdict on POLYGON '
                'graphic data)',
                'coded concepts with scheme SRT (pydicom maps SRT to SCT in Code.__eq__; not modelled)']
RULE = ('tree: random content trees of depth <= 4 over all 15 value types (codes <=16/>16/URN/URL, ints, '
        'dyadic and extreme floats, dates/times with fractions and offsets, every graphic type with valid '
        'counts, frame/segment/channel lists, all 7 relationship types) observed after construction, '
        'from_dataset on a plain copy, from_sequence dispatch, and both again after dcmwrite+dcmread; '
        'code: CodedConcept value-length / URN boundaries and meaning length 63..66; code_from: coded-concept '
        'datasets with EVERY subset of the three code value attributes x meaning present/absent x designator '
        'present/absent x value shapes (short, 16, > 16, URN, URL), and each single carrier x shape complete / lacking '
        'exactly one required attribute - observed: CodedConcept.from_dataset ALONE (accept / exception class), then the '
        'four accessors, ==, !=, hash, comparison with a pydicom Code, argument left unchanged; concept: a content item '
        '(every value type for the NAME, CODE for the value, NUM for unit and qualifier; flat or 1-2 containers deep; '
        'plain or byte round-tripped dataset) whose coded concept carries its code in CodeValue / LongCodeValue / '
        'URNCodeValue x {CodingSchemeDesignator | CodeMeaning | the code value attribute deleted, a second code value '
        'attribute added (must be refused with AttributeError by X.from_dataset alone and by from_sequence alone), '
        'CodingSchemeVersion deleted, the value moved to another code value attribute, nothing (must parse to the same '
        'item, every concept usable in == / hash)}; the same faults in the name of the datasets given to the 12 '
        'template classes (subclass); scoord / scoord3d: every '
        'graphic type x point count 0..8 x wrong dimension x open/closed x coplanar/non-coplanar; '
        'malformed: one guard violated per dataset (attribute deleted at any depth, value type swapped or '
        'unknown, wrong class, relationship deleted/invalid, emptied sequences, odd graphic data; ALL 15 x 14 pairs '
        '(class, other value type) both as a foreign dataset and as a relabelled own dataset), and datasets '
        'with 2-3 such faults in different nodes (error precedence); seqmode: 0-3 items x {root, SR, context, '
        'invalid flag pair} through ContentSequence(...) and from_sequence(...); seqops: a content sequence '
        'mutated by 1-8 random append/insert/extend/+=/set/del (int + slice, indices around both ends) calls, '
        'then find per name, get_nodes, index, in; subclass: the 12 template content items of sr/content.py x datasets '
        'of the parent / another value type x one required attribute, Value Type or name deleted; num_int: ints '
        'around 10^15, 10^16, 2^53 and random 14-20 digit ints (exact decimal string stored? FloatingPointValue '
        'written? value == the int, constructed and after bytes?), ints of 17-20 characters also inside trees; '
        'falsy: every value type at the values Python / pydicom treat as "nothing" (a single time offset / sample '
        'position of 0, 0.0, -0.0, zeros at each position of longer lists, NUM 0 / 0.0 / -0.0, empty text, midnight, '
        'bare-int frame numbers, absent optional parts) through the full tree path; history: one SCOORD / SCOORD3D item '
        '(constructed / from_dataset of a plain or byte round-tripped copy / from_sequence) x 3-8 calls out of {read '
        'value, change in place an array returned earlier | the constructor argument | the source dataset (+=, *=, '
        '[:]=0, round(out=), reverse, fill), GraphicData[i] = x with i around both ends, GraphicData = list, value of '
        'the serialised-and-parsed copy read / scribbled on / read again}; every read must show the GraphicData of '
        'that moment; scoord3d also: closed contours of 6-9 points that START (or end, or - rotated - continue) with '
        'three collinear or repeated vertices with and without a later vertex lifted out of the plane, the lifted vertex '
        'at every position, all points on a line / identical; coplanar: are_points_coplanar itself on 0-9 points of '
        'the same families, unclosed, permuted, and on n x 2 input; nearclosed: exactly coplanar 3D POLYGON contours of '
        '4-8 rows (plane normal to an axis with arbitrary doubles, or an oblique rational plane with dyadic coordinates) '
        'lying 0 / 1 / 41 / 210 / 1532 / 123456 / 2^20 / 1e6 mm from the origin, whose last row misses the first by 1-1000 ulp | '
        'a fraction 2^-6 .. 2^-44 of the coordinate | 2^-1 .. 2^-40 mm in one, two or three components | nothing but the '
        'sign of a zero | nothing (must be accepted, report the rows, and parse back to their single-precision images), '
        'through Scoord3DContentItem, ImageRegion3D, CoordinatesForMeasurement3D and the second contour of a VolumeSurface: '
        'open = ValueError, however small the gap; nested: every value type with a sequence in its value x every attribute '
        'of the first item deleted (NUM: NumericValue / FloatingPointValue / MeasurementUnitsCodeSequence x int / float / '
        '> 16 character int x with / without qualifier; SOP class / instance UID, frame / segment numbers, channels; '
        'template identification) | the sequence emptied (also the unit, qualifier, CODE value and - for all 15 value types - '
        'the NAME sequence) | a second item (empty or lacking an attribute) behind the complete first one; flat or 1-2 '
        'containers deep, plain or byte round-tripped; observed like concept (from_dataset alone, from_sequence alone, both '
        '+ accessors). '
        'non-trivial = tree with >= 2 nodes or a rejected input; distinct by case hash')

VTS = ['CODE', 'COMPOSITE', 'CONTAINER', 'DATE', 'DATETIME', 'IMAGE', 'NUM', 'PNAME', 'SCOORD',
       'SCOORD3D', 'TCOORD', 'TIME', 'TEXT', 'UIDREF', 'WAVEFORM']
CLASS = {'CODE': 'CodeContentItem', 'COMPOSITE': 'CompositeContentItem', 'CONTAINER': 'ContainerContentItem',
         'DATE': 'DateContentItem', 'DATETIME': 'DateTimeContentItem', 'IMAGE': 'ImageContentItem',
         'NUM': 'NumContentItem', 'PNAME': 'PnameContentItem', 'SCOORD': 'ScoordContentItem',
         'SCOORD3D': 'Scoord3DContentItem', 'TCOORD': 'TcoordContentItem', 'TIME': 'TimeContentItem',
         'TEXT': 'TextContentItem', 'UIDREF': 'UIDRefContentItem', 'WAVEFORM': 'WaveformContentItem'}
RELS = ['CONTAINS', 'HAS ACQ CONTEXT', 'HAS CONCEPT MOD', 'HAS OBS CONTEXT', 'HAS PROPERTIES',
        'INFERRED FROM', 'SELECTED FROM']
REL_CTOR = {r: r.replace(' ', '_') for r in RELS}
G2 = {'CIRCLE': 'G2Circle', 'ELLIPSE': 'G2Ellipse', 'MULTIPOINT': 'G2Multipoint', 'POINT': 'G2Point',
      'POLYLINE': 'G2Polyline'}
G3 = {'ELLIPSE': 'G3Ellipse', 'ELLIPSOID': 'G3Ellipsoid', 'MULTIPOINT': 'G3Multipoint', 'POINT': 'G3Point',
      'POLYLINE': 'G3Polyline', 'POLYGON': 'G3Polygon'}
TRT = {'BEGIN': 'TBegin', 'END': 'TEnd', 'MULTIPOINT': 'TMultipoint', 'MULTISEGMENT': 'TMultisegment',
       'POINT': 'TPoint', 'SEGMENT': 'TSegment'}
REQUIRED = {'CODE': ['ConceptCodeSequence'], 'COMPOSITE': ['ReferencedSOPSequence'],
            'CONTAINER': ['ContinuityOfContent'], 'DATE': ['Date'], 'DATETIME': ['DateTime'],
            'IMAGE': ['ReferencedSOPSequence'], 'NUM': ['MeasuredValueSequence'], 'PNAME': ['PersonName'],
            'SCOORD': ['GraphicType', 'GraphicData'], 'SCOORD3D': ['GraphicType', 'GraphicData'],
            'TCOORD': ['TemporalRangeType'], 'TIME': ['Time'], 'TEXT': ['TextValue'], 'UIDREF': ['UID'],
            'WAVEFORM': ['ReferencedSOPSequence']}
ALNUM = 'ABCDEFGHIJKLMNOPQRSTUVWXYZabcdefghijklmnopqrstuvwxyz0123456789'


# --------------------------------------------------------------------------
# generators
# --------------------------------------------------------------------------

def _lay(a):
    """the same coordinate VALUES in another memory layout (chosen from the data, so it replays):
    C-ordered, Fortran-ordered, a strided view, or a reversed-stride view"""
    import numpy as np
    if a.ndim != 2 or a.size == 0:
        return a
    k = (a.shape[0] * 7 + int(abs(float(a.sum()))) ) % 4
    if k == 1:
        return np.asfortranarray(a)
    if k == 2:
        big = np.zeros((2 * a.shape[0], 2 * a.shape[1]), dtype=a.dtype)
        big[::2, ::2] = a
        return big[::2, ::2]
    if k == 3:
        return np.ascontiguousarray(a[::-1, ::-1])[::-1, ::-1]
    return a


def _word(rng, n, alphabet=ALNUM):
    return ''.join(rng.choice(alphabet) for _ in range(n))


def g_code_value(rng):
    m = rng.randrange(10)
    if m < 4:
        return _word(rng, rng.choice([1, 2, 5, 8, 15, 16]))
    if m < 6:
        return _word(rng, rng.choice([17, 18, 24, 40]))
    if m == 6:
        return 'urn:oid:1.2.' + str(rng.randint(1, 999))
    if m == 7:
        return rng.choice(['http://x.y/' + _word(rng, 3), 'a://b', 'urn', 'urnX', '://'])
    if m == 8:
        return rng.choice(['Xurn:' + _word(rng, 4), 'ur:n', 'a:/b', 'x' * 16 + '://' [:0]])
    return _word(rng, rng.randint(1, 20))


def g_code(rng):
    ml = rng.choice([1, 3, 7, 20, 63, 64])
    m = _word(rng, ml, ALNUM + '  -').strip(' ')
    m = m + 'x' * (ml - len(m))
    return [g_code_value(rng), rng.choice(['DCM', 'SCT', '99X', 'UCUM']), m,
            rng.choice([None, None, '2020', '1.0', '20240101']), rng.choice(['code', 'cc'])]


def g_uid(rng):
    return rng.choice(['1.2.840.10008.5.1.4.1.1.2', '1.2.840.10008.5.1.4.1.1.88.11',
                       '1.2.3.' + str(rng.randint(0, 10**9)), '1.2.826.0.1.3680043.10.511.3.' + '9' * 35])


def g_text(rng):
    n = rng.choice([0, 1, 2, 10, 80])
    s = _word(rng, n, ALNUM + ' .,;:"()')
    return s.rstrip(' ')


def g_float(rng):
    m = rng.randrange(8)
    if m < 3:
        return rng.randint(-2**20, 2**20) / rng.choice([1, 2, 4, 8, 1024])
    if m == 3:
        return rng.choice([0.1, 1e-300, 1.7976931348623157e308, -1.7976931348623157e308, 5e-324,
                           123456789.123456789, 2.0**53, -0.0, 0.0, 1e22, 3.0])
    if m == 4:
        return rng.random()
    if m == 5:
        return rng.uniform(-1e6, 1e6)
    return float(rng.randint(-1000, 1000))


def g_int(rng, allow_big):
    m = rng.randrange(10)
    if m < 5:
        return rng.randint(-1000, 1000)
    if m < 8:
        return rng.choice([0, 1, -1, 2**31 - 1, 2**31, -2**31, 2**32, 99999999999999, -9999999999999,
                           10**13, 123456789])
    if m == 8 and allow_big:
        return rng.choice([10**14 + 1, 123456789012345, 2**53, 2**53 - 1, -(10**14) - 7, 10**15 + 1,
                           10**16, -(10**15), 2**60, -(2**62), 10**17 + 1, 2**63 - 1, 12345678901234567890])
    return rng.randint(-10**13, 10**13)


def g_date(rng):
    y = rng.choice([1000, 1999, 2000, 2020, 2024, 9999, rng.randint(1000, 9999)])
    m = rng.randint(1, 12)
    d = rng.randint(1, 28) if rng.random() < 0.8 else rng.choice([29, 30, 31])
    try:
        dtm.date(y, m, d)
    except ValueError:
        d = 28
    return [y, m, d]


def g_time(rng):
    us = rng.choice([0, 0, 1, 100, 500000, 123456, 999999, rng.randint(0, 999999)])
    return [rng.choice([0, 1, 12, 23]), rng.choice([0, 1, 30, 59]), rng.choice([0, 1, 30, 59]), us]


def g_datetime(rng):
    has_tz = rng.random() < 0.5
    off = rng.choice([0, 60, -300, 330, 345, -720, 840, -30]) if has_tz else 0
    return g_date(rng) + g_time(rng) + [1 if has_tz else 0, off]


def _q8(rng, lo=-4000, hi=4000):
    return rng.randint(lo, hi) / rng.choice([1, 2, 4, 8])


def g_pts2(rng, gt, n=None):
    if n is None:
        n = {'POINT': 1, 'CIRCLE': 2, 'ELLIPSE': 4}.get(gt) or rng.choice([2, 2, 3, 5, 9])
    if rng.random() < 0.2:
        return [[rng.randint(0, 5000), rng.randint(0, 5000)] for _ in range(n)]
    return [[_q8(rng, 0, 40000), _q8(rng, 0, 40000)] for _ in range(n)]


def g_plane_pts(rng, n):
    """n points, exactly coplanar (dyadic coordinates in a rational plane)."""
    p0 = [_q8(rng) for _ in range(3)]
    u, v = rng.choice([([1, 0, 0], [0, 1, 0]), ([1, 0, 0], [0, 0, 1]), ([1, 1, 0], [0, 1, 1]),
                       ([2, -1, 3], [0, 1, 1]), ([1, 2, 2], [-2, 1, 0])])
    out = []
    for _ in range(n):
        a, b = _q8(rng, -200, 200), _q8(rng, -200, 200)
        out.append([p0[i] + a * u[i] + b * v[i] for i in range(3)])
    return out


def g_pts3(rng, gt, n=None):
    if n is None:
        n = {'POINT': 1, 'ELLIPSE': 4, 'ELLIPSOID': 6}.get(gt) or rng.choice([2, 3, 4, 5, 8])
    if gt in ('POLYGON', 'ELLIPSE'):
        pts = g_plane_pts(rng, n)
        if gt == 'POLYGON':
            pts[-1] = list(pts[0])
        return pts
    return [[_q8(rng), _q8(rng), _q8(rng)] for _ in range(n)]


def g_intlist(rng, lo=1, hi=2**16 - 1):
    m = rng.randrange(4)
    if m == 0:
        return rng.randint(lo, min(hi, 100))          # a bare int
    if m == 1:
        return [rng.randint(lo, min(hi, 100))]
    return sorted({rng.choice([lo, hi, rng.randint(lo, hi), rng.randint(lo, 300)]) for _ in range(rng.randint(2, 6))})


def g_value(rng, t, allow_big):
    if t == 'CODE':
        return {'code': g_code(rng)}
    if t in ('COMPOSITE',):
        return {'cls': g_uid(rng), 'inst': g_uid(rng)}
    if t == 'CONTAINER':
        return {'cont': rng.random() < 0.6, 'tmpl': rng.choice([None, '1500', '1410', 'T' + _word(rng, 3)])}
    if t == 'DATE':
        return {'d': g_date(rng)}
    if t == 'TIME':
        return {'d': g_time(rng)}
    if t == 'DATETIME':
        return {'d': g_datetime(rng)}
    if t == 'IMAGE':
        return {'cls': g_uid(rng), 'inst': g_uid(rng),
                'frames': g_intlist(rng, 1, 2**31 - 1) if rng.random() < 0.5 else None,
                'segs': g_intlist(rng, 1, 2**16 - 1) if rng.random() < 0.5 else None}
    if t == 'NUM':
        isf = rng.random() < 0.55
        return {'num': g_float(rng) if isf else g_int(rng, allow_big), 'isf': isf, 'unit': g_code(rng),
                'qual': g_code(rng) if rng.random() < 0.3 else None}
    if t == 'PNAME':
        return {'s': rng.choice(['Doe^John', 'Doe^John^^Dr^Jr', 'Bono^', '^' + _word(rng, 5),
                                 _word(rng, 6) + '^' + _word(rng, 4)])}
    if t == 'TEXT':
        return {'s': g_text(rng)}
    if t == 'UIDREF':
        return {'s': g_uid(rng)}
    if t == 'SCOORD':
        gt = rng.choice(list(G2))
        return {'gt': gt, 'pts': g_pts2(rng, gt), 'poi': rng.choice([None, 'FRAME', 'VOLUME']),
                'fid': rng.choice([None, None, g_uid(rng)])}
    if t == 'SCOORD3D':
        gt = rng.choice(list(G3))
        return {'gt': gt, 'pts': g_pts3(rng, gt), 'for': g_uid(rng), 'fid': rng.choice([None, None, g_uid(rng)])}
    if t == 'TCOORD':
        w = rng.choice(['samples', 'offsets', 'datetimes'])
        n = rng.choice([1, 1, 2, 3, 5])
        if w == 'samples':
            l = [rng.choice([1, 2**31, 2**32 - 1, rng.randint(1, 10**6), 0]) for _ in range(n)]
        elif w == 'offsets':      # 0 s = the start of the acquisition (a scalar 0.0 is falsy)
            l = [rng.choice([_q8(rng, 0, 10**6), _q8(rng, 0, 10**6), 0.0, -0.0, 0, _q8(rng, -64, 64)]) for _ in range(n)]
        else:
            l = [g_datetime(rng) for _ in range(n)]
        return {'trt': rng.choice(list(TRT)), 'w': w, 'l': l}
    if t == 'WAVEFORM':
        ch = None
        if rng.random() < 0.6:
            ch = [[rng.randint(1, 9), rng.choice([1, 2, 65535, rng.randint(1, 400)])]
                  for _ in range(rng.choice([1, 1, 2, 3, 6]))]
        return {'cls': g_uid(rng), 'inst': g_uid(rng), 'ch': ch}
    raise ValueError(t)


def g_tree(rng, depth, max_depth, top=True, allow_big=False, types=None):
    t = rng.choice(types or VTS)
    if depth < max_depth and rng.random() < 0.35:
        t = 'CONTAINER'
    node = {'t': t, 'name': g_code(rng), 'rel': rng.choice(RELS), 'val': g_value(rng, t, allow_big), 'kids': []}
    if top and rng.random() < 0.25:
        node['rel'] = None
    if depth < max_depth and (t == 'CONTAINER' or rng.random() < 0.25):
        for _ in range(rng.choice([0, 1, 1, 2, 3])):
            node['kids'].append(g_tree(rng, depth + 1, max_depth, False, allow_big, types))
    return node


def tree_size(n):
    return 1 + sum(tree_size(k) for k in n['kids'])


def tree_nodes(n):
    yield n
    for k in n['kids']:
        yield from tree_nodes(k)


def g_malformed(rng):
    base = g_tree(rng, 0, rng.choice([0, 0, 1, 2]), top=False)
    nodes = list(tree_nodes(base))
    # path to a node: list of child indices
    def paths(n, p):
        yield p
        for i, k in enumerate(n['kids']):
            yield from paths(k, p + [i])
    path = rng.choice(list(paths(base, [])))
    op = rng.choice(['del_required', 'del_required', 'del_any', 'del_nested', 'vt_other', 'vt_unknown',
                     'wrong_class', 'rel_del', 'rel_bad', 'empty_seq', 'two_code_values', 'odd_graphic',
                     'bad_enum', 'none'])
    return {'kind': 'malformed', 'tree': base, 'path': path, 'op': op, 'r': rng.randint(0, 10**6)}


def _fault(rng, base):
    def paths(n, p):
        yield p
        for i, k in enumerate(n['kids']):
            yield from paths(k, p + [i])
    return {'path': rng.choice(list(paths(base, []))),
            'op': rng.choice(['del_required', 'del_any', 'del_nested', 'vt_other', 'vt_unknown', 'rel_del',
                              'rel_bad', 'empty_seq', 'two_code_values', 'odd_graphic', 'bad_enum']),
            'r': rng.randint(0, 10**6)}


def g_precedence(rng):
    """an accessor-time fault (bad enumerated value / odd graphic data / missing referenced UID) in one child
    and a from_dataset-time fault in another: the parse-time error must win wherever the nodes are"""
    late = g_tree(rng, 0, 0, False, False, ['SCOORD', 'SCOORD3D', 'TCOORD', 'IMAGE', 'COMPOSITE'])
    early = g_tree(rng, 0, 0, False, False)
    kids = [late, early] if rng.random() < 0.7 else [early, late]
    if rng.random() < 0.4:
        kids.insert(rng.randrange(3), g_tree(rng, 0, 1, False, False))
    if rng.random() < 0.3:      # one level deeper
        i = kids.index(late)
        kids[i] = {'t': 'CONTAINER', 'name': g_code(rng), 'rel': rng.choice(RELS),
                   'val': g_value(rng, 'CONTAINER', False), 'kids': [late]}
    base = {'t': 'CONTAINER', 'name': g_code(rng), 'rel': rng.choice(RELS),
            'val': g_value(rng, 'CONTAINER', False), 'kids': kids}

    def path_of(n, target, p):
        if n is target:
            return p
        for i, k in enumerate(n['kids']):
            r = path_of(k, target, p + [i])
            if r is not None:
                return r
        return None
    f1 = {'path': path_of(base, late, []), 'r': rng.randint(0, 10**6),
          'op': 'del_nested' if late['t'] in ('IMAGE', 'COMPOSITE') else rng.choice(['bad_enum', 'odd_graphic', 'bad_enum'])}
    f2 = {'path': path_of(base, early, []), 'r': rng.randint(0, 10**6),
          'op': rng.choice(['del_required', 'del_required', 'vt_unknown', 'rel_del', 'vt_other'])}
    return dict(f1, kind='malformed', tree=base, more=[f2])


def g_multifault(rng):
    """2-3 faults in (mostly) different nodes of one tree: which error wins"""
    if rng.random() < 0.5:
        return g_precedence(rng)
    base = g_tree(rng, 0, rng.choice([1, 2, 2]), top=False)
    while tree_size(base) < 2:
        base = g_tree(rng, 0, 2, top=False)
    fs = [_fault(rng, base) for _ in range(rng.choice([2, 2, 3]))]
    return dict(fs[0], kind='malformed', tree=base, more=fs[1:])


SEQ_NAMES = [['111', '99X', 'alpha', None, 'cc'], ['111', '99X', 'alpha again', None, 'code'],
             ['111', '99X', 'alpha', '2.0', 'cc'], ['222', '99X', 'beta', None, 'cc'],
             ['111', 'DCM', 'gamma', None, 'code']]


def g_seq_item(rng, mode, good=0.93):
    """a small item; relationship / class chosen to suit the kind of sequence with probability `good`"""
    t = rng.choice(['TEXT', 'TEXT', 'TEXT', 'NUM', 'CONTAINER', 'CODE', 'UIDREF'])
    ok = rng.random() < good
    if mode == 'root' and ok:
        t = 'CONTAINER'
    if t == 'TEXT':
        val = {'s': rng.choice(['x', 'y', 'z'])}
    elif t == 'NUM':
        val = {'num': rng.choice([1, 2]), 'isf': False, 'unit': ['mm', 'UCUM', 'mm', None, 'cc'], 'qual': None}
    elif t == 'UIDREF':
        val = {'s': rng.choice(['1.2.3', '1.2.4'])}
    else:
        val = g_value(rng, t, False)
    has_rel = (mode == 'sr') == ok
    node = {'t': t, 'name': list(rng.choice(SEQ_NAMES)), 'rel': rng.choice(RELS) if has_rel else None,
            'val': val, 'kids': []}
    if rng.random() < 0.3:
        node['kids'] = [{'t': 'TEXT', 'name': list(rng.choice(SEQ_NAMES)), 'rel': rng.choice(RELS),
                         'val': {'s': 'k'}, 'kids': []}]
    return node


def g_seqmode(rng):
    root, sr_ = rng.choice([(True, True), (False, True), (False, True), (False, False), (False, False), (True, False)])
    mode = 'root' if root else ('sr' if sr_ else 'ctx')
    n = rng.choice([0, 1, 1, 2, 3])
    return {'kind': 'seqmode', 'root': root, 'sr': sr_,
            'items': [g_seq_item(rng, mode, 1.0 if (root and not sr_) else 0.85) for _ in range(n)]}


def g_seqops(rng):
    root, sr_ = rng.choice([(False, True)] * 5 + [(False, False)] * 2 + [(True, True)])
    mode = 'root' if root else ('sr' if sr_ else 'ctx')
    init = [g_seq_item(rng, mode, 1.0) for _ in range(rng.choice([0, 1, 2, 3, 4]))]
    n = len(init)
    ops = []
    for _ in range(rng.randint(1, 8)):
        k = rng.choice(['append', 'append', 'insert', 'insert', 'set', 'set', 'del', 'del', 'extend', 'iadd',
                        'setslice', 'delslice'])
        idx = rng.randint(-n - 2, n + 2)
        if k in ('append',):
            ops.append([k, g_seq_item(rng, mode)])
            n += 1
        elif k == 'insert':
            ops.append([k, idx, g_seq_item(rng, mode)])
            n += 1
        elif k == 'set':
            ops.append([k, idx, g_seq_item(rng, mode)])
        elif k == 'del':
            ops.append([k, idx])
            n = max(0, n - 1)
        elif k in ('extend', 'iadd'):
            l = [g_seq_item(rng, mode) for _ in range(rng.choice([0, 1, 2, 3]))]
            ops.append([k, l])
            n += len(l)
        elif k == 'setslice':
            l = [g_seq_item(rng, mode, 0.97) for _ in range(rng.choice([0, 1, 2]))]
            ops.append([k, idx, rng.randint(-n - 2, n + 2), l])
            n += len(l)
        else:
            ops.append([k, idx, rng.randint(-n - 2, n + 2)])
    pool = init + [o[-1] for o in ops if o[0] in ('append', 'insert', 'set')]
    probes = [rng.choice(pool) for _ in range(2)] if pool else []
    probes.append(g_seq_item(rng, mode, 1.0))
    return {'kind': 'seqops', 'root': root, 'sr': sr_, 'init': init, 'ops': ops,
            'names': [list(x) for x in rng.sample(SEQ_NAMES, 3)], 'probes': probes}


_SUBS = None


def sub_table():
    """{subclass of sr/content.py: (parent value-type class, does its from_dataset assert the value type)} read
    off the current source (ast; raises on any from_dataset of unexpected shape)"""
    global _SUBS
    if _SUBS is None:
        import ast
        tree = ast.parse(open(os.path.join(common.REPO, 'src', 'highdicom', 'sr', 'content.py')).read())
        out = {}
        for n in tree.body:
            if not isinstance(n, ast.ClassDef) or len(n.bases) != 1 or not isinstance(n.bases[0], ast.Name) \
                    or n.bases[0].id not in CLASS.values():
                continue
            fd = [m for m in n.body if isinstance(m, ast.FunctionDef) and m.name == 'from_dataset']
            if len(fd) != 1:
                raise ValueError(f'{n.name}: expected one from_dataset')
            calls = [ast.unparse(c.func) for c in ast.walk(fd[0]) if isinstance(c, ast.Call)]
            if 'super()._from_dataset_base' not in calls or any(x.endswith('.from_dataset') for x in calls):
                raise ValueError(f'{n.name}.from_dataset has changed shape: {calls}')
            asserts = [c for c in ast.walk(fd[0]) if isinstance(c, ast.Call) and ast.unparse(c.func) == '_assert_value_type']
            if asserts:
                vt = _enum_attr(asserts[0].args[1])
                if CLASS[vt] != n.bases[0].id or ast.unparse(asserts[0].args[0]) != 'dataset_copy':
                    raise ValueError(f'{n.name}.from_dataset asserts {vt}, parent is {n.bases[0].id}')
            out[n.name] = (n.bases[0].id, bool(asserts))
        if len(out) < 10:
            raise ValueError(f'only {len(out)} template content items found in sr/content.py')
        _SUBS = out
    return _SUBS


# Defect D103 (found by this check, fixed in /repo f2e5a80): the from_dataset of the template content items of
# sr/content.py skipped _assert_value_type.  The model takes "does it assert" from the source (sub_table); the oracle
# demands rejection of a mismatching value type / missing required attribute whenever the source asserts, and would
# only tolerate acceptance for a subclass whose source does not assert if that were a recorded OPEN finding.


def g_subclass(rng, sub=None, cfault=None):
    subs = sorted(sub_table())
    sub = sub or rng.choice(subs)
    parent_vt = [v for v, c in CLASS.items() if c == sub_table()[sub][0]][0]
    t = parent_vt if cfault or rng.random() < 0.5 else rng.choice(VTS)
    tree = g_tree(rng, 0, rng.choice([0, 0, 1]), False, False, [t])
    tree['t'], tree['val'] = t, g_value(rng, t, False)      # g_tree may have turned it into a container
    fault = None
    if cfault:                  # a fault in the coded NAME (the value's concepts are not converted by these classes)
        tree['name'][0] = g_carrier_value(rng, cfault[0])
        if cfault[1] == 'del_version':
            tree['name'][3] = '1.0'
        cfault = [cfault[0], cfault[1], _other_carrier(rng, cfault[0], tree['name'][0], cfault[1])]
        return {'kind': 'subclass', 'sub': sub, 'tree': tree, 'del': None, 'cfault': cfault}
    if rng.random() < 0.45:
        fault = rng.choice(REQUIRED[t] + ['ValueType', 'ConceptNameCodeSequence', 'RelationshipType'])
    return {'kind': 'subclass', 'sub': sub, 'tree': tree, 'del': fault}


def _sub_ds(c):
    ds = plain(build(c['tree']))
    if c['del'] is not None:
        del ds[c['del']]
    if c.get('cfault'):
        _concept_fault(ds.ConceptNameCodeSequence[0], *c['cfault'])
    return ds


# ---- coded concepts inside content items: which attribute carries the code x which attribute is missing -----------
CARRIERS = ['CodeValue', 'LongCodeValue', 'URNCodeValue']
CODE_SHAPES = ['x1', 'ABCDEFGHIJKLMNOP', 'CUSTOM-FINDING-0001-LEFT', 'urn:oid:1.2.3', 'http://x.y/z']
CONCEPT_SITES = [(t, 'name') for t in VTS] + [('CODE', 'value'), ('NUM', 'unit'), ('NUM', 'qual')]
CONCEPT_BREAKING = ['del_scheme', 'del_meaning', 'del_carrier', 'add_carrier']
CONCEPT_HARMLESS = ['del_version', 'rename_carrier', 'none']
CONCEPT_ATTR = {'del_scheme': 'CodingSchemeDesignator', 'del_meaning': 'CodeMeaning', 'del_version': 'CodingSchemeVersion'}


def g_carrier_value(rng, carrier):
    """a code value the constructor stores in the given attribute"""
    if carrier == 'CodeValue':
        return 'c' + _word(rng, rng.choice([0, 5, 14, 15]))
    if carrier == 'LongCodeValue':
        return rng.choice(['CUSTOM-FINDING-' + _word(rng, 4) + '-LEFT', 'L' + _word(rng, 16), 'l' + _word(rng, 17),
                           'x' + _word(rng, 39), 'arbitrary-units-per-mm2'])
    return rng.choice(['urn:oid:1.2.' + str(rng.randint(1, 999)), 'http://x.y/' + _word(rng, 3), 'urn:uuid:' + _word(rng, 20),
                       _word(rng, 2) + '://' + _word(rng, 18)])


def _other_carrier(rng, carrier, value, fault):
    """the second attribute of add_carrier / the new home of the value of rename_carrier (CodeValue holds <= 16 chars)"""
    if fault not in ('add_carrier', 'rename_carrier'):
        return None
    return rng.choice([k for k in CARRIERS if k != carrier and (k != 'CodeValue' or fault == 'add_carrier' or len(value) <= 16)])


def g_concept(rng, t, where, carrier, fault):
    tree = g_tree(rng, 0, 0, False, False, [t])
    tree['t'], tree['val'] = t, g_value(rng, t, False)
    if where == 'qual':
        tree['val']['qual'] = g_code(rng)
    code = {'name': lambda: tree['name'], 'value': lambda: tree['val']['code'], 'unit': lambda: tree['val']['unit'],
            'qual': lambda: tree['val']['qual']}[where]()
    code[0] = g_carrier_value(rng, carrier)
    if fault == 'del_version':
        code[3] = rng.choice(['2020', '1.0'])
    path = []
    for _ in range(rng.choice([0, 0, 0, 1, 1, 2])):
        sib = [g_tree(rng, 0, 0, False, False) for _ in range(rng.choice([0, 0, 1]))]
        i = rng.randint(0, len(sib))
        tree = {'t': 'CONTAINER', 'name': g_code(rng), 'rel': rng.choice(RELS), 'val': g_value(rng, 'CONTAINER', False),
                'kids': sib[:i] + [tree] + sib[i:]}
        path = [i] + path
    return {'kind': 'concept', 'tree': tree, 'path': path, 'where': where, 'carrier': carrier, 'fault': fault,
            'other': _other_carrier(rng, carrier, code[0], fault), 'src': rng.choice(['plain', 'plain', 'bytes'])}


def _concept_fault(cd, carrier, fault, other):
    """damage (or harmlessly change) one coded-concept dataset in place"""
    assert carrier in cd and sum(k in cd for k in CARRIERS) == 1, (carrier, [e.keyword for e in cd])
    if fault in CONCEPT_ATTR:
        del cd[CONCEPT_ATTR[fault]]
    elif fault == 'del_carrier':
        del cd[carrier]
    elif fault == 'add_carrier':
        setattr(cd, other, {'CodeValue': 'X1', 'LongCodeValue': 'L' * 17, 'URNCodeValue': 'urn:x:1'}[other])
    elif fault == 'rename_carrier':
        v = str(cd[carrier].value)
        del cd[carrier]
        setattr(cd, other, v)
    elif fault != 'none':
        raise ValueError(fault)


def _concept_site(node, where):
    if where == 'name':
        return node.ConceptNameCodeSequence[0]
    if where == 'value':
        return node.ConceptCodeSequence[0]
    if where == 'unit':
        return node.MeasuredValueSequence[0].MeasurementUnitsCodeSequence[0]
    return node.NumericValueQualifierCodeSequence[0]


def _concept_inputs(c):
    it = build(c['tree'])
    ds = via_bytes(it) if c['src'] == 'bytes' else plain(it)
    node = ds
    for i in c['path']:
        node = node.ContentSequence[i]
    _concept_fault(_concept_site(node, c['where']), c['carrier'], c['fault'], c['other'])
    return ds


# ---- values that Python / pydicom treat as "nothing" ------------------------------------------------------------
def g_falsy(rng):
    """one item per value type and 'nothing-like' value: a scalar 0 / 0.0 / -0.0 (pydicom collapses a one-element
    list into a scalar, which is falsy), zeros inside longer lists, empty text, midnight, absent optional parts"""
    out = []

    def item(t, val):
        out.append({'kind': 'falsy', 'tree': {'t': t, 'name': g_code(rng), 'rel': rng.choice(RELS), 'val': val, 'kids': []}})

    def trt(l):
        return 'POINT' if len(l) == 1 else rng.choice(['MULTIPOINT', 'SEGMENT', 'MULTISEGMENT', 'BEGIN', 'END'])
    for l in ([0.0], [-0.0], [0], [0.5], [0.0, 0.0], [0.0, 2.5], [2.5, 0.0], [0, 0, 0], [-0.0, 0.0, 1.0]):
        item('TCOORD', {'trt': trt(l), 'w': 'offsets', 'l': l})
    for l in ([0], [1], [0, 0], [0, 7], [7, 0]):
        item('TCOORD', {'trt': trt(l), 'w': 'samples', 'l': l})
    for l in ([[1000, 1, 1, 0, 0, 0, 0, 0, 0]], [[2000, 1, 1, 0, 0, 0, 0, 1, 0]],
              [[1000, 1, 1, 0, 0, 0, 0, 0, 0], [1000, 1, 1, 0, 0, 0, 0, 0, 0]]):
        item('TCOORD', {'trt': trt(l), 'w': 'datetimes', 'l': l})
    for num, isf in ((0, False), (0.0, True), (-0.0, True), (5e-324, True)):
        item('NUM', {'num': num, 'isf': isf, 'unit': g_code(rng), 'qual': None})
    item('TEXT', {'s': ''})
    item('CONTAINER', {'cont': False, 'tmpl': None})
    item('IMAGE', {'cls': g_uid(rng), 'inst': g_uid(rng), 'frames': 1, 'segs': None})
    item('IMAGE', {'cls': g_uid(rng), 'inst': g_uid(rng), 'frames': None, 'segs': [1]})
    item('WAVEFORM', {'cls': g_uid(rng), 'inst': g_uid(rng), 'ch': None})
    item('DATE', {'d': [1000, 1, 1]})
    item('TIME', {'d': [0, 0, 0, 0]})
    item('DATETIME', {'d': [1000, 1, 1, 0, 0, 0, 0, 1, 0]})
    item('SCOORD', {'gt': 'POINT', 'pts': [[0.0, 0.0]], 'poi': None, 'fid': None})
    item('SCOORD', {'gt': 'POLYLINE', 'pts': [[0.0, 0.0], [0.0, -0.0], [0.0, 0.0]], 'poi': None, 'fid': None})
    item('SCOORD3D', {'gt': 'POINT', 'pts': [[0.0, 0.0, 0.0]], 'for': g_uid(rng), 'fid': None})
    item('SCOORD3D', {'gt': 'POLYGON', 'pts': [[0.0, 0.0, 0.0]] * 3, 'for': g_uid(rng), 'fid': None})
    return out


# ---- closed 3D contours with degenerate stretches ----------------------------------------------------------------
BASES3 = [([1, 0, 0], [0, 1, 0]), ([1, 0, 0], [0, 0, 1]), ([0, 1, 0], [0, 0, 1]), ([1, 1, 0], [0, 1, 1]),
          ([2, -1, 3], [0, 1, 1]), ([1, 2, 2], [-2, 1, 0])]
POLY_MODES = ['colstart_off', 'repstart_off', 'colstart_plane', 'rotated_off', 'colend_off', 'collinear_all',
              'identical_all', 'off_at']


def _cross3(u, v):
    return [u[1] * v[2] - u[2] * v[1], u[2] * v[0] - u[0] * v[2], u[0] * v[1] - u[1] * v[0]]


def g_poly3(rng, n, mode, k=None, close=True):
    """n rows (the last repeats the first when `close`): vertices p0 + a*u + b*v + c*w of a rational plane (w = u x v),
    dyadic coordinates; the out-of-plane offsets c are 0 or >= 1/2 in size, in-plane offsets >= 1/2 apart.
    colstart_*: the first three vertices lie on one line (a vertex in the middle of the first edge);
    repstart_off: ... or repeat each other; rotated_off / colend_off: that stretch elsewhere in the contour;
    *_off: one of the other vertices is lifted out of the plane; off_at: general contour, vertex k lifted."""
    m = n - 1 if close else n
    p0 = [_q8(rng, -400, 400) for _ in range(3)]
    u, v = rng.choice(BASES3)
    w = _cross3(u, v)
    step = lambda: rng.choice([1, 2, 3, 4, 8]) / rng.choice([1, 1, 2])
    inplane = lambda: (rng.randint(-16, 16) / rng.choice([1, 2]), rng.choice([-1, 1]) * rng.randint(1, 16) / rng.choice([1, 2]))
    lift = rng.choice([1, -1, 2, -3, 0.5])
    a1 = step()
    a2 = a1 + step()
    cs = [0] * m
    if mode == 'collinear_all':
        ab = [(rng.randint(-16, 16) / 2, 0) for _ in range(m)]
    elif mode == 'identical_all':
        ab = [(0, 0)] * m
    elif mode == 'off_at':
        ab = [inplane() for _ in range(m)]
        if m:
            cs[(k if k is not None else rng.randrange(m)) % m] = lift
    else:
        pre = [(0, 0), (a1, 0), (a2, 0)]
        if mode == 'repstart_off' or (mode in ('rotated_off', 'colend_off') and rng.random() < 0.3):
            pre = rng.choice([[(0, 0), (0, 0), (a2, 0)], [(0, 0), (a1, 0), (a1, 0)], [(0, 0), (0, 0), (0, 0)]])
        ab = (pre + [inplane() for _ in range(max(0, m - 3))])[:m]
        if mode != 'colstart_plane' and m > 4:
            cs[rng.randrange(3, m)] = lift
    rows = [[float(p0[i] + a * u[i] + b * v[i] + c * w[i]) for i in range(3)] for (a, b), c in zip(ab, cs)]
    if mode == 'rotated_off' and m:
        r = rng.randrange(1, m) if m > 1 else 0
        rows = rows[r:] + rows[:r]
    if mode == 'colend_off':
        rows = rows[::-1]
    if close and rows:
        rows.append(list(rows[0]))
    return rows


def g_coplanar(rng):
    """a point set for are_points_coplanar itself: 0-9 points, not closed, possibly permuted"""
    mode = rng.choice(POLY_MODES + ['generic', 'plane', 'dim2'])
    n = rng.choice([0, 2, 3, 4, 5, 6, 6, 7, 7, 9])
    if mode == 'generic':
        pts = [[float(rng.randint(-50, 50)) for _ in range(3)] for _ in range(n)]
    elif mode == 'plane':
        pts = g_plane_pts(rng, n)
    elif mode == 'dim2':
        pts = [[_q8(rng), _q8(rng)] for _ in range(max(1, n))]
    else:
        pts = g_poly3(rng, n, mode, close=rng.random() < 0.3 and n >= 2)
    if rng.random() < 0.3:
        rng.shuffle(pts)
    return {'kind': 'coplanar', 'pts': pts, 'mode': mode}


# ---- histories of reads on one SCOORD / SCOORD3D item ---------------------------------------------------------------
def g_history(rng):
    dim = rng.choice([2, 2, 3])
    if dim == 2:
        gt = rng.choice(list(G2))
        pts = g_pts2(rng, gt)
    else:
        gt = rng.choice(list(G3))
        pts = g_pts3(rng, gt)
    n = len(pts) * dim
    small = lambda: rng.randint(-4000, 4000) / rng.choice([1, 2, 8])
    ops = []
    for _ in range(rng.randint(3, 7)):
        o = rng.choice(['read'] * 4 + ['scribble'] * 5 + ['roundtrip'] * 2 + ['edit', 'edit', 'assign'])
        if o == 'scribble':
            ops.append([o, rng.choice(['last', 'last', 'last', 'first', 'input', 'source']),
                        rng.choice(['add', 'mul', 'zero', 'round', 'rev', 'fill']), rng.choice([1000.0, -500.0, 2.0, 0.5])])
        elif o == 'edit':
            ops.append([o, rng.choice([0, 1, -1, n - 1, -n, n, -n - 1, rng.randint(-n, n - 1)]), small()])
        elif o == 'assign':
            cnt = rng.choice([n, n, n + dim, max(dim, n - dim), n + 1 if n + 1 >= 3 else n])
            n = max(cnt, 2)
            ops.append([o, [small() for _ in range(n)]])
        else:
            ops.append([o])
    ops.append(['read'])
    return {'kind': 'history', 'dim': dim, 'gt': gt, 'pts': pts, 'src': rng.choice(['ctor', 'ctor', 'plain', 'bytes', 'seq']),
            'ops': ops}


# ---- 3D contours whose end points ALMOST meet: gap size x distance from the origin ------------------------------------
NEAR_VIA = ['item', 'item', 'item', 'region3d', 'coords3d', 'surface']
NEAR_GAPS = ['ulp', 'ulp', 'rel', 'rel', 'rel', 'abs', 'abs', 'negzero', 'closed']


def _exact(x):
    """is the rational x a double?"""
    try:
        return F(float(x)) == x
    except OverflowError:
        return False


def g_nearclosed(rng, gap=None, mag=None):
    """a planar contour of 4-8 rows whose last row misses the first one by `gap` in 1-3 components; everything else about it
    is admissible (count, dimension, exactly coplanar), so the only reason to refuse it is that it is open.
    gap: k ulp of the coordinate | a fraction 2^-r of the coordinate, r = 6..44 | an absolute 2^-r mm, r = 1..40 |
    none but 0.0 closes -0.0 (equal) | none (closed: must be accepted at the same place).
    mag: distance of the contour from the origin of the frame of reference (0, a slide, a patient, a table position far
    away, 2^20, 1e6 ...) - a comparison with a relative tolerance forgives larger gaps the farther away the contour is.
    family A: plane normal to an axis, coordinates arbitrary doubles; family B: oblique rational plane, dyadic coordinates,
    the gap vector a*u + b*v lies in the plane (checked: every coordinate is exactly a double)."""
    import math
    gap = gap or rng.choice(NEAR_GAPS)
    mag = mag if mag is not None else rng.choice([0.0, 1.0, 17.5, 41.237, 210.5, 1500.0, 1532.25, 987.0, 2.0**20, 1e6,
                                                  123456.789, 3e-3, 2.0**-12])
    n = rng.choice([4, 5, 5, 6, 8])
    m = n - 1
    oblique = gap in ('rel', 'abs', 'closed') and rng.random() < 0.4
    info = {}
    if oblique:
        u, v = rng.choice(BASES3[3:])
        p0 = [F(rng.choice([-1, 1])) * F(round(mag * 8), 8) + F(rng.randint(-64, 64), 8) for _ in range(3)]
        ab = [(F(0), F(0))] + [(F(rng.randint(-256, 256), 8), F(rng.choice([-1, 1]) * rng.randint(1, 256), 8)) for _ in range(m - 1)]
        rows = [[p0[i] + a * u[i] + b * v[i] for i in range(3)] for a, b in ab]
        last = list(rows[0])
        if gap != 'closed':
            for _ in range(30):
                r = rng.choice([1, 3, 7, 10, 14, 17, 18, 20, 24, 27, 30, 34])
                g = F(1, 2**r) if gap == 'abs' else F(2) ** (math.frexp(max(mag, 2.0**-20))[1] - r)
                a, b = rng.choice([(g, 0), (0, g), (g, g), (-g, g), (g, -2 * g)])
                cand = [rows[0][i] + a * u[i] + b * v[i] for i in range(3)]
                if all(_exact(x) for x in cand) and cand != rows[0]:
                    last, info = cand, {'r': r}
                    break
            else:
                gap = 'closed'
        rows = [[float(x) for x in r_] for r_ in rows + [last]]
    else:
        k = rng.randrange(3)                       # the plane is x_k = const
        sg = [rng.choice([-1, 1]) for _ in range(3)]
        c = sg[k] * mag + rng.choice([0.0, 0.5, rng.uniform(-3, 3)])
        rows = []
        for _ in range(m):
            p = [sg[i] * mag + rng.uniform(-40, 40) for i in range(3)]
            p[k] = c
            rows.append(p)
        if gap == 'negzero':                       # 0.0 == -0.0: the contour IS closed
            j = rng.choice([i for i in range(3) if i != k])
            rows[0][j] = 0.0
            last = list(rows[0])
            last[j] = -0.0
        else:
            last = list(rows[0])
            comps = [i for i in range(3) if i != k]
            for j in (comps if rng.random() < 0.35 else [rng.choice(comps)]):
                x = last[j]
                if gap == 'ulp':
                    s = rng.choice([1, 1, 2, 3, 16, 1000])
                    y = x
                    for _ in range(min(s, 16)):
                        y = math.nextafter(y, math.inf if rng.random() < 0.5 else -math.inf)
                    if s == 1000:
                        y = x + 1000 * math.ulp(x)
                    info = {'ulps': s}
                elif gap == 'rel':
                    r = rng.choice([6, 10, 14, 16, 17, 18, 20, 24, 30, 40, 44])
                    y = x * (1 + 2.0**-r) if x != 0 else 2.0**-r
                    info = {'r': r}
                elif gap == 'abs':
                    r = rng.choice([1, 3, 7, 10, 14, 17, 20, 24, 27, 28, 30, 34, 40])
                    y = x + rng.choice([-1, 1]) * 2.0**-r
                    info = {'r': r}
                else:
                    y = x
                last[j] = y
            if last == rows[0]:
                gap = 'closed'
        rows.append(last)
    return dict({'kind': 'nearclosed', 'pts': rows, 'gap': gap, 'mag': mag, 'oblique': oblique,
                 'via': rng.choice(NEAR_VIA)}, **info)


# ---- required attributes INSIDE the sequence items of a value ---------------------------------------------------------
# value type -> {path of sequence keywords from the item: attributes of its first item that are driven}
NESTED = {
    'CODE': {'ConceptCodeSequence': []},               # the attributes of a coded concept are the subject of stratum concept
    'NUM': {'MeasuredValueSequence': ['NumericValue', 'FloatingPointValue', 'MeasurementUnitsCodeSequence'],
            'MeasuredValueSequence/MeasurementUnitsCodeSequence': [],
            'NumericValueQualifierCodeSequence': []},
    'COMPOSITE': {'ReferencedSOPSequence': ['ReferencedSOPClassUID', 'ReferencedSOPInstanceUID']},
    'IMAGE': {'ReferencedSOPSequence': ['ReferencedSOPClassUID', 'ReferencedSOPInstanceUID', 'ReferencedFrameNumber',
                                        'ReferencedSegmentNumber']},
    'WAVEFORM': {'ReferencedSOPSequence': ['ReferencedSOPClassUID', 'ReferencedSOPInstanceUID', 'ReferencedWaveformChannels']},
    'CONTAINER': {'ContentTemplateSequence': ['MappingResource', 'TemplateIdentifier']},
}


def g_nested(rng, t, seq, op, kw=None, variant=None):
    """one item of value type t (flat or 1-2 containers deep, plain or byte round-tripped dataset); in the sequence `seq` of
    its dataset: 'del' attribute kw of the first item | 'empty' the sequence | 'second': append an item that lacks kw (or
    an empty item) behind the complete first one"""
    tree = g_tree(rng, 0, 0, False, False, [t])
    tree['t'], tree['val'] = t, g_value(rng, t, False)
    v = tree['val']
    if t == 'NUM':
        variant = variant or rng.choice(['int', 'float', 'big'])
        if variant == 'int':
            v['num'], v['isf'] = rng.choice([0, 7, -12, 10**15, rng.randint(-10**6, 10**6)]), False
        elif variant == 'float':
            v['num'], v['isf'] = rng.choice([0.0, 2.5, -17.25, 0.1, 1e-300, rng.uniform(-1e6, 1e6)]), True
        else:
            v['num'], v['isf'] = rng.choice([10**16, 2**60, -(10**17) - 1, 12345678901234567890]), False
        if seq == 'NumericValueQualifierCodeSequence' or rng.random() < 0.4:
            v['qual'] = g_code(rng)
        if kw == 'FloatingPointValue' and variant == 'int':
            v['num'], v['isf'] = 2.5, True
    if t == 'IMAGE':
        if kw == 'ReferencedFrameNumber' or (kw != 'ReferencedSegmentNumber' and rng.random() < 0.4):
            v['frames'], v['segs'] = [1, 5], None
        elif kw == 'ReferencedSegmentNumber' or rng.random() < 0.5:
            v['frames'], v['segs'] = None, [2]
    if t == 'WAVEFORM' and (kw == 'ReferencedWaveformChannels' or rng.random() < 0.5):
        v['ch'] = [[1, 2], [3, 400]]
    if t == 'CONTAINER':
        v['tmpl'] = '1500'
    path = []
    for _ in range(rng.choice([0, 0, 0, 1, 1, 2])):
        sib = [g_tree(rng, 0, 0, False, False) for _ in range(rng.choice([0, 0, 1]))]
        i = rng.randint(0, len(sib))
        tree = {'t': 'CONTAINER', 'name': g_code(rng), 'rel': rng.choice(RELS), 'val': g_value(rng, 'CONTAINER', False),
                'kids': sib[:i] + [tree] + sib[i:]}
        path = [i] + path
    return {'kind': 'nested', 'tree': tree, 'path': path, 'seq': seq.split('/'), 'op': op, 'kw': kw,
            'src': rng.choice(['plain', 'plain', 'bytes'])}


def _nested_inputs(c):
    from pydicom.dataset import Dataset
    from pydicom.sequence import Sequence
    it = build(c['tree'])
    ds = via_bytes(it) if c['src'] == 'bytes' else plain(it)
    node = ds
    for i in c['path']:
        node = node.ContentSequence[i]
    holder = node
    for kw in c['seq'][:-1]:
        holder = holder[kw].value[0]
    elem = holder[c['seq'][-1]]
    if c['op'] == 'empty':
        elem.value = Sequence([])
    elif c['op'] == 'del':
        del elem.value[0][c['kw']]
    elif c['op'] == 'second':
        extra = Dataset() if c['kw'] is None else copy.deepcopy(elem.value[0])
        if c['kw'] is not None:
            del extra[c['kw']]
        elem.value = Sequence(list(elem.value) + [extra])
    else:
        raise ValueError(c['op'])
    return ds


def gen_cases(rng, tier):
    n = {'quick': 1, 'thorough': 12, 'search': 5}[tier]
    cases = []
    # every value type at top level at least once, then random trees
    for t in VTS:
        for _ in range(3 * n):
            cases.append({'kind': 'tree', 'tree': g_tree(rng, 0, 0, True, True, [t])})
    for _ in range(160 * n):
        cases.append({'kind': 'tree', 'tree': g_tree(rng, 0, rng.choice([1, 2, 3, 3]), True, True)})
    for _ in range(6 * n):      # constructor-level refusals inside trees
        tr = g_tree(rng, 0, 2, True)
        nodes = list(tree_nodes(tr))
        nd = rng.choice(nodes)
        m = rng.randrange(3)
        if m == 0:
            nd['name'][2] = 'm' * rng.choice([65, 66, 100])
        elif m == 1 and nd is not tr:
            nd['rel'] = None
        else:
            nd['t'] = 'SCOORD'
            nd['val'] = {'gt': 'CIRCLE', 'pts': g_pts2(rng, 'CIRCLE', rng.choice([1, 3])), 'poi': None, 'fid': None}
        cases.append({'kind': 'tree', 'tree': tr})
    for _ in range(60 * n):
        c = g_code(rng)
        c[2] = _word(rng, rng.choice([1, 10, 63, 64, 65, 66]))
        if rng.random() < 0.5:
            k = rng.choice([14, 15, 16, 17, 18])
            c[0] = rng.choice([_word(rng, k), ('urn:' + _word(rng, k))[:k], (_word(rng, 3) + '://' + _word(rng, k))[:k]])
        cases.append({'kind': 'code', 'code': c})
    for _ in range(n):      # every subset of the three carriers x meaning x designator, two value shapes each
        for m in range(8):
            kws = [k for i, k in enumerate(CARRIERS) if m >> i & 1]
            for meaning in (True, False):
                for scheme in (True, False):
                    for vs in rng.sample(CODE_SHAPES, 2):
                        cases.append({'kind': 'code_from', 'kws': kws, 'meaning': meaning, 'scheme': scheme,
                                      'version': rng.random() < 0.3, 'v': _word(rng, 5), 'vs': vs})
        for kw in CARRIERS:     # one carrier, every value shape: complete / exactly one required attribute missing
            for vs in CODE_SHAPES:
                for meaning, scheme in ((True, True), (True, False), (False, True)):
                    cases.append({'kind': 'code_from', 'kws': [kw], 'meaning': meaning, 'scheme': scheme,
                                  'version': rng.random() < 0.5, 'v': _word(rng, 5), 'vs': vs})
    for gt in G2:
        for cnt in range(0, 9):
            for dim in (2, 3):
                if dim == 3 and cnt not in (1, 2, 4):
                    continue
                pts = [[_q8(rng, 0, 800) for _ in range(dim)] for _ in range(cnt)]
                cases.append({'kind': 'scoord', 'gt': gt, 'pts': pts, 'dim': dim})
    for gt in G3:
        for cnt in range(0, 9):
            for mode in ('plane', 'plane_closed', 'generic', 'generic_closed', 'dim2'):
                for _ in range(n):
                    if mode == 'dim2':
                        if cnt not in (1, 4, 6, 3):
                            continue
                        pts = [[_q8(rng), _q8(rng)] for _ in range(cnt)]
                    elif mode.startswith('plane'):
                        pts = g_plane_pts(rng, cnt)
                    else:
                        pts = [[float(rng.randint(-50, 50)), float(rng.randint(-50, 50)), float(rng.randint(-50, 50))]
                               for _ in range(cnt)]
                    if mode.endswith('closed') and cnt >= 2:
                        pts[-1] = list(pts[0])
                    cases.append({'kind': 'scoord3d', 'gt': gt, 'pts': pts, 'mode': mode})
    for t in VTS:          # systematic: every required attribute of every value type, flat and nested
        for kw in REQUIRED[t] + ['ValueType', 'ConceptNameCodeSequence', 'RelationshipType']:
            for nested in (False, True):
                base = g_tree(rng, 0, 0, False, False, [t])
                path = []
                if nested:
                    base = {'t': 'CONTAINER', 'name': g_code(rng), 'rel': rng.choice(RELS),
                            'val': g_value(rng, 'CONTAINER', False), 'kids': [base]}
                    path = [0]
                cases.append({'kind': 'malformed', 'tree': base, 'path': path, 'op': 'del_kw', 'kw': kw,
                              'r': rng.randint(0, 10**6)})
        for op in ('wrong_class', 'vt_other', 'vt_unknown'):
            cases.append({'kind': 'malformed', 'tree': g_tree(rng, 0, 0, False, False, [t]), 'path': [],
                          'op': op, 'r': rng.randint(0, 10**6)})
    for _ in range(110 * n):
        cases.append(g_malformed(rng))
    for _ in range(40 * n):
        cases.append(g_multifault(rng))
    for _ in range(40 * n):
        cases.append(g_seqmode(rng))
    for _ in range(70 * n):
        cases.append(g_seqops(rng))
    for _ in range(50 * n):
        cases.append(g_subclass(rng))
    for sub in sorted(sub_table()):        # the name concept of the template items: each carrier without designator, ...
        for carrier in CARRIERS:
            cases.append(g_subclass(rng, sub, [carrier, 'del_scheme', None]))
        cases.append(g_subclass(rng, sub, [rng.choice(CARRIERS), 'del_meaning', None]))
        cases.append(g_subclass(rng, sub, [rng.choice(CARRIERS), rng.choice(['del_carrier', 'add_carrier', 'del_version',
                                                                             'rename_carrier', 'none']), None]))
    for _ in range(min(n, 4)):             # coded concepts inside content items: position x carrier x fault
        for t, where in CONCEPT_SITES:
            for carrier in CARRIERS:
                for fault in CONCEPT_BREAKING:
                    cases.append(g_concept(rng, t, where, carrier, fault))
                cases.append(g_concept(rng, t, where, carrier, rng.choice(CONCEPT_HARMLESS)))
    for z in [10**15, 10**15 - 1, 10**15 + 1, 10**16 - 1, 10**16, 10**16 + 1, 2**53 - 1, 2**53, 2**53 + 1, 2**53 + 2,
              2**53 + 3, 2**53 + 4, 9007199254740993, 2**60, 2**63 - 1, 10**17, 123456789012345678, 0, 7]:
        cases.append({'kind': 'num_int', 'z': z})
        cases.append({'kind': 'num_int', 'z': -z})
    for _ in range(12 * n):
        d = rng.choice([14, 15, 16, 17, 18, 20])
        cases.append({'kind': 'num_int', 'z': rng.choice([1, -1]) * rng.randint(10**(d - 1), 10**d - 1)})
    # --- new dimensions ---
    for t in VTS:                 # every (parser class, value type) pair, in both forms: the dataset of t given to
        for to in VTS:            # the class of `to`, and the dataset of t relabelled as `to` given to the class of t
            if to != t:
                for op in ('wrong_class', 'vt_other'):
                    tr = g_tree(rng, 0, 0, False, False, [t])
                    tr['name'] = ['1', '99X', 'n', None, 'cc']          # short terms: 420 cases
                    cases.append({'kind': 'malformed', 'tree': tr, 'path': [], 'op': op, 'to': to, 'r': 0})
    for _ in range(n):
        cases += g_falsy(rng)
    for z in (10**16, -(10**15), 2**60, 10**17 + 1, 2**63 - 1, -12345678901234567890):
        tr = g_tree(rng, 0, 1, True, False, ['NUM'])       # ints without an exact DS string, through the tree path
        tr['t'], tr['val'] = 'NUM', {'num': z, 'isf': False, 'unit': g_code(rng), 'qual': None}
        cases.append({'kind': 'tree', 'tree': tr})
    for mode in POLY_MODES:       # closed contours with collinear / repeated stretches
        for cnt in (6, 7, 9):
            for _ in range(n):
                cases.append({'kind': 'scoord3d', 'gt': 'POLYGON', 'pts': g_poly3(rng, cnt, mode), 'mode': mode})
    for k in range(6):            # the lifted vertex at every position (0 = the closing vertex)
        cases.append({'kind': 'scoord3d', 'gt': 'POLYGON', 'pts': g_poly3(rng, 7, 'off_at', k), 'mode': 'off_at'})
    for mode in ('colstart_off', 'repstart_off', 'off_at', 'collinear_all'):
        for _ in range(n):        # the same families for the other graphic types
            cases.append({'kind': 'scoord3d', 'gt': 'ELLIPSE', 'pts': g_poly3(rng, 4, mode, close=False), 'mode': mode})
            cases.append({'kind': 'scoord3d', 'gt': rng.choice(['POLYLINE', 'MULTIPOINT', 'ELLIPSOID']),
                          'pts': g_poly3(rng, 6, mode, close=False), 'mode': mode})
    for _ in range(40 * n):
        cases.append(g_coplanar(rng))
    for _ in range(60 * n):
        cases.append(g_history(rng))
    # --- 3D contours that almost close: gap kind x distance from the origin x entry point ---
    for _ in range(n):
        for gap in ('ulp', 'rel', 'abs'):
            for mag in (0.0, 1.0, 41.237, 210.5, 1532.25, 2.0**20, 1e6, 123456.789):
                for _ in range(2):
                    cases.append(g_nearclosed(rng, gap, mag))
        for mag in (0.0, 41.237, 1532.25, 2.0**20, 1e6, 987.0):
            cases.append(g_nearclosed(rng, 'negzero', mag))
            cases.append(g_nearclosed(rng, 'closed', mag))
            cases.append(g_nearclosed(rng, 'closed', mag))
        for _ in range(16):
            cases.append(g_nearclosed(rng))
    # --- attributes inside the sequence items of a value: each deleted / sequence emptied / a second item ---
    for _ in range(n):
        for t, seqs in NESTED.items():
            for seq, kws in seqs.items():
                for kw in kws:
                    variants = ['int', 'float', 'big'] if t == 'NUM' else [None]
                    if kw == 'FloatingPointValue':
                        variants = ['float', 'big']
                    for var in variants:
                        for _ in range(2 if kw == 'MeasurementUnitsCodeSequence' else 1):
                            cases.append(g_nested(rng, t, seq, 'del', kw, var))
                for _ in range(2 if t == 'NUM' else 1):
                    cases.append(g_nested(rng, t, seq, 'empty'))
                cases.append(g_nested(rng, t, seq, 'second', rng.choice([None] + kws)))
        for t in VTS:             # the sequence that holds the NAME
            cases.append(g_nested(rng, t, 'ConceptNameCodeSequence', 'empty'))
            if rng.random() < 0.35:
                cases.append(g_nested(rng, t, 'ConceptNameCodeSequence', 'second', rng.choice([None, 'CodeMeaning'])))
    # the model is evaluated in shards of 300 consecutive cases, in parallel: deal the cases out so that the expensive
    # kinds (trees) are spread over all shards instead of filling the first one
    k = -(-len(cases) // 300)
    return [c for i in range(k) for c in cases[i::k]]


# --------------------------------------------------------------------------
# real API
# --------------------------------------------------------------------------
def _hd():
    warnings.filterwarnings('ignore')
    import logging
    logging.disable(logging.CRITICAL)
    common.import_highdicom()
    import highdicom.sr as sr
    import highdicom.sr.value_types as vtm
    return sr, vtm


def _cc(sr, c):
    """The concept as the caller passes it: a pydicom Code or a CodedConcept."""
    if len(c) > 4 and c[4] == 'code':
        from pydicom.sr.coding import Code
        return Code(c[0], c[1], c[2], c[3])
    return sr.CodedConcept(c[0], c[1], c[2], c[3])


def _eq_code(got, c, what):
    """four accessors and == / != against the constructor argument"""
    sr, vtm = _hd()
    from pydicom.sr.coding import Code
    want = list(c[:4])
    if obs_code(got) != want:
        return f'{what}: accessors {obs_code(got)} != constructed {want}'
    for arg in (Code(*c[:4]), sr.CodedConcept(*c[:4])):
        if not (got == arg) or (got != arg) or not (arg == got if isinstance(arg, sr.CodedConcept) else True):
            return f'{what}: {obs_code(got)} compares unequal to the {type(arg).__name__} {want} it was constructed with'
    return True


def eq_check(it, node, where):
    r = _eq_code(it.name, node['name'], f'{where} name of {node["t"]}')
    if r is not True:
        return r
    v = node['val']
    if node['t'] == 'CODE':
        r = _eq_code(it.value, v['code'], f'{where} CODE value')
    elif node['t'] == 'NUM':
        r = _eq_code(it.unit, v['unit'], f'{where} NUM unit')
        if r is True and v['qual'] is not None:
            r = _eq_code(it.qualifier, v['qual'], f'{where} NUM qualifier')
    if r is not True:
        return r
    kids = list(it.ContentSequence) if 'ContentSequence' in it else []
    if len(kids) != len(node['kids']):
        return f'{where}: {len(kids)} children, constructed with {len(node["kids"])}'
    for k, kn in zip(kids, node['kids']):
        r = eq_check(k, kn, where)
        if r is not True:
            return r
    return True


def _eq_paths(it, node):
    sr, vtm = _hd()
    cls = type(it)
    r = eq_check(it, node, 'after construction:')
    if r is not True:
        return r
    for where, mk in (('after from_dataset(plain copy):', lambda: plain(it)), ('after bytes + from_dataset:', lambda: via_bytes(it))):
        try:
            back = cls.from_dataset(mk())
        except Exception:
            continue          # refusals are reported by the other outputs
        r = eq_check(back, node, where)
        if r is not True:
            return r
        if node['rel'] is not None:
            try:
                seq = vtm.ContentSequence.from_sequence([mk()])
            except Exception:
                continue
            r = eq_check(seq[0], node, where.replace('from_dataset', 'from_sequence'))
            if r is not True:
                return r
    return True


def _dt(l):
    tz = dtm.timezone(dtm.timedelta(minutes=l[8])) if l[7] else None
    return dtm.datetime(l[0], l[1], l[2], l[3], l[4], l[5], l[6], tzinfo=tz)


def build(node):
    import numpy as np
    sr, vtm = _hd()
    t, v, rel = node['t'], node['val'], node['rel']
    name = _cc(sr, node['name'])
    if t == 'CODE':
        it = sr.CodeContentItem(name, _cc(sr, v['code']), rel)
    elif t == 'COMPOSITE':
        it = sr.CompositeContentItem(name, v['cls'], v['inst'], rel)
    elif t == 'CONTAINER':
        it = sr.ContainerContentItem(name, is_content_continuous=v['cont'], template_id=v['tmpl'],
                                     relationship_type=rel)
    elif t == 'DATE':
        it = sr.DateContentItem(name, dtm.date(*v['d']), rel)
    elif t == 'TIME':
        it = sr.TimeContentItem(name, dtm.time(*v['d']), rel)
    elif t == 'DATETIME':
        it = sr.DateTimeContentItem(name, _dt(v['d']), rel)
    elif t == 'IMAGE':
        it = sr.ImageContentItem(name, v['cls'], v['inst'], referenced_frame_numbers=v['frames'],
                                 referenced_segment_numbers=v['segs'], relationship_type=rel)
    elif t == 'NUM':
        num = float(v['num']) if v['isf'] else int(v['num'])
        it = sr.NumContentItem(name, num, _cc(sr, v['unit']),
                               qualifier=None if v['qual'] is None else _cc(sr, v['qual']),
                               relationship_type=rel)
    elif t == 'PNAME':
        it = sr.PnameContentItem(name, v['s'], rel)
    elif t == 'TEXT':
        it = sr.TextContentItem(name, v['s'], rel)
    elif t == 'UIDREF':
        it = sr.UIDRefContentItem(name, v['s'], rel)
    elif t == 'SCOORD':
        it = sr.ScoordContentItem(name, v['gt'], _lay(np.array(v['pts'])), pixel_origin_interpretation=v['poi'],
                                  fiducial_uid=v['fid'], relationship_type=rel)
    elif t == 'SCOORD3D':
        it = sr.Scoord3DContentItem(name, v['gt'], _lay(np.array(v['pts'])), v['for'], fiducial_uid=v['fid'],
                                    relationship_type=rel)
    elif t == 'TCOORD':
        kw = {'samples': 'referenced_sample_positions', 'offsets': 'referenced_time_offsets',
              'datetimes': 'referenced_date_time'}[v['w']]
        l = [_dt(x) for x in v['l']] if v['w'] == 'datetimes' else v['l']
        it = sr.TcoordContentItem(name, v['trt'], relationship_type=rel, **{kw: l})
    elif t == 'WAVEFORM':
        it = vtm.WaveformContentItem(name, v['cls'], v['inst'],
                                     referenced_waveform_channels=None if v['ch'] is None else [tuple(p) for p in v['ch']],
                                     relationship_type=rel)
    else:
        raise ValueError(t)
    kids = [build(k) for k in node['kids']]
    if kids:
        it.ContentSequence = vtm.ContentSequence(kids)
    return it


def plain(ds):
    """Deep plain pydicom copy (no highdicom classes anywhere)."""
    from pydicom.dataset import Dataset
    from pydicom.sequence import Sequence
    from pydicom.dataelem import DataElement
    out = Dataset()
    for e in ds:
        if e.VR == 'SQ':
            out.add(DataElement(e.tag, 'SQ', Sequence([plain(i) for i in e.value])))
        else:
            out.add(copy.deepcopy(e))
    return out


def via_bytes(ds):
    import pydicom
    from pydicom.dataset import Dataset
    w = Dataset()
    w.ContentSequence = [plain(ds)]
    b = io.BytesIO()
    pydicom.dcmwrite(b, w, implicit_vr=False, little_endian=True)
    b.seek(0)
    return plain(pydicom.dcmread(b, force=True).ContentSequence[0])


def _fr(x):
    x = float(x)
    return F(x) if x == x and abs(x) != float('inf') else repr(x)


def _temporal(vr, v):
    from pydicom.valuerep import DA, TM, DT
    if vr == 'DA':
        d = v if isinstance(v, dtm.date) else DA(str(v))
        return [d.year, d.month, d.day]
    if vr == 'TM':
        d = v if isinstance(v, dtm.time) else TM(str(v))
        return [d.hour, d.minute, d.second, d.microsecond]
    d = v if isinstance(v, dtm.datetime) else DT(str(v))
    return _dt_fields(d)


def _dt_fields(d):
    off = d.utcoffset()
    return [d.year, d.month, d.day, d.hour, d.minute, d.second, d.microsecond,
            0 if off is None else 1, 0 if off is None else int(off.total_seconds() // 60)]


def ds_tree(ds):
    """pydicom Dataset -> ('set', [(keyword, node)])"""
    from pydicom.multival import MultiValue
    out = []
    for e in ds:
        kw = e.keyword or ('T%08X' % int(e.tag))
        v = e.value
        if e.VR == 'SQ':
            node = ('seq', [ds_tree(i) for i in v])
        else:
            vals = list(v) if isinstance(v, (MultiValue, list, tuple)) else ([] if v is None or (isinstance(v, str) and v == '' and e.VR in ('IS', 'DS', 'DA', 'TM', 'DT')) else [v])
            if e.VR in ('DA', 'TM', 'DT'):
                node = ('temp', [_temporal(e.VR, x) for x in vals])
            elif e.VR in ('IS', 'US', 'UL', 'SL', 'SS', 'UV', 'SV'):
                node = ('ints', [int(x) for x in vals])
            elif e.VR in ('DS', 'FL', 'FD'):
                node = ('nums', [_fr(x) for x in vals])
            else:
                node = ('str', '\\'.join(str(x) for x in vals))
        out.append((kw, node))
    return ('set', out)


def tree_canon(node, mask_ds=False):
    k = node[0]
    if k == 'set':
        d = dict(node[1])
        items = []
        for kw, nd in sorted(node[1], key=lambda p: p[0]):
            if mask_ds and kw == 'NumericValue' and 'FloatingPointValue' in d:
                nd = d['FloatingPointValue']
            items.append([kw, tree_canon(nd, mask_ds)])
        return items
    if k == 'seq':
        return [tree_canon(i, mask_ds) for i in node[1]]
    return node[1]


def _s(s):
    return common.coq_string(s)


def tree_coq(node):
    k = node[0]
    if k == 'set':
        return '(DSet [' + '; '.join(f'({_s(kw)}, {tree_coq(nd)})' for kw, nd in node[1]) + '])'
    if k == 'seq':
        return '(DSeq [' + '; '.join(tree_coq(i) for i in node[1]) + '])'
    if k == 'str':
        return f'(DStr {_s(node[1])})'
    if k == 'ints':
        return f'(DInts {zl(node[1])})'
    if k == 'nums':
        return '(DNums [' + '; '.join(qlit(x) for x in node[1]) + '])'
    if k == 'temp':
        return '(DTemp [' + '; '.join(zl(x) for x in node[1]) + '])'
    raise ValueError(k)


def obs_code(c):
    return [str(c.value), str(c.scheme_designator), str(c.meaning),
            None if c.scheme_version is None else str(c.scheme_version)]


def _rows(a):
    return [[_fr(x) for x in r] for r in a.tolist()]


def obs_value(it):
    from pydicom.valuerep import DT
    n = type(it).__name__
    if n == 'CodeContentItem':
        return obs_code(it.value)
    if n == 'CompositeContentItem':
        a, b = it.value
        assert str(it.referenced_sop_class_uid) == str(a) and str(it.referenced_sop_instance_uid) == str(b)
        return [str(a), str(b)]
    if n == 'ContainerContentItem':
        return [str(it.ContinuityOfContent), it.template_id]
    if n == 'DateContentItem':
        d = it.value
        return [d.year, d.month, d.day]
    if n == 'TimeContentItem':
        d = it.value
        return [d.hour, d.minute, d.second, d.microsecond]
    if n == 'DateTimeContentItem':
        return _dt_fields(it.value)
    if n == 'ImageContentItem':
        a, b = it.value
        return [str(a), str(b), it.referenced_frame_numbers, it.referenced_segment_numbers]
    if n == 'NumContentItem':
        q = it.qualifier
        return [_fr(it.value), hasattr(it.MeasuredValueSequence[0], 'FloatingPointValue'), obs_code(it.unit),
                None if q is None else obs_code(q)]
    if n in ('PnameContentItem', 'TextContentItem', 'UIDRefContentItem'):
        return str(it.value)
    if n == 'ScoordContentItem':
        return [it.graphic_type.value, _rows(it.value), it.get('PixelOriginInterpretation'),
                None if 'FiducialUID' not in it else str(it.FiducialUID)]
    if n == 'Scoord3DContentItem':
        return [it.graphic_type.value, _rows(it.value), str(it.frame_of_reference_uid),
                None if 'FiducialUID' not in it else str(it.FiducialUID)]
    if n == 'TcoordContentItem':
        val = it.value
        if not isinstance(val, list) and not hasattr(val, '__iter__'):
            val = ['SCALAR', val]
        val = list(val)
        if 'ReferencedSamplePositions' in it:
            r = ['samples', [x if isinstance(x, int) else repr(x) for x in val]]
        elif 'ReferencedTimeOffsets' in it:
            r = ['offsets', [_fr(x) if isinstance(x, (int, float)) else 'not-a-number: ' + repr(x) for x in val]]
        else:
            r = ['datetimes', [_dt_fields(x) if isinstance(x, dtm.datetime) else ['not-a-datetime', repr(x)]
                               for x in val]]
        return [it.temporal_range_type.value, r]
    if n == 'WaveformContentItem':
        a, b = it.value
        ch = it.referenced_waveform_channels
        return [str(a), str(b), None if ch is None else [list(p) for p in ch]]
    raise ValueError(n)


def obs_item(it):
    rel = it.relationship_type
    kids = [obs_item(k) for k in it.ContentSequence] if 'ContentSequence' in it else []
    return [type(it).__name__, obs_code(it.name), None if rel is None else rel.value, obs_value(it), kids]


def _cls(vtm, sr, name):
    return getattr(vtm, name)


def _touch(it):
    """use every coded concept of a parsed item the way ContentSequence and callers do: ==, !=, hash"""
    cs = [it.name]
    n = type(it).__name__
    if n == 'CodeContentItem':
        cs.append(it.value)
    if n == 'NumContentItem':
        cs += [it.unit] + ([] if it.qualifier is None else [it.qualifier])
    for cc in cs:
        assert cc == cc and not (cc != cc), 'coded concept unequal to itself'
        hash(cc)
    for k in (it.ContentSequence if 'ContentSequence' in it else []):
        _touch(k)


def _parse_own(cls_name, ds, touch=False):
    sr, vtm = _hd()
    it = getattr(vtm, cls_name).from_dataset(ds)
    o = obs_item(it)
    if touch:
        _touch(it)
    return o


def _parse_seq(ds_list, touch=False):
    sr, vtm = _hd()
    seq = vtm.ContentSequence.from_sequence(ds_list)
    o = [obs_item(i) for i in seq]
    if touch:
        for i in seq:
            _touch(i)
    return o


def _status_own(cls_name, ds):
    """outcome of X.from_dataset alone (no accessor read)"""
    sr, vtm = _hd()
    getattr(vtm, cls_name).from_dataset(ds)
    return 'ok'


def _status_seq(ds_list):
    sr, vtm = _hd()
    vtm.ContentSequence.from_sequence(ds_list)
    return 'ok'


def mutate(c, ds):
    """Apply the single fault of a 'malformed' case to the plain dataset."""
    import random
    from pydicom.dataset import Dataset
    from pydicom.sequence import Sequence
    r = random.Random(c['r'])
    node = ds
    spec = c['tree']
    for i in c['path']:
        node = node.ContentSequence[i]
        spec = spec['kids'][i]
    op = c['op']
    info = {'op': op, 'vt': spec['t'], 'depth': len(c['path']), 'cls': CLASS[c['tree']['t']]}
    if op == 'del_kw':
        kw = c['kw']
        del node[kw]
        info['kw'] = kw
        info['op'] = ('del_required' if kw in REQUIRED[spec['t']] + ['ValueType'] else
                      'del_name' if kw == 'ConceptNameCodeSequence' else 'rel_del')
    elif op == 'del_required':
        kw = r.choice(REQUIRED[spec['t']] + ['ValueType'])
        del node[kw]
        info['kw'] = kw
    elif op == 'del_any':
        kws = [e.keyword for e in node if e.keyword != 'ContentSequence']
        kw = r.choice(kws)
        del node[kw]
        info['kw'] = kw
    elif op == 'del_nested':
        seqs = [e for e in node if e.VR == 'SQ' and e.keyword != 'ContentSequence' and len(e.value)]
        e = r.choice(seqs)
        inner = e.value[0]
        kw = r.choice([x.keyword for x in inner])
        del inner[kw]
        info['kw'] = e.keyword + '/' + kw
    elif op == 'vt_other':
        node.ValueType = c.get('to') or r.choice([t for t in VTS if t != spec['t']])
        info['to'] = node.ValueType
    elif op == 'vt_unknown':
        node.ValueType = r.choice(['FOO', 'code', 'TABLE', 'NUMERIC'])
    elif op == 'wrong_class':
        info['cls'] = CLASS[c.get('to') or r.choice([t for t in VTS if t != c['tree']['t']])]
    elif op == 'rel_del':
        if 'RelationshipType' in node:
            del node['RelationshipType']
    elif op == 'rel_bad':
        node.RelationshipType = r.choice(['BOGUS', 'contains', 'HAS_PROPERTIES'])
    elif op == 'empty_seq':
        seqs = [e for e in node if e.VR == 'SQ']
        e = r.choice(seqs)
        e.value = Sequence([])
        info['kw'] = e.keyword
    elif op == 'two_code_values':
        cn = node.ConceptNameCodeSequence[0]
        if 'LongCodeValue' in cn:
            cn.CodeValue = 'X1'
        else:
            cn.LongCodeValue = 'L' * 17
    elif op == 'odd_graphic':
        if 'GraphicData' in node:
            node.GraphicData = list(node.GraphicData)[:-1]
        else:
            info['op'] = 'none'
    elif op == 'bad_enum':
        if 'GraphicType' in node:
            node.GraphicType = 'BLOB'
        elif 'TemporalRangeType' in node:
            node.TemporalRangeType = 'NEVER'
        else:
            info['op'] = 'none'
    return info


def _mal_inputs(c):
    ds = plain(build(c['tree']))
    info = mutate(c, ds)
    more = []
    for f in c.get('more', []):
        try:                   # a fault whose node an earlier fault removed is skipped
            more.append(mutate(dict(f, tree=c['tree']), ds))
        except (AttributeError, IndexError, KeyError):
            pass
    if c.get('more') is not None:
        info['more'] = more
    return ds, info


def run_impl(c):
    import numpy as np
    sr, vtm = _hd()
    k = c['kind']
    if k in ('tree', 'falsy'):
        def f():
            return build(c['tree'])
        it = catch(f)
        if isinstance(it, Err):
            return it
        cls = type(it).__name__
        p = plain(it)
        out = [catch(obs_item, it), tree_canon(ds_tree(p)),
               catch(_parse_own, cls, plain(it)), catch(_parse_seq, [plain(it)])]
        b = via_bytes(it)
        out += [tree_canon(ds_tree(b), mask_ds=True), catch(_parse_seq, [plain(b)]),
                catch(_parse_own, cls, plain(b))]
        eq = catch(_eq_paths, it, c['tree'])
        out.append(eq if eq is True else (f'raised {eq}' if isinstance(eq, Err) else eq))
        return out
    if k == 'code':
        def f():
            cc = _cc(sr, c['code'][:4])
            kw = [x for x in ('CodeValue', 'LongCodeValue', 'URNCodeValue') if x in cc]
            back = catch(lambda: obs_code(sr.CodedConcept.from_dataset(plain(cc))))
            assert obs_code(cc) == back, (obs_code(cc), back)
            from pydicom.sr.coding import Code
            fc = sr.CodedConcept.from_code(Code(*c['code'][:4]))
            assert sr.CodedConcept.from_code(fc) is fc
            return [kw[0] if len(kw) == 1 else repr(kw), tree_canon(ds_tree(plain(cc))), back, obs_code(fc)]
        return catch(f)
    if k == 'code_from':
        def f():
            from pydicom.dataset import Dataset
            from pydicom.sr.coding import Code
            ds = _code_ds(c)
            cc = sr.CodedConcept.from_dataset(ds)
            assert type(ds) is Dataset and ds == _code_ds(c), 'from_dataset(copy=True) changed its argument'
            o = obs_code(cc)
            # an accepted concept must be usable: ==, !=, hash (name look-up of ContentSequence), comparison with a Code
            assert cc == cc and not (cc != cc) and hash(cc) == hash(sr.CodedConcept.from_dataset(ds))
            assert cc == Code(*o), o
            return o
        return [catch(lambda: sr.CodedConcept.from_dataset(_code_ds(c)) is None or 'ok'), catch(f)]
    if k == 'concept':
        ds = catch(_concept_inputs, c)
        if isinstance(ds, Err):
            return ds
        cls = CLASS[c['tree']['t']]
        return [catch(_status_own, cls, plain(ds)), catch(_parse_own, cls, plain(ds), True),
                catch(_status_seq, [plain(ds)]), catch(_parse_seq, [plain(ds)], True)]
    if k == 'scoord':
        n = _cc(sr, ['1', '99X', 'n', None])
        return catch(lambda: bool(sr.ScoordContentItem(n, c['gt'], _lay(np.array(c['pts'], dtype=float).reshape(len(c['pts']), c['dim'])),
                                                        relationship_type='CONTAINS')) or True)
    if k == 'scoord3d':
        n = _cc(sr, ['1', '99X', 'n', None])
        dim = 2 if c['mode'] == 'dim2' else 3
        return catch(lambda: bool(sr.Scoord3DContentItem(n, c['gt'], _lay(np.array(c['pts'], dtype=float).reshape(len(c['pts']), dim)),
                                                          '1.2.3', relationship_type='CONTAINS')) or True)
    if k == 'nearclosed':
        return catch(_nearclosed_impl, c)
    if k == 'nested':
        ds = catch(_nested_inputs, c)
        if isinstance(ds, Err):
            return ds
        cls = CLASS[c['tree']['t']]
        return [catch(_status_own, cls, plain(ds)), catch(_parse_own, cls, plain(ds), True),
                catch(_status_seq, [plain(ds)]), catch(_parse_seq, [plain(ds)], True)]
    if k == 'malformed':
        r = catch(_mal_inputs, c)
        if isinstance(r, Err):
            return r
        ds, info = r
        return [catch(_status_own, info['cls'], plain(ds)), catch(_parse_own, info['cls'], plain(ds)),
                catch(_status_seq, [plain(ds)]), catch(_parse_seq, [plain(ds)])]
    if k == 'seqmode':
        items = catch(lambda: [build(t) for t in c['items']])
        if isinstance(items, Err):
            return items
        st = catch(lambda: vtm.ContentSequence(items, is_root=c['root'], is_sr=c['sr']) is None or 'ok')
        ob = catch(lambda: [obs_item(i) for i in vtm.ContentSequence.from_sequence(
            [plain(i) for i in items], is_root=c['root'], is_sr=c['sr'])])
        return [st, ob]
    if k == 'seqops':
        return catch(_seqops_impl, c)
    if k == 'history':
        return catch(_history_impl, c)
    if k == 'coplanar':
        from highdicom.spatial import are_points_coplanar
        d = len(c['pts'][0]) if c['pts'] else 3
        return catch(lambda: bool(are_points_coplanar(_lay(np.array(c['pts'], dtype=float).reshape(len(c['pts']), d)))))
    if k == 'num_int':
        def f():
            z = c['z']
            it = sr.NumContentItem(_cc(sr, ['1', '99X', 'n', None]), z, _cc(sr, ['mm', 'UCUM', 'mm', None]), relationship_type='CONTAINS')
            mv = it.MeasuredValueSequence[0]
            exact = str(mv.NumericValue) == str(z)
            back = sr.NumContentItem.from_dataset(via_bytes(it))
            assert ('FloatingPointValue' in back.MeasuredValueSequence[0]) == ('FloatingPointValue' in mv)
            assert F(it.value) == F(back.value) == F(float(z)), (it.value, back.value)
            return [exact, 'FloatingPointValue' in mv, F(it.value) == z and F(back.value) == z]
        return catch(f)
    if k == 'subclass':
        import highdicom.sr.content as cm
        ds = catch(_sub_ds, c)
        if isinstance(ds, Err):
            return ds

        def f():
            it = getattr(cm, c['sub']).from_dataset(ds)
            assert type(it).__name__ == c['sub'], type(it).__name__
            return 'ok'
        return catch(f)
    raise ValueError(k)


def _nearclosed_impl(c):
    """the contour given as POLYGON to one of the constructors that take 3D graphic data; True = accepted (and the item
    reports exactly these rows, also after bytes)"""
    import numpy as np
    sr, vtm = _hd()
    import highdicom.sr.content as cm
    want = np.array(c['pts'], dtype=float)
    arr = _lay(want.copy())
    via = c['via']
    if via == 'item':
        it = sr.Scoord3DContentItem(_cc(sr, ['1', '99X', 'n', None]), 'POLYGON', arr, '1.2.3', relationship_type='CONTAINS')
    elif via == 'region3d':
        it = cm.ImageRegion3D('POLYGON', arr, '1.2.3')
    elif via == 'coords3d':
        it = cm.CoordinatesForMeasurement3D('POLYGON', arr, '1.2.3')
    elif via == 'surface':
        first = np.array([[0.0, 0.0, 0.0], [1.0, 0.0, 0.0], [0.0, 1.0, 0.0], [0.0, 0.0, 0.0]])
        it = cm.VolumeSurface('POLYGON', [first, arr], '1.2.3', source_series=cm.SourceSeriesForSegmentation('1.2.4'))[1]
    else:
        raise RuntimeError(via)
    back = vtm.Scoord3DContentItem.from_dataset(via_bytes(it))
    # Graphic Data has VR FL: a file keeps the nearest single-precision numbers
    for what, v, w in (('constructed', it.value, want), ('parsed', back.value, want.astype(np.float32).astype(float))):
        if not np.array_equal(v, w):
            return f'{what} item reports {v.tolist()}'
    return True


def _seqops_impl(c):
    sr, vtm = _hd()
    s = vtm.ContentSequence([build(t) for t in c['init']], is_root=c['root'], is_sr=c['sr'])
    st = []
    for op in c['ops']:
        def f():
            o = op[0]
            if o == 'append':
                s.append(build(op[1]))
            elif o == 'insert':
                s.insert(op[1], build(op[2]))
            elif o == 'set':
                s[op[1]] = build(op[2])
            elif o == 'del':
                del s[op[1]]
            elif o == 'extend':
                s.extend([build(t) for t in op[1]])
            elif o == 'iadd':
                s2 = s
                s2 += [build(t) for t in op[1]]
                assert s2 is s
            elif o == 'setslice':
                s[op[1]:op[2]] = [build(t) for t in op[3]]
            elif o == 'delslice':
                del s[op[1]:op[2]]
            else:
                raise RuntimeError(o)
            return 'ok'
        st.append(catch(f))
    return [st, [obs_item(i) for i in s],
            [catch(lambda: [obs_item(i) for i in s.find(_cc(sr, n))]) for n in c['names']],
            catch(lambda: [obs_item(i) for i in s.get_nodes()]),
            [[catch(lambda: int(s.index(build(p)))), build(p) in s] for p in c['probes']]]


def _scribble(a, how, k):
    """what a caller may do to an array it owns: change it in place"""
    import numpy as np
    if how == 'add':
        a += k
    elif how == 'mul':
        a *= k
    elif how == 'zero':
        a[:] = 0
    elif how == 'round':
        np.round(a / 3, out=a)
    elif how == 'rev':
        a[:] = a[::-1].copy()
    else:
        a.fill(k)


def _history_impl(c):
    import numpy as np
    sr, vtm = _hd()
    dim = c['dim']
    arr = _lay(np.array(c['pts'], dtype=float))
    name = _cc(sr, ['1', '99X', 'n', None])
    if dim == 2:
        it = sr.ScoordContentItem(name, c['gt'], arr, relationship_type='CONTAINS')
    else:
        it = sr.Scoord3DContentItem(name, c['gt'], arr, '1.2.3', relationship_type='CONTAINS')
    cls = type(it)
    src = None
    if c['src'] != 'ctor':
        src = via_bytes(it) if c['src'] == 'bytes' else plain(it)
        it = vtm.ContentSequence.from_sequence([src])[0] if c['src'] == 'seq' else cls.from_dataset(src)
        assert type(it) is cls, type(it)
    held, obs = [], []

    def read(x):
        v = x.value
        assert v.ndim == 2 and v.shape[1] == dim, v.shape
        return v
    for op in c['ops']:
        o = op[0]
        if o == 'read':
            def f():
                v = read(it)
                held.append(v)
                return _rows(v)
            obs.append(catch(f))
        elif o == 'scribble':
            tgt = op[1]
            if tgt in ('last', 'first'):
                if not held:
                    r = catch(read, it)            # an unobserved read
                    if isinstance(r, Err):
                        continue
                    held.append(r)
                _scribble(held[-1] if tgt == 'last' else held[0], op[2], op[3])
            elif tgt == 'source' and src is not None:
                src.GraphicData[0] = 12345.0
                src.GraphicData[-1] = -1.0
            else:
                _scribble(arr, op[2], op[3])
        elif o == 'edit':
            obs.append(catch(lambda: it.GraphicData.__setitem__(op[1], op[2]) or 'ok'))
        elif o == 'assign':
            it.GraphicData = list(op[1])
        elif o == 'roundtrip':
            def f():
                return cls.from_dataset(via_bytes(it))
            back = catch(f)
            if isinstance(back, Err):
                obs += [back, back]
                continue

            def g():
                return read(back)
            v = catch(g)
            obs.append(v if isinstance(v, Err) else _rows(v))
            if not isinstance(v, Err):
                v += 1000.0
                v[:] = 0
            w = catch(g)
            obs.append(w if isinstance(w, Err) else _rows(w))
        else:
            raise RuntimeError(o)
    return [obs, [_fr(x) for x in it.GraphicData]]


def _code_ds(c):
    from pydicom.dataset import Dataset
    d = Dataset()
    for kw in c['kws']:
        v = c.get('vs', c['v'])         # any string in Long / URN Code Value; Code Value (SH) holds <= 16 characters
        setattr(d, kw, (v[:15] if kw == 'CodeValue' else v) + kw[:1])
    if c['meaning']:
        d.CodeMeaning = 'meaning'
    if c['scheme']:
        d.CodingSchemeDesignator = '99X'
    if c['version']:
        d.CodingSchemeVersion = '1.1'
    return d


# --------------------------------------------------------------------------
# model terms
# --------------------------------------------------------------------------
def q_code(c):
    ver = 'None' if c[3] is None else f'(Some {_s(c[3])})'
    return f'(Code {_s(c[0])} {_s(c[1])} {_s(c[2])} {ver})'


def _ostr(x):
    return 'None' if x is None else f'(Some {_s(x)})'


def _qrows(pts):
    return '[' + '; '.join('[' + '; '.join(qlit(F(float(x)) if isinstance(x, float) else F(x)) for x in r) + ']' for r in pts) + ']'


def _ilist(x):
    if x is None:
        return 'None'
    if isinstance(x, int):
        x = [x]
    return f'(Some {zl(x)})'


def q_value(t, v):
    if t == 'CODE':
        return f'(VCode {q_code(v["code"])})'
    if t == 'COMPOSITE':
        return f'(VComposite {_s(v["cls"])} {_s(v["inst"])})'
    if t == 'CONTAINER':
        return f'(VContainer {_s("CONTINUOUS" if v["cont"] else "SEPARATE")} {_ostr(v["tmpl"])})'
    if t == 'DATE':
        return f'(VDate {zl(v["d"])})'
    if t == 'TIME':
        return f'(VTime {zl(v["d"])})'
    if t == 'DATETIME':
        return f'(VDateTime {zl(v["d"])})'
    if t == 'IMAGE':
        return f'(VImage {_s(v["cls"])} {_s(v["inst"])} {_ilist(v["frames"])} {_ilist(v["segs"])})'
    if t == 'NUM':
        # an int of more than 16 characters is kept as float(int) in FloatingPointValue as well (num_of_int; the
        # number any accessor can report is the double nearest to it - float rounding is a premise, not modelled)
        fl = v['isf'] or len(str(int(v['num']))) > 16
        q = F(float(v['num'])) if fl else F(int(v['num']))
        qual = 'None' if v['qual'] is None else f'(Some {q_code(v["qual"])})'
        return f'(VNum {qlit(q)} {"true" if fl else "false"} {q_code(v["unit"])} {qual})'
    if t == 'PNAME':
        return f'(VPname {_s(v["s"])})'
    if t == 'TEXT':
        return f'(VText {_s(v["s"])})'
    if t == 'UIDREF':
        return f'(VUidref {_s(v["s"])})'
    if t == 'SCOORD':
        return f'(VScoord {G2[v["gt"]]} {_qrows(v["pts"])} {_ostr(v["poi"])} {_ostr(v["fid"])})'
    if t == 'SCOORD3D':
        return f'(VScoord3d {G3[v["gt"]]} {_qrows(v["pts"])} {_s(v["for"])} {_ostr(v["fid"])})'
    if t == 'TCOORD':
        if v['w'] == 'samples':
            r = f'(TSamples {zl(v["l"])})'
        elif v['w'] == 'offsets':
            r = '(TOffsets [' + '; '.join(qlit(F(float(x))) for x in v['l']) + '])'
        else:
            r = '(TDateTimes [' + '; '.join(zl(x) for x in v['l']) + '])'
        return f'(VTcoord {TRT[v["trt"]]} {r})'
    if t == 'WAVEFORM':
        ch = 'None' if v['ch'] is None else '(Some [' + '; '.join(f'({zlit(a)}, {zlit(b)})' for a, b in v['ch']) + '])'
        return f'(VWaveform {_s(v["cls"])} {_s(v["inst"])} {ch})'
    raise ValueError(t)


def q_item(n):
    rel = 'None' if n['rel'] is None else f'(Some {REL_CTOR[n["rel"]]})'
    kids = '[' + '; '.join(q_item(k) for k in n['kids']) + ']'
    return f'(Item {CLASS[n["t"]]} {q_code(n["name"])} {rel} {q_value(n["t"], n["val"])} {kids})'


def coq_term(c):
    k = c['kind']
    if k in ('tree', 'falsy'):
        return f'(run_tree {q_item(c["tree"])})'
    if k == 'coplanar':
        return f'(run_coplanar {_qrows(c["pts"])})'
    if k == 'history':
        ops = []
        for op in c['ops']:
            o = op[0]
            if o == 'edit':
                ops.append(f'HEdit {zlit(op[1])} {qlit(F(float(op[2])))}')
            elif o == 'assign':
                ops.append('HAssign [' + '; '.join(qlit(F(float(x))) for x in op[1]) + ']')
            else:
                ops.append({'read': 'HRead', 'scribble': 'HScribble', 'roundtrip': 'HRoundTrip'}[o])
        return f'(run_hist {c["dim"]} {_qrows(c["pts"])} [' + '; '.join(ops) + '])'
    if k == 'code':
        return f'(run_code {q_code(c["code"])})'
    if k == 'code_from':
        common.import_highdicom()
        return f'(run_code_from {tree_coq(ds_tree(_code_ds(c)))})'
    if k == 'scoord':
        return f'(run_scoord {G2[c["gt"]]} {_qrows(c["pts"])})'
    if k == 'scoord3d':
        return f'(run_scoord3d {G3[c["gt"]]} {_qrows(c["pts"])})'
    if k == 'nearclosed':     # every entry point hands the rows to Scoord3DContentItem.__init__: the same verdict
        return f'(run_scoord3d G3Polygon {_qrows(c["pts"])})'
    if k == 'nested':
        _hd()
        ds = catch(_nested_inputs, c)
        if isinstance(ds, Err):
            return None
        return f'(run_parse {CLASS[c["tree"]["t"]]} {tree_coq(ds_tree(ds))})'
    if k == 'concept':
        _hd()
        ds = catch(_concept_inputs, c)
        if isinstance(ds, Err):
            return None
        return f'(run_parse {CLASS[c["tree"]["t"]]} {tree_coq(ds_tree(ds))})'
    if k == 'malformed':
        _hd()
        r = catch(_mal_inputs, c)
        if isinstance(r, Err):
            return None
        ds, info = r
        fn = 'run_parse2' if 'more' in info else 'run_parse'
        return f'({fn} {info["cls"]} {tree_coq(ds_tree(ds))})'
    b = lambda x: 'true' if x else 'false'
    ql = lambda l: '[' + '; '.join(q_item(t) for t in l) + ']'
    if k == 'seqmode':
        return f'(run_seqmode {b(c["root"])} {b(c["sr"])} {ql(c["items"])})'
    if k == 'num_int':
        return f'(run_num_int {zlit(c["z"])})'
    if k == 'subclass':
        _hd()
        ds = catch(_sub_ds, c)
        if isinstance(ds, Err):
            return None
        parent, asserts = sub_table()[c['sub']]
        return f'(run_sub {b(asserts)} {parent} {tree_coq(ds_tree(ds))})'
    if k == 'seqops':
        ops = []
        for op in c['ops']:
            o = op[0]
            if o == 'append':
                ops.append(f'OAppend {q_item(op[1])}')
            elif o == 'insert':
                ops.append(f'OInsert {zlit(op[1])} {q_item(op[2])}')
            elif o == 'set':
                ops.append(f'OSet {zlit(op[1])} {q_item(op[2])}')
            elif o == 'del':
                ops.append(f'ODel {zlit(op[1])}')
            elif o in ('extend', 'iadd'):
                ops.append(f'OExtend {ql(op[1])}')
            elif o == 'setslice':
                ops.append(f'OSetSlice {zlit(op[1])} {zlit(op[2])} {ql(op[3])}')
            else:
                ops.append(f'ODelSlice {zlit(op[1])} {zlit(op[2])}')
        return (f'(run_seqops {b(c["root"])} {b(c["sr"])} {ql(c["init"])} [' + '; '.join(ops) + '] ['
                + '; '.join(q_code(n) for n in c['names']) + f'] {ql(c["probes"])})')
    raise ValueError(k)


# --------------------------------------------------------------------------
# independent oracle: the property, from the case description alone
# --------------------------------------------------------------------------
def exp_value(t, v):
    if t == 'CODE':
        return list(v['code'][:4])
    if t == 'COMPOSITE':
        return [v['cls'], v['inst']]
    if t == 'CONTAINER':
        return ['CONTINUOUS' if v['cont'] else 'SEPARATE', v['tmpl']]
    if t in ('DATE', 'TIME', 'DATETIME'):
        return list(v['d'])
    if t == 'IMAGE':
        nl = lambda x: None if x is None else ([x] if isinstance(x, int) else list(x))
        return [v['cls'], v['inst'], nl(v['frames']), nl(v['segs'])]
    if t == 'NUM':
        if not v['isf'] and not -10**15 < int(v['num']) < 10**16:      # no exact DS: must survive as a double
            return [F(float(int(v['num']))), True, list(v['unit'][:4]), None if v['qual'] is None else list(v['qual'][:4])]
        return [F(v['num']) if v['isf'] else F(int(v['num'])), bool(v['isf']), list(v['unit'][:4]),
                None if v['qual'] is None else list(v['qual'][:4])]
    if t in ('PNAME', 'TEXT', 'UIDREF'):
        return v['s']
    if t == 'SCOORD':
        return [v['gt'], [[F(x) for x in r] for r in v['pts']], v['poi'], v['fid']]
    if t == 'SCOORD3D':
        return [v['gt'], [[F(x) for x in r] for r in v['pts']], v['for'], v['fid']]
    if t == 'TCOORD':
        l = [F(x) for x in v['l']] if v['w'] == 'offsets' else [list(x) if isinstance(x, list) else x for x in v['l']]
        return [v['trt'], [v['w'], l]]
    if t == 'WAVEFORM':
        return [v['cls'], v['inst'], None if v['ch'] is None else [list(p) for p in v['ch']]]
    raise ValueError(t)


def exp_item(n):
    return [CLASS[n['t']], list(n['name'][:4]), n['rel'], exp_value(n['t'], n['val']), [exp_item(k) for k in n['kids']]]


def _tree_invalid(n, top=True):
    """Why the standard / constructor must refuse this tree (None = admissible)."""
    if len(n['name'][2]) > 64:
        return 'meaning > 64'
    if not top and n['rel'] is None:
        return 'child without relationship'
    v = n['val']
    if n['t'] == 'SCOORD':
        want = {'POINT': 1, 'CIRCLE': 2, 'ELLIPSE': 4}.get(v['gt'])
        if (want is not None and len(v['pts']) != want) or len(v['pts']) < (want or 2):
            return 'count'
    for k in n['kids']:
        r = _tree_invalid(k, False)
        if r:
            return r
    return None


def _first_diff(a, b, path='obs'):
    if isinstance(a, list) and isinstance(b, list):
        if len(a) != len(b):
            return f'{path}: length {len(a)} vs {len(b)}'
        for i, (x, y) in enumerate(zip(a, b)):
            d = _first_diff(x, y, f'{path}[{i}]')
            if d:
                return d
        return None
    if type(a) is bool or type(b) is bool:
        return None if a is b else f'{path}: {a!r} vs {b!r}'
    if a != b:
        return f'{path}: {a!r} vs {b!r}'
    return None


def _rank_coplanar(pts):
    """exact: rank of difference vectors <= 2 (fraction Gaussian elimination)."""
    rows = [[F(x) - F(y) for x, y in zip(p, pts[0])] for p in pts[1:]]
    rank = 0
    for col in range(3):
        piv = next((r for r in range(rank, len(rows)) if rows[r][col] != 0), None)
        if piv is None:
            continue
        rows[rank], rows[piv] = rows[piv], rows[rank]
        for r in range(len(rows)):
            if r != rank and rows[r][col] != 0:
                f = rows[r][col] / rows[rank][col]
                rows[r] = [a - f * b for a, b in zip(rows[r], rows[rank])]
        rank += 1
    return rank <= 2


def _plane_dev(pts):
    """largest distance from the least-squares plane, from the eigenvectors of the 3 x 3 scatter matrix (not the
    code's SVD of the point matrix); only used to set aside near-tolerance inputs"""
    import numpy as np
    a = np.array(pts, dtype=float)
    a = a - a.mean(axis=0)
    _, vec = np.linalg.eigh(a.T @ a)
    return float(np.abs(a @ vec[:, 0]).max())


def _coplanar_verdict(pts):
    """True / False by the exact rank; None when the float test of the code cannot be held to it (tolerance 1e-5)"""
    if len(pts) < 4:
        return True
    exact = _rank_coplanar(pts)
    dev = _plane_dev(pts)
    if (exact and dev > 1e-7) or (not exact and dev < 1e-3):
        return None
    return exact


def _history_reference(c):
    """the property on a history: every read shows the GraphicData of that moment, which only edits and assignments
    of GraphicData change - never what callers do to arrays they were given or gave"""
    dim = c['dim']
    state = [F(x) for r in c['pts'] for x in r]

    def rows():
        if len(state) % dim:
            return Err('ValueError')
        return [state[i:i + dim] for i in range(0, len(state), dim)]
    obs = []
    for op in c['ops']:
        o = op[0]
        if o == 'read':
            obs.append(rows())
        elif o == 'roundtrip':
            obs += [rows(), rows()]
        elif o == 'edit':
            if -len(state) <= op[1] < len(state):
                state[op[1]] = F(op[2])
                obs.append('ok')
            else:
                obs.append(Err('IndexError'))
        elif o == 'assign':
            state = [F(x) for x in op[1]]
    return [obs, state]


def oracle(c, out):
    k = c['kind']
    if k == 'history':
        if isinstance(out, Err):
            return f'history on an admissible item raised {out}'
        want = _history_reference(c)
        if out == want:
            return None
        labels = []
        for op in c['ops']:
            labels += {'read': ['value'], 'roundtrip': ['value of the serialised+parsed copy', 'the same after the caller '
                       'changed the array it got'], 'edit': [f'GraphicData[{op[1]}] = {op[2]}' if len(op) > 2 else '']}.get(op[0], [])
        for i, (g, w) in enumerate(zip(out[0], want[0])):
            if g != w:
                before = [o[0] + ('(' + o[1] + ')' if o[0] == 'scribble' else '') for o in c['ops']]
                return (f'{CLASS["SCOORD" if c["dim"] == 2 else "SCOORD3D"]} ({c["src"]}), calls {before}: observation {i} '
                        f'({labels[i] if i < len(labels) else "?"}) is {_short(g)}, GraphicData holds {_short(w)} - '
                        f'the item does not report its own coordinates')
        return f'history: {_first_diff(out, want, "obs")}'
    if k == 'coplanar':
        if any(len(r) != 3 for r in c['pts']):
            return None if out == Err('ValueError') else f'are_points_coplanar on n x {len(c["pts"][0])} input: {out}'
        want = _coplanar_verdict(c['pts'])
        if want is None:
            return None
        return None if out is want else (f'are_points_coplanar({c["pts"]}) = {out}; the points '
                                          f'{"lie" if want else "do not lie"} in one plane')
    if k in ('tree', 'falsy'):
        bad = _tree_invalid(c['tree'])
        if bad:
            return None if isinstance(out, Err) else f'inadmissible tree accepted ({bad})'
        if isinstance(out, Err):
            return f'admissible tree refused by the constructors: {out}'
        built, ds_plain, own, seq, ds_bytes, seq_b, own_b, eq = out
        exp = exp_item(c['tree'])
        if isinstance(built, Err):
            return f'accessors of the constructed item raised {built}'
        d = _first_diff(built, exp, 'accessors after construction')
        if d:
            return d
        for nm, o in (('from_dataset(plain copy)', own), ('from_dataset(after bytes)', own_b)):
            if isinstance(o, Err):
                return f'{nm} refused: {o}'
            d = _first_diff(o, exp, nm)
            if d:
                return d
        for nm, o in (('from_sequence(plain copy)', seq), ('from_sequence(after bytes)', seq_b)):
            if c['tree']['rel'] is None:
                if not isinstance(o, Err):
                    return f'{nm}: item without relationship type accepted in an SR content sequence'
                continue
            if isinstance(o, Err):
                return f'{nm} refused: {o}'
            d = _first_diff(o, [exp], nm)
            if d:
                return d
        d = _first_diff(ds_bytes, ds_plain, 'dataset after bytes')
        if d:
            return d
        if eq is not True:
            return f'coded concept equality: {eq}'
        return None
    if k == 'code':
        v, s, m, ver = c['code'][:4]
        if len(m) > 64:
            return None if isinstance(out, Err) else 'meaning of more than 64 characters accepted'
        if isinstance(out, Err):
            return f'valid code refused: {out}'
        want = 'URNCodeValue' if (v.startswith('urn') or '://' in v) else ('LongCodeValue' if len(v) > 16 else 'CodeValue')
        if out[0] != want:
            return f'code value {v!r} stored in {out[0]}, expected {want}'
        if out[2] != [v, s, m, ver]:
            return f'code read back as {out[2]}'
        if out[3] != [v, s, m, ver]:
            return f'CodedConcept.from_code(Code{(v, s, m, ver)}) reports {out[3]}'
        return None
    if k == 'code_from':
        if isinstance(out, Err):
            return f'code_from: {out}'
        st, ob = out
        ok = len(c['kws']) == 1 and c['meaning'] and c['scheme']
        if ok:
            want = [str(_code_ds(c)[c['kws'][0]].value), '99X', 'meaning', '1.1' if c['version'] else None]
            if st != 'ok':
                return f'complete coded concept ({c["kws"][0]}) refused by CodedConcept.from_dataset: {st}'
            return None if ob == want else f'coded concept parsed as {ob}, expected {want}'
        missing = ([] if len(c['kws']) == 1 else [f'{len(c["kws"])} code value attributes {c["kws"]}']) + \
            ([] if c['meaning'] else ['no CodeMeaning']) + ([] if c['scheme'] else ['no CodingSchemeDesignator'])
        if st != Err('AttributeError'):
            return (f'CodedConcept.from_dataset accepted an incomplete coded concept ({", ".join(missing)}; code value in '
                    f'{c["kws"]}): {st}; reading it afterwards: {ob}')
        return None if ob == Err('AttributeError') else f'incomplete coded concept ({", ".join(missing)}) gave {ob}'
    if k == 'concept':
        if isinstance(out, Err):
            return f'admissible base tree of a concept case refused: {out}'
        st_own, own, st_seq, seq = out
        t = c['tree']
        node = t
        for i in c['path']:
            node = node['kids'][i]
        cls = CLASS[t['t']]
        what = (f'{node["t"]} item (depth {len(c["path"])}, {c["src"]} dataset) whose {c["where"]} concept carries its code in '
                f'{c["carrier"]}')
        if c['fault'] in CONCEPT_BREAKING:
            why = {'del_scheme': 'lacks CodingSchemeDesignator', 'del_meaning': 'lacks CodeMeaning',
                   'del_carrier': 'has no code value attribute', 'add_carrier': f'also has {c["other"]}'}[c['fault']]
            for nm, o in ((f'{cls}.from_dataset', st_own), ('ContentSequence.from_sequence', st_seq),
                          (f'{cls}.from_dataset + accessors', own), ('from_sequence + accessors', seq)):
                if o != Err('AttributeError'):
                    return f'{nm} did not refuse (AttributeError) a {what} and {why}: {_short_out(o)}'
            return None
        exp = exp_item(copy.deepcopy(t))
        e = exp
        for i in c['path']:
            e = e[4][i]
        if c['fault'] == 'del_version':
            w = c['where']
            (e[1] if w == 'name' else e[3] if w == 'value' else e[3][2] if w == 'unit' else e[3][3])[3] = None
        if st_own != 'ok' or st_seq != 'ok':
            return f'complete {what} ({c["fault"]}) refused: from_dataset {st_own}, from_sequence {st_seq}'
        d = _first_diff(own, exp, 'from_dataset') or _first_diff(seq, [exp], 'from_sequence')
        return d and f'{what} ({c["fault"]}): {d}'
    if k == 'nearclosed':
        pts = c['pts']
        closed = all(a == b for a, b in zip(pts[0], pts[-1]))          # IEEE equality: 0.0 == -0.0
        cop = _coplanar_verdict(pts)
        if cop is None:
            return None
        want = closed and cop
        if out is not True and out != Err('ValueError'):
            return f'3D POLYGON through {c["via"]}: unexpected outcome {out}'
        if (out is True) == want:
            return None
        gaps = [abs(a - b) for a, b in zip(pts[0], pts[-1])]
        if not closed:
            return (f'open 3D POLYGON accepted ({c["via"]}): first point {pts[0]}, last point {pts[-1]} - they differ by '
                    f'{max(gaps):.3g} mm (|coordinate| up to {max(abs(x) for x in pts[-1]):.6g}); the standard demands '
                    f'first point == last point, however far the contour is from the origin')
        return f'closed planar 3D POLYGON refused ({c["via"]}): {pts}'
    if k == 'nested':
        if isinstance(out, Err):
            return f'admissible base tree of a nested case refused: {out}'
        return _nested_oracle(c, out)
    if k == 'scoord':
        n = len(c['pts'])
        want = c['dim'] == 2 and {'POINT': n == 1, 'CIRCLE': n == 2, 'ELLIPSE': n == 4}.get(c['gt'], n >= 2)
        got = out is True
        if not got and out != Err('ValueError'):
            return f'unexpected outcome {out}'
        return None if got == want else f'SCOORD {c["gt"]} with {n} points of dim {c["dim"]}: accepted={got}'
    if k == 'scoord3d':
        n = len(c['pts'])
        gt = c['gt']
        want = c['mode'] != 'dim2' and {'POINT': n == 1, 'ELLIPSE': n == 4, 'ELLIPSOID': n == 6}.get(gt, n >= 2)
        if want and gt == 'POLYGON':
            want = c['pts'][0] == c['pts'][-1]
        if want and gt in ('POLYGON', 'ELLIPSE'):
            want = _coplanar_verdict(c['pts'])
            if want is None:
                return None
        got = out is True
        if not got and out != Err('ValueError'):
            return f'unexpected outcome {out}'
        return None if got == want else f'SCOORD3D {gt} with {n} points ({c["mode"]}): accepted={got}, standard says {want}'
    if k == 'malformed':
        _hd()
        if isinstance(out, Err):
            return f'admissible base tree of a malformed case refused by the constructors: {out}'
        ds, info = _mal_inputs(c)
        st_own, own, st_seq, seq = out
        op = info['op']
        if 'more' in info:
            faults = [info] + info['more']
            if st_own == 'ok' and st_seq == 'ok' and not isinstance(own, Err) and isinstance(seq, Err):
                return f'from_dataset result readable but the same item from from_sequence is not: {seq}'
            if any(f['op'] == 'empty_seq' for f in faults):
                return None           # may have removed the node of another fault
            for f in faults:
                if f['op'] in ('del_required', 'vt_unknown', 'rel_del', 'rel_bad') and not isinstance(st_seq, Err):
                    return f'from_sequence accepted a tree with fault {f}'
                if f['op'] in ('del_required', 'vt_unknown') and f['depth'] == 0 and not isinstance(st_own, Err):
                    return f'from_dataset accepted a dataset with fault {f}'
            return None
        if st_own == 'ok' and isinstance(own, Err) and op in ('none',):
            return f'accessors of a parsed item raised {own}'
        if op == 'del_required' and info['depth'] == 0:
            if st_own != Err('AttributeError'):
                return f'{info["cls"]}.from_dataset accepted a {info["vt"]} item without {info["kw"]}: {st_own}'
        if op == 'del_required':
            if st_seq != Err('AttributeError'):
                return f'from_sequence accepted a {info["vt"]} item without {info["kw"]}: {st_seq}'
        if op == 'del_name':
            optional = spec_cls = CLASS[info['vt']] in ('CompositeContentItem', 'ImageContentItem', 'ScoordContentItem',
                                                        'Scoord3DContentItem', 'TcoordContentItem', 'WaveformContentItem')
            src = ['260753009', 'SCT', 'Source', None]
            if info['depth'] == 0:
                if optional and (isinstance(own, Err) or own[1] != src):
                    return f'{info["cls"]} without concept name should parse with the default name "Source": {own}'
                if not optional and own != Err('AttributeError'):
                    return f'{info["cls"]} without concept name accepted: {own}'
            if not optional and seq != Err('AttributeError'):
                return f'from_sequence accepted a {info["vt"]} item without concept name: {seq}'
            if optional and isinstance(seq, Err):
                return f'from_sequence refused a {info["vt"]} item without (optional) concept name: {seq}'
        if op == 'wrong_class' and st_own != Err('ValueError'):
            return f'{info["cls"]}.from_dataset accepted a {c["tree"]["t"]} item: {st_own}'
        if op == 'vt_other' and info['depth'] == 0 and st_own != Err('ValueError'):
            return f'from_dataset accepted value type {info["to"]} for class {info["cls"]}: {st_own}'
        if op == 'vt_unknown' and (not isinstance(st_seq, Err) or (info['depth'] == 0 and not isinstance(st_own, Err))):
            return 'unknown value type accepted'
        if op in ('rel_del', 'rel_bad') and not isinstance(st_seq, Err):
            return 'item without valid relationship type accepted by from_sequence'
        if op == 'none':
            exp = exp_item(c['tree'])
            d = _first_diff(own, exp, 'from_dataset') or _first_diff(seq, [exp], 'from_sequence')
            if d:
                return d
        return None
    if k == 'seqmode':
        if isinstance(out, Err):
            return f'admissible items refused by the constructors: {out}'
        st, ob = out
        want = _mode_verdict(c['root'], c['sr'], c['items'])
        if want is None:
            if st != 'ok':
                return f'ContentSequence refused items that suit its kind: {st}'
            exp = [exp_item(t) for t in c['items']]
            return None if not isinstance(ob, Err) and _first_diff(ob, exp, 'from_sequence') is None else \
                f'from_sequence(is_root={c["root"]}, is_sr={c["sr"]}): {ob if isinstance(ob, Err) else _first_diff(ob, exp)}'
        if st != Err(want):
            return f'ContentSequence(is_root={c["root"]}, is_sr={c["sr"]}) gave {st}, the rule says {want}'
        if ob != Err(want):
            return f'from_sequence(is_root={c["root"]}, is_sr={c["sr"]}) gave {ob}, the rule says {want}'
        return None
    if k == 'num_int':
        z = c['z']
        if isinstance(out, Err):
            return f'NumContentItem refused the int {z}: {out}'
        fits = len(str(z)) <= 16
        if out[0] != fits:
            return f'int {z} ({len(str(z))} characters): exact decimal string stored = {out[0]}'
        if not fits and out[1] is not True:
            return (f'int {z} does not fit a DS and is not kept in FloatingPointValue either: the value changes '
                    f'after any encoding')
        is_double = int(float(z)) == z            # CPython int -> float is correctly rounded
        if out[2] is not is_double:
            return (f'NumContentItem.value (constructed and after bytes) == {z}: {out[2]}; the int is '
                    f'{"" if is_double else "not "}an exact double')
        return None
    if k == 'subclass':
        parent, asserts = sub_table()[c['sub']]
        t, dl = c['tree']['t'], c['del']
        if c.get('cfault'):
            carrier, fault, other = c['cfault']
            want = Err('AttributeError') if fault in CONCEPT_BREAKING else 'ok'
            if CLASS[t] != parent:
                want = Err('ValueError') if want == 'ok' else out if out in (Err('AttributeError'), Err('ValueError')) else want
            return None if out == want else (f'{c["sub"]}.from_dataset of a {t} dataset whose name carries its code in {carrier} '
                                             f'({fault}{" " + other if other else ""}) gave {out}, expected {want}')
        if dl == 'ConceptNameCodeSequence' and CLASS[t] != parent:
            # two faults (value type of another class AND no concept name): either refusal is a correct one
            return None if out in (Err('AttributeError'), Err('ValueError')) else \
                f'{c["sub"]}.from_dataset of a {t} dataset without {dl}: {out}'
        if dl in ('ValueType', 'ConceptNameCodeSequence'):
            return None if out == Err('AttributeError') else f'{c["sub"]}.from_dataset without {dl}: {out}'
        want = 'ok'
        if CLASS[t] != parent:
            want = Err('ValueError')
        elif dl in REQUIRED[t]:
            want = Err('AttributeError')
        if out == want:
            return None
        return f'{c["sub"]}.from_dataset of a {t} dataset (deleted: {dl}) gave {out}, expected {want}'
    if k == 'seqops':
        want = _seqops_reference(c)
        if isinstance(out, Err) or isinstance(want, Err):
            return None if out == want else f'sequence construction gave {out}, the rule says {want}'
        st, final, finds, nodes, probes = out
        wst, wfinal, wfinds, wnodes, wprobes = want
        if st != wst:
            return f'outcomes of the calls {st}, expected {wst}'
        d = _first_diff(final, wfinal, 'items after the calls')
        if d:
            return d
        for n, got, w in zip(c['names'], finds, wfinds):
            # multiset, code meanings apart: the look-up table drops the first EQUAL item, which may be another
            # object than the one leaving the list (the container itself is the subject of property C14)
            if isinstance(got, Err) or sorted(repr(_blank(x)) for x in got) != sorted(repr(_blank(x)) for x in w):
                return f'find({n[:4]}) returned {got if isinstance(got, Err) else len(got)} item(s), the sequence holds {len(w)} with that name'
        if isinstance(nodes, Err) or _first_diff(nodes, wnodes, 'get_nodes'):
            return f'get_nodes: {nodes if isinstance(nodes, Err) else _first_diff(nodes, wnodes)}'
        if probes != wprobes:
            return f'index / in gave {probes}, expected {wprobes}'
        return None
    return f'unknown kind {k}'


# sequences whose first item is a coded concept that X.from_dataset converts (so it has to be there when parsing)
CONCEPT_HOLDERS = ['ConceptNameCodeSequence', 'ConceptCodeSequence', 'MeasuredValueSequence/MeasurementUnitsCodeSequence',
                   'NumericValueQualifierCodeSequence']
OPTIONAL_INNER = ['ReferencedFrameNumber', 'ReferencedSegmentNumber', 'ReferencedWaveformChannels', 'MappingResource',
                  'TemplateIdentifier', 'FloatingPointValue']


def _nested_oracle(c, out):
    """from the standard's attribute types and the case description alone:
    - a coded concept (name, CODE value, NUM unit, NUM qualifier) is checked when parsing, so the sequence that should hold
      it - Measurement Units Code Sequence is Type 1 in the measured value - must be there and have an item: refused by
      X.from_dataset ALONE and by from_sequence ALONE (AttributeError when the attribute is missing);
    - a missing Type 1 attribute that is only read later (referenced SOP class / instance, Numeric Value when there is no
      Floating Point Value) must at the latest fail the accessors with AttributeError - never yield a value; an emptied
      Referenced SOP / Measured Value Sequence must not yield a value either;
    - optional attributes (frame / segment numbers, channels, template identification, Floating Point Value) may go: the
      item parses and reports the rest unchanged (value = float(Numeric Value) without Floating Point Value);
    - a second item behind a complete first one changes nothing that is reported (if the dataset is accepted)."""
    st_own, own, st_seq, seq = out
    node = c['tree']
    for i in c['path']:
        node = node['kids'][i]
    t, v, op, kw = node['t'], node['val'], c['op'], c['kw']
    seqs = '/'.join(c['seq'])
    cls = CLASS[c['tree']['t']]
    what = (f'{t} item (depth {len(c["path"])}, {c["src"]} dataset) with ' +
            {'del': f'{seqs}[0] lacking {kw}', 'empty': f'an EMPTY {seqs}',
             'second': f'a second item in {seqs} ({"empty" if kw is None else "lacking " + str(kw)})'}[op])
    four = ((f'{cls}.from_dataset', st_own), ('ContentSequence.from_sequence', st_seq),
            (f'{cls}.from_dataset + accessors', own), ('from_sequence + accessors', seq))
    exp = exp_item(copy.deepcopy(c['tree']))
    e = exp
    for i in c['path']:
        e = e[4][i]
    must_parse = False
    if op == 'del' and kw == 'MeasurementUnitsCodeSequence':
        for nm, o in four:
            if o != Err('AttributeError'):
                return f'{nm} did not refuse (AttributeError) a {what}: {_short_out(o)}'
        return None
    if op == 'empty' and seqs in CONCEPT_HOLDERS:
        for nm, o in four:
            if not isinstance(o, Err):
                return f'{nm} accepted a {what}: {_short_out(o)}'
        return None
    if op == 'empty' and seqs in ('ReferencedSOPSequence', 'MeasuredValueSequence'):
        # (an empty Measured Value Sequence is legal - Type 2 - but then there is no value to report; whether
        # from_dataset itself refuses it is left to the model comparison: the code does, with IndexError)
        for nm, o in four[2:]:
            if not isinstance(o, Err):
                return f'{nm}: a {what} yields a value: {_short_out(o)}'
        return None
    if op == 'del' and (kw in ('ReferencedSOPClassUID', 'ReferencedSOPInstanceUID') or
                        (kw == 'NumericValue' and not v['isf'] and len(str(int(v['num']))) <= 16)):
        for nm, o in four[2:]:
            if o != Err('AttributeError'):
                return f'{nm}: a {what} (Type 1) did not end in AttributeError: {_short_out(o)}'
        for nm, o in four[:2]:
            if o not in ('ok', Err('AttributeError')):
                return f'{nm}: a {what}: {_short_out(o)}'
        return None
    if op == 'del' and kw in OPTIONAL_INNER:
        must_parse = True
        if kw == 'ReferencedFrameNumber':
            e[3][2] = None
        elif kw == 'ReferencedSegmentNumber':
            e[3][3] = None
        elif kw == 'ReferencedWaveformChannels':
            e[3][2] = None
        elif kw == 'TemplateIdentifier':
            e[3][1] = None
        elif kw == 'FloatingPointValue':
            _hd()
            ds = _nested_inputs(c)
            for i in c['path']:
                ds = ds.ContentSequence[i]
            e[3][0], e[3][1] = F(float(ds.MeasuredValueSequence[0].NumericValue)), False
    if op == 'empty' and seqs == 'ContentTemplateSequence':
        e[3][1] = None
    if must_parse and (st_own != 'ok' or st_seq != 'ok'):
        return f'a {what} (optional) was refused: from_dataset {st_own}, from_sequence {st_seq}'
    # everything else (Numeric Value deleted beside a Floating Point Value, a second item, an emptied optional sequence):
    # refusing is acceptable, reporting something else than the first item holds is not
    for nm, o, w in ((f'{cls}.from_dataset', own, exp), ('from_sequence', seq, [exp])):
        if isinstance(o, Err):
            if must_parse:
                return f'{nm}: accessors of a {what} raised {o}'
            continue
        d = _first_diff(o, w, nm)
        if d:
            return f'a {what}: {d}'
    return None


def _short_out(o):
    s_ = repr(o)
    return s_ if len(s_) < 200 else s_[:200] + '...'


def _short(x):
    if isinstance(x, list):
        return '[' + ', '.join(_short(y) for y in x) + ']'
    return str(float(x)) if isinstance(x, F) else repr(x)


def _item_verdict(root, sr_, t):
    """exception class with which a sequence of this kind must refuse the item (None = welcome)"""
    if root:
        return 'AttributeError' if t['rel'] is not None else (None if t['t'] == 'CONTAINER' else 'TypeError')
    if sr_:
        return 'AttributeError' if t['rel'] is None else None
    return 'AttributeError' if t['rel'] is not None else None


def _mode_verdict(root, sr_, items):
    if root and not sr_:
        return 'ValueError'
    for t in items:
        v = _item_verdict(root, sr_, t)
        if v:
            return v
    return None


def _blank(e):
    cls, name, rel, val, kids = e
    bc = lambda c: None if c is None else [c[0], c[1], '', c[3]]
    if cls == 'CodeContentItem':
        val = bc(val)
    elif cls == 'NumContentItem':
        val = [val[0], val[1], bc(val[2]), bc(val[3])]
    return [cls, bc(name), rel, val, [_blank(k) for k in kids]]


def _seqops_reference(c):
    """plain-python-list reference of the documented ContentSequence behaviour"""
    root, sr_ = c['root'], c['sr']
    v = _mode_verdict(root, sr_, c['init'])
    if v:
        return Err(v)
    lst = [exp_item(t) for t in c['init']]
    st = []
    for op in c['ops']:
        o = op[0]
        new = op[-1] if o in ('extend', 'iadd', 'setslice') else ([op[-1]] if o in ('append', 'insert', 'set') else [])
        if o in ('set', 'del') and not -len(lst) <= op[1] < len(lst):
            st.append(Err('IndexError'))
            continue
        if o in ('extend', 'iadd'):            # item by item
            r = 'ok'
            for t in new:
                bad = _item_verdict(root, sr_, t)
                if bad:
                    r = Err(bad)
                    break
                lst.append(exp_item(t))
            st.append(r)
            continue
        bad = next((b for b in (_item_verdict(root, sr_, t) for t in new) if b), None)
        if bad:
            st.append(Err(bad))
            continue
        e = [exp_item(t) for t in new]
        if o == 'append':
            lst.append(e[0])
        elif o == 'insert':
            lst.insert(op[1], e[0])
        elif o == 'set':
            lst[op[1]] = e[0]
        elif o == 'del':
            del lst[op[1]]
        elif o == 'setslice':
            lst[op[1]:op[2]] = e
        elif o == 'delslice':
            del lst[op[1]:op[2]]
        st.append('ok')
    key = lambda n: (n[0], n[1], n[3])
    finds = [[i for i in lst if key(i[1]) == key(n)] for n in c['names']]
    nodes = [i for i in lst if i[4]]
    probes = []
    blanked = [_blank(i) for i in lst]
    for p_ in c['probes']:
        e = _blank(exp_item(p_))       # coded concepts compare equal whatever their meaning
        probes.append([blanked.index(e), True] if e in blanked else [Err('ValueError'), False])
    return [st, lst, finds, nodes, probes]


def nontrivial(c, out):
    if c['kind'] == 'tree':
        return tree_size(c['tree']) >= 2 or isinstance(out, Err)
    return True


def shrink(c):
    if c['kind'] == 'tree':
        t = c['tree']
        for k in t['kids']:
            yield dict(c, tree=k)
        for i in range(len(t['kids'])):
            yield dict(c, tree=dict(t, kids=t['kids'][:i] + t['kids'][i + 1:]))
        for i, k in enumerate(t['kids']):
            for j in range(len(k['kids'])):
                k2 = dict(k, kids=k['kids'][:j] + k['kids'][j + 1:])
                yield dict(c, tree=dict(t, kids=t['kids'][:i] + [k2] + t['kids'][i + 1:]))
    if c['kind'] in ('scoord', 'scoord3d') and len(c['pts']) > 1:
        yield dict(c, pts=c['pts'][:-1])
    if c['kind'] == 'nearclosed':
        for i in range(1, len(c['pts']) - 1):           # keep both end points
            yield dict(c, pts=c['pts'][:i] + c['pts'][i + 1:])
        if c['via'] != 'item':
            yield dict(c, via='item')
    if c['kind'] == 'nested':
        if c['src'] != 'plain':
            yield dict(c, src='plain')
        if c['path']:
            t = c['tree']
            for i in c['path']:
                t = t['kids'][i]
            yield dict(c, tree=t, path=[])
    if c['kind'] == 'coplanar':
        for i in range(len(c['pts'])):
            yield dict(c, pts=c['pts'][:i] + c['pts'][i + 1:])
    if c['kind'] == 'history':
        for i in range(len(c['ops'])):
            yield dict(c, ops=c['ops'][:i] + c['ops'][i + 1:])
        if c['src'] != 'ctor':
            yield dict(c, src='ctor')


# --------------------------------------------------------------------------
# T-tables: regenerate the parse tables from the current source (fail-closed)
# --------------------------------------------------------------------------
def _enum_attr(node, enum='ValueTypeValues'):
    import ast
    if isinstance(node, ast.Attribute) and isinstance(node.value, ast.Name) and node.value.id == enum:
        return node.attr
    raise ValueError(f'not a {enum}.X expression: {ast.dump(node)[:80]}')


def translate_tables(src_path):
    """ast -> dict of tables; raises on anything outside the expected shape."""
    import ast
    tree = ast.parse(open(src_path).read())
    out = {'class_table': None, 'required_table': None, 'optional_name': None, 'assert_vt': {}, 'ctor_vt': {}}
    funcs = {n.name: n for n in tree.body if isinstance(n, ast.FunctionDef)}
    classes = {n.name: n for n in tree.body if isinstance(n, ast.ClassDef)}

    def dict_assign(fn, var):
        hits = [n for n in ast.walk(fn) if isinstance(n, ast.Assign) and len(n.targets) == 1
                and isinstance(n.targets[0], ast.Name) and n.targets[0].id == var]
        if len(hits) != 1 or not isinstance(hits[0].value, ast.Dict):
            raise ValueError(f'{var}: expected exactly one dict literal assignment')
        return hits[0].value
    d = dict_assign(funcs['_assert_value_type'], 'required_attrs')
    req = []
    for k, v in zip(d.keys, d.values):
        if not isinstance(v, ast.List) or not all(isinstance(e, ast.Constant) and isinstance(e.value, str) for e in v.elts):
            raise ValueError('required_attrs: value is not a list of string literals')
        req.append((_enum_attr(k), [e.value for e in v.elts]))
    out['required_table'] = req
    # the loop that consumes the table must still be `for attr in required_attrs[value_type]: if not hasattr(...)`
    loops = [n for n in ast.walk(funcs['_assert_value_type']) if isinstance(n, ast.For)]
    if len(loops) != 1 or ast.unparse(loops[0].iter) != 'required_attrs[value_type]' or \
            ast.unparse(loops[0].body[0].test) != 'not hasattr(dataset, attr)':
        raise ValueError('_assert_value_type: required-attribute loop has changed shape')
    d = dict_assign(funcs['_get_content_item_class'], 'python_types')
    ct = []
    for k, v in zip(d.keys, d.values):
        if not isinstance(v, ast.Name):
            raise ValueError('python_types: value is not a class name')
        ct.append((_enum_attr(k), v.id))
    out['class_table'] = ct
    base = {n.name: n for n in classes['ContentItem'].body if isinstance(n, ast.FunctionDef)}
    hits = [n for n in ast.walk(base['_from_dataset_base']) if isinstance(n, ast.Assign)
            and isinstance(n.targets[0], ast.Name) and n.targets[0].id == 'value_types_with_optional_name']
    if len(hits) != 1 or not isinstance(hits[0].value, ast.Tuple):
        raise ValueError('value_types_with_optional_name: expected one tuple literal')
    out['optional_name'] = [e.value for e in hits[0].value.elts]
    for cname, cnode in classes.items():
        if not cname.endswith('ContentItem') or cname == 'ContentItem':
            continue
        meths = {n.name: n for n in cnode.body if isinstance(n, ast.FunctionDef)}
        calls = [n for n in ast.walk(meths['from_dataset']) if isinstance(n, ast.Call)
                 and isinstance(n.func, ast.Name) and n.func.id == '_assert_value_type']
        if len(calls) != 1 or ast.unparse(calls[0].args[0]) != 'dataset_copy':
            raise ValueError(f'{cname}.from_dataset: expected one _assert_value_type(dataset_copy, ...)')
        out['assert_vt'][cname] = _enum_attr(calls[0].args[1])
        sup = [n for n in ast.walk(meths['__init__']) if isinstance(n, ast.Call)
               and ast.unparse(n.func) == 'super().__init__']
        if len(sup) != 1:
            raise ValueError(f'{cname}.__init__: expected one super().__init__ call')
        out['ctor_vt'][cname] = _enum_attr(sup[0].args[0])
    return out


def _coq_sl(l):
    return '[' + '; '.join(_s(x) for x in l) + ']'


def tables_coq(t):
    pair = lambda a, b: f'({_s(a)}, {_s(b)})'
    return '\n'.join([
        'From Coq Require Import String ZArith List Bool.',
        'From HD Require Import Base.Val C13_Model.',
        'Import ListNotations. Open Scope string_scope. Open Scope list_scope.',
        'Definition src_class_table : list (string * string) := [' + '; '.join(pair(a, b) for a, b in t['class_table']) + '].',
        'Definition src_required_table : list (string * list string) := ['
        + '; '.join(f'({_s(a)}, {_coq_sl(b)})' for a, b in t['required_table']) + '].',
        'Definition src_optional_name : list string := ' + _coq_sl(t['optional_name']) + '.',
        'Definition src_assert_vt : list (string * string) := [' + '; '.join(pair(a, b) for a, b in sorted(t['assert_vt'].items())) + '].',
        'Definition src_ctor_vt : list (string * string) := [' + '; '.join(pair(a, b) for a, b in sorted(t['ctor_vt'].items())) + '].',
        'Definition ostr_eqb (a b : option string) : bool := match a, b with Some x, Some y => String.eqb x y | None, None => true | _, _ => false end.',
        'Fixpoint sl_eqb (a b : list string) : bool := match a, b with [] , [] => true | x :: a, y :: b => String.eqb x y && sl_eqb a b | _, _ => false end.',
        'Definition osl_eqb (a b : option (list string)) : bool := match a, b with Some x, Some y => sl_eqb x y | None, None => true | _, _ => false end.',
        'Definition tables_agree : bool :=',
        '  Nat.eqb (length src_class_table) (length class_table) && Nat.eqb (length src_required_table) (length required_table)',
        '  && forallb (fun v => ostr_eqb (assoc (vt_str v) src_class_table) (assoc (vt_str v) class_table)) all_vt',
        '  && forallb (fun v => osl_eqb (assoc (vt_str v) src_required_table) (assoc (vt_str v) required_table)) all_vt',
        '  && Nat.eqb (length src_optional_name) (length optional_name_classes)',
        '  && forallb (fun c => Bool.eqb (mem (ctag_str c) src_optional_name) (mem (ctag_str c) optional_name_classes)) all_ctag',
        '  && Nat.eqb (length src_assert_vt) (length all_ctag) && Nat.eqb (length src_ctor_vt) (length all_ctag)',
        '  && forallb (fun c => ostr_eqb (assoc (ctag_str c) src_assert_vt) (Some (vt_str (class_vt c)))) all_ctag',
        '  && forallb (fun c => ostr_eqb (assoc (ctag_str c) src_ctor_vt) (Some (vt_str (class_vt c)))) all_ctag.',
        'Theorem C13_tables_agree_with_source : tables_agree = true.',
        'Proof. vm_compute. reflexivity. Qed.',
        'Print Assumptions C13_tables_agree_with_source.', ''])


def extra_obligations(work):
    name = 'C13_tables_agree_with_source'
    try:
        t = translate_tables(os.path.join(common.REPO, 'src', 'highdicom', 'sr', 'value_types.py'))
        path = os.path.join(work, 'C13_Tables.v')
        open(path, 'w').write(tables_coq(t))
        rc, out = common.sh(f'timeout 300 coqc -Q {common.COQ}/theories HD -Q {work} Work {path}', cwd=work, timeout=330)
        if rc != 0:
            return [{'name': name, 'status': 'tables-differ-from-model: ' + out.strip()[-300:]}]
        if 'Closed under the global context' not in out:
            return [{'name': name, 'status': 'assumptions-not-closed'}]
        return [{'name': name, 'status': 'ok'}]
    except Exception as e:   # fail closed
        return [{'name': name, 'status': f'translator-refused: {type(e).__name__}: {e}'[:300]}]


FINDINGS = {}      # no open C13 findings (D57, D58 found by this check were fixed in /repo)

if __name__ == '__main__':
    sys.exit(common.main(sys.modules[__name__]))
