"""T-int: fail-closed translator of highdicom's straight-line integer helpers to Gallina.

Every run of a check that hooks `obligations(work, keys)` (C01-C06, C08, C11, C12, C17, C19)

  1. parses the CURRENT source file under $VERIF_REPO/src/highdicom with `ast`,
  2. translates each target function (or the named fragment of it) into a Gallina
     definition `t_<name>` over the shallow embedding coq/theories/Base/PyInt.v
     (written to <work>/TInt_Gen_<name>.v, re-exported by <work>/TInt_Gen.v),
  3. compiles it and then compiles the static equivalence file
     coq/templates/TInt_Eq_<key>.v, which proves  `forall args, t_<name> args =
     <hand model> args`  (exact statement per target: see TARGETS[...]['statement'])
     followed by `Print Assumptions` that must say "Closed under the global context".

One obligation per (function, model).  Anything outside the grammar raises `Refuse`
and the obligation is reported as `translator-refused: ...` - never skipped.

Grammar (everything else is refused):
  statements   docstring, `pass`, `x = e`, `x: T = e`, `x op= e` (simple names only),
               `if / elif / else`, `raise X(...)` / `raise X` (message ignored),
               `return e`, `return a, b, ...`, `return`
  expressions  int / bool / None constants, names, `self.attr` and `param.attr`
               (-> extra int parameter, `option Z` / bool if declared in FUNCTIONS[...]['attr_types'];
               the read itself is assumed to succeed), `self.attr[param]` (-> extra parameter),
               `attr == 'literal'` (-> extra boolean parameter),
               `self.a.b` (-> extra parameter), bools used as ints (Z.b2z),
               `+ - *`, unary `-`/`+`, `//` and `%` (ZeroDivisionError unless the divisor is a
               non-zero literal), `not`, `and` / `or` (short-circuit), comparisons
               `< <= > >= == !=` (chained ones only over pure int operands),
               `is None` / `is not None` (narrowing: a `match` on the option),
               `a if c else b`, `cast(T, x)`, `int(x)` on ints, `abs`, `min`, `max`,
               `int(np.ceil(a / b))` (-> PyInt.py_ceildiv, float step trusted, see PyInt.v),
               `np.dtype(np.uint8|16|32)` (-> the bit width 8|16|32),
               `range(a[, b])`, `iter(xs)` (single use enforced), and
               `(e for (a, b) in itertools.product(xs, ys))`
  typing       parameters: `int`, `bool`, `int | None`, `Optional[int]`, `int | np.integer`;
               a variable assigned an int on one path and None / unassigned-but-optional on
               another has type `option Z` after the join; using it as an int goes
               through `as_int` (TypeError on None).
T-int 2 (Base/PyExt.v; every form below is still fail-closed - anything else is refused):
  tri-state    `bool | None` parameters are `option bool`; `x is None` narrows (match), `bool(x)` of a bool is x,
               of an int is x != 0; truthiness / == of an un-narrowed tri-state value is refused
  booleans     boolean locals joined over branches; `and` / `or` / `not` as before
  enums        `Enum.MEMBER`, `x == / != / is / is not Enum.MEMBER`, `x in / not in (Enum.A, Enum.B)` over a closed
               enum declared in FUNCTIONS[...]['enums']: the finite inductive E_<Enum> and its eqb are GENERATED from
               the class body as it is now (plain `class X(Enum)`, `MEMBER = constant` lines, no aliases)
  strings      `str` / `str | None` parameters are opaque Coq strings: moved around (`str(x)` of a str is x, string
               literals), never inspected; `len(p)`, `p.startswith('lit')`, `p.endswith('lit')`, `'lit' in p`,
               `p == 'lit'` on a parameter that is never assigned become explicit extra parameters
               (a_len_p : Z, a_p_startswith_lit : bool, ...) - the equivalence theorem instantiates them
  isinstance   `isinstance(p, T)` (p a never-assigned parameter, T dotted names / tuple of them) -> extra bool parameter
  opaque ==    `p.a.b == np.uint8`, `p == RLELossless`, `p.a in (np.uint8, np.uint16)` (right-hand sides dotted
               module-level names) -> one extra bool parameter per constant; `p.a.b` attribute chains of parameters
  raise        any builtin exception class
  stores       `self.KW = e` for KW in FUNCTIONS[...]['stores'] writes an output slot (initially absent = None;
               a read before a write on every path is refused; any other attribute store is refused)
  self maps    `self.<map>[Enum.M]` for a map assigned exactly once in the class by a dict display of string literals
  floats       `float` / `float | None` are Q / option Q: literals (read as the decimal rational of their source
               text), module constants declared in ['consts'], `< <= > >= == !=` (py_qlt ...), `abs`; no arithmetic
  idiom        `int(((e / K) % 1) * K)`, K a power-of-two literal -> e mod K (trusted float steps, see PyExt.v)
Mutable locals become let-bindings; an `if` without `return` inside is a block of type
`res (tuple of the variables assigned in either branch)` bound to the rest; an `if`
containing `return` gets the rest of the statement list pushed into both branches.
"""
import ast
import concurrent.futures as cf
import os
import re
import shutil

import common

Z, OZ, B, NONE, UNIT = 'Z', 'optZ', 'bool', 'none', 'unit'
OB, S, OS, Q, OQ = 'optB', 'str', 'optS', 'Q', 'optQ'       # T-int 2: tri-state flags, opaque strings, rationals
OPT_OF = {Z: OZ, B: OB, S: OS, Q: OQ}
BASE_OF = {v: k for k, v in OPT_OF.items()}
COQ_BASE = {Z: 'Z', B: 'bool', S: 'string', Q: 'Q'}
SENT = '\x00'


def is_exception_name(name):
    """any builtin exception class (ValueError, LookupError, OSError, ...)"""
    import builtins
    c = getattr(builtins, name, None)
    return isinstance(c, type) and issubclass(c, BaseException)


def is_enum(t):
    return isinstance(t, tuple) and t[0] == 'enum'


def enum_coq(name):
    return 'E_' + ident(name)
CMP = {ast.Lt: '<?', ast.LtE: '<=?', ast.Gt: '>?', ast.GtE: '>=?'}
DTYPE_WIDTH = {'np.dtype(np.uint8)': 8, 'np.dtype(np.uint16)': 16, 'np.dtype(np.uint32)': 32}


class Refuse(Exception):
    pass


def src(node):
    try:
        return ast.unparse(node)
    except Exception:
        return type(node).__name__


def refuse(node, why):
    ln = getattr(node, 'lineno', '?')
    raise Refuse(f'line {ln}: {why}: `{src(node)[:80]}`')


def coq_type(t):
    if t == Z:
        return 'Z'
    if t in (OZ, NONE):
        return 'option Z'
    if t in COQ_BASE:
        return COQ_BASE[t]
    if t in BASE_OF:
        return f'(option {COQ_BASE[BASE_OF[t]]})'
    if is_enum(t):
        return enum_coq(t[1])
    if t == UNIT:
        return 'unit'
    if isinstance(t, tuple) and t[0] == 'tuple':
        return '(' + ' * '.join(coq_type(x) for x in t[1]) + ')'
    if isinstance(t, tuple) and t[0] == 'list':
        return f'(list {coq_type(t[1])})'
    raise Refuse(f'no Coq type for {t}')


def join(ts):
    ts = list(dict.fromkeys(ts))
    if len(ts) == 1:
        return ts[0]
    if all(t in (Z, OZ, NONE) for t in ts):
        return OZ
    for base, opt in OPT_OF.items():
        if all(t in (base, opt, NONE) for t in ts):
            return opt
    raise Refuse(f'branches give incompatible types {ts}')


def coerce(term, frm, to):
    if frm == to:
        return term
    if to == OZ and frm == Z:
        return f'(Some {term})'
    if to == OZ and frm == NONE:
        return term
    if to in BASE_OF and frm == BASE_OF[to]:
        return f'(Some {term})'
    if to in BASE_OF and frm == NONE:
        return f'(@None {COQ_BASE[BASE_OF[to]]})'
    raise Refuse(f'cannot coerce {frm} to {to}')


def zlit(n):
    return f'({n})' if n < 0 else str(n)


def var(nm):
    """Gallina variable of a Python local / store slot"""
    return 'v_' + nm.replace('.', '_')


def ident(s):
    return re.sub(r'[^A-Za-z0-9_]+', '_', s).strip('_')


def annotation_type(node):
    t = src(node).replace(' ', '') if node is not None else None
    if t in ('int', 'int|np.integer', 'np.integer|int'):
        return Z
    if t in ('int|None', 'None|int', 'Optional[int]'):
        return OZ
    if t == 'bool':
        return B
    if t in ('bool|None', 'None|bool', 'Optional[bool]'):
        return OB
    if t == 'str':
        return S
    if t in ('str|None', 'None|str', 'Optional[str]'):
        return OS
    if t == 'float':
        return Q
    if t in ('float|None', 'None|float', 'Optional[float]'):
        return OQ
    raise Refuse(f'unsupported parameter annotation `{t}`')


def contains(stmts, kinds):
    return any(isinstance(n, kinds) for s in stmts for n in ast.walk(s))


def store_key(tg, stores):
    """`self.KW` for a declared store slot KW, else None"""
    if (stores and isinstance(tg, ast.Attribute) and isinstance(tg.value, ast.Name) and tg.value.id == 'self'
            and tg.attr in stores):
        return 'self.' + tg.attr
    return None


def assigned_names(stmts, stores=None):
    out = []
    for s in stmts:
        for n in ast.walk(s):
            tg = None
            if isinstance(n, ast.Assign) and len(n.targets) == 1:
                tg = n.targets[0]
            elif isinstance(n, (ast.AugAssign, ast.AnnAssign)):
                tg = n.target
            if isinstance(tg, ast.Name) and tg.id not in out:
                out.append(tg.id)
            sk = store_key(tg, stores)
            if sk is not None and sk not in out:
                out.append(sk)
    return out


class Translator:
    def __init__(self, fn, name, params=None, outputs=None, attr_types=None, body=None, enums=None, stores=None,
                 consts=None):
        """fn: ast.FunctionDef; params: [(python name, type)] overrides the signature (fragments);
        outputs: names returned as a tuple when the statement list falls off its end (fragments);
        enums: {python enum class name: [member names]} (closed enums, read from the current source);
        stores: attribute names KW such that `self.KW = e` is a write to an output slot (initially absent);
        consts: {module-level name: (term, type)} (read from the current source)."""
        self.fn, self.name = fn, name
        self.attr_types = attr_types or {}
        self.enums = enums or {}
        self.stores = list(stores or [])
        self.consts = consts or {}
        self.extras_order = None     # pinned order (T-int 1 targets); None = sorted by name
        self.extra_names = []
        self.self_maps = {}          # attribute name -> {enum constructor: string}  (set by translate())
        self.uses_q = False
        self.outputs = outputs
        self.body = body if body is not None else fn.body
        self.extra = {}            # source text -> (coq name, type)   extra parameters
        self.ret_types = []
        self.ret_join = None
        self.n = 0
        if params is None:
            a = fn.args
            if a.vararg or a.kwarg or a.posonlyargs:
                raise Refuse('*args / **kwargs / positional-only parameters')
            for d in fn.decorator_list:
                if src(d) not in ('staticmethod', 'property'):
                    raise Refuse(f'decorator @{src(d)}')
            params = []
            for i, p in enumerate(a.args + a.kwonlyargs):
                if i == 0 and p.arg in ('self', 'cls') and 'staticmethod' not in [src(d) for d in fn.decorator_list]:
                    continue
                params.append((p.arg, annotation_type(p.annotation)))
        self.params = params
        self.fn_params = {p.arg for p in fn.args.args + fn.args.kwonlyargs}
        self.assigned = set(assigned_names(self.body, self.stores))
        # single-use check for iterators
        self.iter_vars = set()

    # ------------------------------------------------------------------ helpers
    def fresh(self):
        self.n += 1
        return f't{self.n}'

    def extra_param(self, key, base, ty):
        if key not in self.extra:
            nm = 'a_' + ident(base)
            if any(n == nm for n, _ in self.extra.values()):
                raise Refuse(f'two different observations would get the same parameter name {nm}')
            self.extra[key] = (nm, ty)
        return self.extra[key]

    def to_int(self, node, term, ty, k):
        if ty == Z:
            return k(term)
        if ty in (OZ, NONE):
            t = self.fresh()
            return f'bind (as_int {term}) (fun {t} =>\n{k(t)})'
        if ty == B:
            return k(f'(Z.b2z {term})')      # bool is a subclass of int: True = 1, False = 0
        refuse(node, f'value of type {ty} used as an int')

    def pure(self, node, env):
        """(term, type) if the expression translates without any effect, else None"""
        box = []

        def k(t, ty):
            box.append((t, ty))
            return SENT
        n0 = self.n
        out = self.expr(node, env, k)
        if out == SENT and len(box) == 1:
            return box[0]
        self.n = n0
        return None

    def pure_boolop(self, node, env):
        """`a and b` / `a or b` as a boolean term if every operand is effect-free, else None"""
        ps = [self.pure(v, env) for v in node.values]
        if any(p is None for p in ps):
            return None
        if any(p[1] != B for p in ps):
            refuse(node, 'and/or over non-bool operands')
        sym = ' && ' if isinstance(node.op, ast.And) else ' || '
        return '(' + sym.join(p[0] for p in ps) + ')'

    def ints(self, nodes, env, k):
        """evaluate nodes left to right as ints, then k([terms])"""
        def go(i, acc):
            if i == len(nodes):
                return k(acc)
            return self.expr(nodes[i], env, lambda t, ty: self.to_int(nodes[i], t, ty, lambda z: go(i + 1, acc + [z])))
        return go(0, [])

    def attr_key(self, node):
        """`self.x`, `p.x` (p a parameter never assigned), `self.x[p]` -> key, else None"""
        if isinstance(node, ast.Attribute) and isinstance(node.value, ast.Name):
            b = node.value.id
            if b == 'self' or (b in self.fn_params and b not in self.assigned):
                return src(node), (node.attr if b == 'self' else f'{b}_{node.attr}')
        if (isinstance(node, ast.Attribute) and isinstance(node.value, ast.Attribute)
                and isinstance(node.value.value, ast.Name) and node.value.value.id == 'self'):
            return src(node), f'{node.value.attr}_{node.attr}'       # self.x.y
        if (isinstance(node, ast.Attribute) and isinstance(node.value, ast.Attribute)
                and isinstance(node.value.value, ast.Name) and node.value.value.id != 'self'
                and self.fixed_param(node.value.value) is not None):
            return src(node), f'{node.value.value.id}_{node.value.attr}_{node.attr}'       # p.x.y
        if (isinstance(node, ast.Subscript) and isinstance(node.value, ast.Attribute)
                and isinstance(node.value.value, ast.Name) and node.value.value.id == 'self'
                and isinstance(node.slice, ast.Name) and node.slice.id not in self.assigned):
            return src(node), f'{node.value.attr}_{node.slice.id}'
        return None

    # ------------------------------------------------------------------ T-int 2 helpers
    def qlit(self, node, v):
        """float literal read as the decimal rational its source text denotes (floats are modelled over Q)"""
        from fractions import Fraction
        import math
        if not math.isfinite(v):
            refuse(node, 'non-finite float literal')
        text = src(node).replace('_', '').replace(' ', '')
        try:
            fr = Fraction(text)
        except (ValueError, ZeroDivisionError):
            refuse(node, 'float literal not readable as a decimal rational')
        if float(fr) != v:
            refuse(node, 'float literal not readable as a decimal rational')
        self.uses_q = True
        return f'({fr.numerator} # {fr.denominator})%Q'

    def slit(self, node, v):
        if not all(32 <= ord(c) < 127 for c in v):
            refuse(node, 'string literal outside printable ASCII')
        return '"' + v.replace('"', '""') + '"%string'

    def enum_member(self, node):
        """`Enum.MEMBER` over a declared closed enum -> (constructor, type)"""
        if isinstance(node, ast.Attribute) and isinstance(node.value, ast.Name) and node.value.id in self.enums \
                and node.value.id not in self.assigned and node.value.id not in self.fn_params:
            e = node.value.id
            if node.attr not in self.enums[e]:
                refuse(node, f'`{node.attr}` is not a member of the enum {e} as currently defined')
            return f'{enum_coq(e)}_{node.attr}', ('enum', e)
        return None

    def fixed_param(self, node):
        """name of a function parameter that is never assigned in the translated statements, else None"""
        if isinstance(node, ast.Name) and node.id in self.fn_params and node.id not in self.assigned:
            return node.id
        return None

    def type_text(self, node):
        """a class expression inside isinstance(): dotted names and tuples of them"""
        if isinstance(node, ast.Name):
            return node.id
        if isinstance(node, ast.Attribute):
            return self.type_text(node.value) + '.' + node.attr
        if isinstance(node, ast.Tuple) and node.elts:
            return '(' + ', '.join(self.type_text(e) for e in node.elts) + ')'
        refuse(node, 'class expression in isinstance() is not a dotted name / tuple of dotted names')

    def abstract(self, key, base, ty):
        """an observation of a fixed parameter that the grammar does not interpret -> extra parameter"""
        return self.extra_param(key, base, ty)

    def str_predicate(self, node, env):
        """(term, type) for len(p) / p.startswith('lit') / p.endswith('lit') / 'lit' in p / p == 'lit' on a fixed
        parameter p whose current type is str (declared `str`, or `str | None` narrowed), else None"""
        def is_str_param(n):
            p = self.fixed_param(n)
            return p is not None and p in env and env[p][1] == S

        def lit(n):
            return isinstance(n, ast.Constant) and isinstance(n.value, str)
        if isinstance(node, ast.Call) and not node.keywords and len(node.args) == 1:
            f, a = node.func, node.args[0]
            if isinstance(f, ast.Name) and f.id == 'len' and is_str_param(a):
                return self.abstract(f'len({a.id})', f'len_{a.id}', Z)
            if isinstance(f, ast.Attribute) and f.attr in ('startswith', 'endswith') and is_str_param(f.value) and lit(a):
                self.slit(a, a.value)
                return self.abstract(f'{f.value.id}.{f.attr}({a.value!r})',
                                     f'{f.value.id}_{f.attr}_{self.word(a.value)}', B)
        if isinstance(node, ast.Compare) and len(node.ops) == 1:
            l, r, op = node.left, node.comparators[0], node.ops[0]
            if isinstance(op, (ast.In, ast.NotIn)) and lit(l) and is_str_param(r):
                self.slit(l, l.value)
                t, ty = self.abstract(f'{l.value!r} in {r.id}', f'{r.id}_contains_{self.word(l.value)}', B)
                return (t if isinstance(op, ast.In) else f'(negb {t})'), B
            if isinstance(op, (ast.Eq, ast.NotEq)) and lit(r) and is_str_param(l):
                self.slit(r, r.value)
                t, ty = self.abstract(f'{l.id} == {r.value!r}', f'{l.id}_is_{self.word(r.value)}', B)
                return (t if isinstance(op, ast.Eq) else f'(negb {t})'), B
        return None

    def dotted_const(self, node, env):
        """text of a dotted name (np.uint8, RLELossless) whose root is not a local, parameter, enum or self"""
        parts, n = [], node
        while isinstance(n, ast.Attribute):
            parts.append(n.attr)
            n = n.value
        if not isinstance(n, ast.Name):
            return None
        r = n.id
        if r == 'self' or r in env or r in self.fn_params or r in self.assigned or r in self.enums or r in self.consts:
            return None
        return '.'.join([r] + parts[::-1])

    def opaque_eq(self, node, env):
        """`x == CONST`, `x != CONST`, `x in (CONST, ...)`, `x not in (...)` where x is a fixed parameter or an
        attribute chain of one / of self and CONST a dotted module-level name -> boolean observations"""
        if not (isinstance(node, ast.Compare) and len(node.ops) == 1):
            return None
        l, r, op = node.left, node.comparators[0], node.ops[0]
        if self.fixed_param(l) is not None:
            if l.id in env and env[l.id][1] in (Z, OZ, B, OB, Q, OQ):
                return None          # numbers are compared as numbers
            lt, lb = l.id, l.id
        elif self.attr_key(l) is not None and not src(l) in env:
            lt, lb = self.attr_key(l)
        else:
            return None
        if isinstance(op, (ast.Eq, ast.NotEq)):
            cs = [r]
        elif isinstance(op, (ast.In, ast.NotIn)) and isinstance(r, (ast.Tuple, ast.List)) and r.elts:
            cs = list(r.elts)
        else:
            return None
        ds = [self.dotted_const(c, env) for c in cs]
        if any(d is None for d in ds):
            return None
        ts = [self.abstract(f'{lt} == {d}', f'{lb}_is_{ident(d)}', B)[0] for d in ds]
        b = ts[0] if len(ts) == 1 else '(' + ' || '.join(ts) + ')'
        return (b if isinstance(op, (ast.Eq, ast.In)) else f'(negb {b})'), B

    @staticmethod
    def word(text):
        """identifier fragment for a string literal (injective: non-alphanumerics by code point)"""
        return ''.join(c if c.isalnum() else f'_x{ord(c):02x}' for c in text) or 'empty'

    # ------------------------------------------------------------------ expressions
    def expr(self, node, env, k):
        if isinstance(node, ast.Constant):
            v = node.value
            if v is None:
                return k('(@None Z)', NONE)
            if isinstance(v, bool):
                return k('true' if v else 'false', B)
            if isinstance(v, int):
                return k(zlit(v), Z)
            if isinstance(v, float):
                return k(self.qlit(node, v), Q)
            if isinstance(v, str):
                return k(self.slit(node, v), S)
            refuse(node, 'constant of unsupported type')
        em = self.enum_member(node)
        if em is not None:
            return k(*em)
        if isinstance(node, ast.Name) and node.id not in env and node.id in self.consts \
                and node.id not in self.assigned and node.id not in self.fn_params:
            t, ty = self.consts[node.id]
            if ty == Q:
                self.uses_q = True
            return k(t, ty)
        if isinstance(node, ast.Name):
            if node.id in env:
                if node.id in self.iter_vars:
                    uses = sum(1 for n in ast.walk(self.fn) if isinstance(n, ast.Name) and n.id == node.id
                               and isinstance(n.ctx, ast.Load))
                    if uses != 1:
                        refuse(node, 'iterator variable used more than once')
                return k(*env[node.id])
            refuse(node, 'name is not a parameter or a local assigned on every path')
        if (isinstance(node, ast.Subscript) and isinstance(node.value, ast.Attribute)
                and isinstance(node.value.value, ast.Name) and node.value.value.id == 'self'
                and node.value.attr in self.self_maps):
            em = self.enum_member(node.slice)
            if em is None:
                refuse(node, 'subscript of a declared self map by something other than an enum member')
            table = self.self_maps[node.value.attr]
            if em[0] not in table:
                return '(Err "KeyError")'
            return k(self.slit(node, table[em[0]]), S)
        ak = self.attr_key(node)
        if ak is not None:
            key, base = ak
            if key in env:           # narrowed, or a store slot
                if key.startswith('self.') and key[5:] in self.stores and env[key][1] not in (Z, B, S, Q):
                    refuse(node, 'read of a store slot that is not written on every path')
                return k(*env[key])
            return k(*self.extra_param(key, base, self.attr_types.get(key, Z)))
        if isinstance(node, ast.UnaryOp):
            if isinstance(node.op, ast.USub):
                if isinstance(node.operand, ast.Constant) and isinstance(node.operand.value, float):
                    return k(self.qlit(node, -node.operand.value), Q)
                return self.ints([node.operand], env, lambda a: k(f'(- {a[0]})', Z))
            if isinstance(node.op, ast.UAdd):
                return self.ints([node.operand], env, lambda a: k(a[0], Z))
            if isinstance(node.op, ast.Not):
                return self.expr(node.operand, env, lambda t, ty: k(f'(negb {t})', B) if ty == B
                                 else refuse(node, '`not` of a non-bool'))
            refuse(node, 'unary operator')
        if isinstance(node, ast.BinOp):
            op = node.op
            if isinstance(op, (ast.Add, ast.Sub, ast.Mult)):
                sym = {ast.Add: '+', ast.Sub: '-', ast.Mult: '*'}[type(op)]
                return self.ints([node.left, node.right], env, lambda a: k(f'({a[0]} {sym} {a[1]})', Z))
            if isinstance(op, (ast.FloorDiv, ast.Mod)):
                r = node.right
                lit = None
                if isinstance(r, ast.Constant) and isinstance(r.value, int) and not isinstance(r.value, bool):
                    lit = r.value
                if isinstance(r, ast.UnaryOp) and isinstance(r.op, ast.USub) and isinstance(r.operand, ast.Constant) \
                        and isinstance(r.operand.value, int) and not isinstance(r.operand.value, bool):
                    lit = -r.operand.value
                if lit is not None and lit != 0:
                    sym = '/' if isinstance(op, ast.FloorDiv) else 'mod'
                    return self.ints([node.left], env, lambda a: k(f'({a[0]} {sym} {zlit(lit)})', Z))
                f = 'py_floordiv' if isinstance(op, ast.FloorDiv) else 'py_mod'

                def kk(a):
                    t = self.fresh()
                    return f'bind ({f} {a[0]} {a[1]}) (fun {t} =>\n{k(t, Z)})'
                return self.ints([node.left, node.right], env, kk)
            refuse(node, 'binary operator outside + - * // %')
        if isinstance(node, ast.BoolOp):
            p = self.pure_boolop(node, env)
            if p is not None:
                return k(p, B)
            return self.cond(node, env, lambda e: k('true', B), lambda e: k('false', B))
        if isinstance(node, ast.Compare):
            return self.compare(node, env, k)
        if isinstance(node, ast.IfExp):
            c, a, b = self.pure(node.test, env), self.pure(node.body, env), self.pure(node.orelse, env)
            if c is None or a is None or b is None or c[1] != B:
                refuse(node, 'conditional expression with effects')
            ty = join([a[1], b[1]])
            return k(f'(if {c[0]} then {coerce(a[0], a[1], ty)} else {coerce(b[0], b[1], ty)})', ty)
        if isinstance(node, ast.Tuple):
            def go(i, acc):
                if i == len(node.elts):
                    return k('(' + ', '.join(t for t, _ in acc) + ')', ('tuple', tuple(ty for _, ty in acc)))
                return self.expr(node.elts[i], env, lambda t, ty: go(i + 1, acc + [(t, ty)]))
            if len(node.elts) < 2:
                refuse(node, 'tuple of fewer than 2 elements')
            return go(0, [])
        if isinstance(node, ast.Call):
            return self.call(node, env, k)
        if isinstance(node, ast.GeneratorExp):
            return self.genexp(node, env, k)
        refuse(node, f'expression form {type(node).__name__}')

    def compare(self, node, env, k):
        ops, operands = node.ops, [node.left] + node.comparators
        sp = self.str_predicate(node, env) or self.opaque_eq(node, env)
        if sp is not None:
            return k(*sp)
        if len(ops) == 1 and isinstance(ops[0], (ast.In, ast.NotIn)):
            # x in (E.A, E.B) over a closed enum
            l, r = operands
            if not (isinstance(r, (ast.Tuple, ast.List, ast.Set)) and r.elts):
                refuse(node, '`in` with something other than a non-empty literal collection of enum members')
            ms = [self.enum_member(e) for e in r.elts]
            pl = self.pure(l, env)
            if pl is None or not is_enum(pl[1]) or any(m is None or m[1] != pl[1] for m in ms):
                refuse(node, '`in` outside `<enum value> in (Enum.A, Enum.B, ...)`')
            b = '(' + ' || '.join(f'({enum_coq(pl[1][1])}_eqb {pl[0]} {m[0]})' for m in ms) + ')'
            return k(b if isinstance(ops[0], ast.In) else f'(negb {b})', B)
        r_none = isinstance(operands[1], ast.Constant) and operands[1].value is None
        old_form = len(ops) != 1 or r_none or (isinstance(operands[1], ast.Constant) and isinstance(operands[1].value, str)
                                               and self.attr_key(operands[0]) is not None)
        if not old_form and isinstance(ops[0], (ast.Eq, ast.NotEq, ast.Is, ast.IsNot)):
            pl, pr = self.pure(operands[0], env), self.pure(operands[1], env)
            if pl is not None and pr is not None and is_enum(pl[1]) and pl[1] == pr[1]:
                # enum members are singletons: `is` and `==` coincide on values of one plain Enum
                b = f'({enum_coq(pl[1][1])}_eqb {pl[0]} {pr[0]})'
                return k(b if isinstance(ops[0], (ast.Eq, ast.Is)) else f'(negb {b})', B)
            if pl is not None and pr is not None and (is_enum(pl[1]) or is_enum(pr[1])):
                refuse(node, 'comparison of an enum value with something of another type')
        if not old_form and (type(ops[0]) in CMP or isinstance(ops[0], (ast.Eq, ast.NotEq))):
            pl, pr = self.pure(operands[0], env), self.pure(operands[1], env)
            if pl is not None and pr is not None and Q in (pl[1], pr[1]):
                def q(p):
                    if p[1] == Q:
                        return p[0]
                    if p[1] == Z:
                        return f'(inject_Z {p[0]})'
                    refuse(node, f'comparison between a float and a value of type {p[1]}')
                a, b = q(pl), q(pr)
                t = {ast.Lt: f'(py_qlt {a} {b})', ast.Gt: f'(py_qlt {b} {a})', ast.LtE: f'(py_qle {a} {b})',
                     ast.GtE: f'(py_qle {b} {a})', ast.Eq: f'(py_qeq {a} {b})',
                     ast.NotEq: f'(negb (py_qeq {a} {b}))'}[type(ops[0])]
                return k(t, B)
        if len(ops) == 1 and isinstance(ops[0], (ast.Is, ast.IsNot)):
            r = operands[1]
            if not (isinstance(r, ast.Constant) and r.value is None):
                refuse(node, '`is` with something other than None')

            def kk(t, ty):
                if ty in OPT_OF or is_enum(ty):
                    b = 'false'
                elif ty == NONE:
                    b = 'true'
                elif ty in BASE_OF:
                    b = f'(is_none {t})'
                else:
                    refuse(node, f'`is None` on a value of type {ty}')
                if isinstance(ops[0], ast.IsNot):
                    b = {'false': 'true', 'true': 'false'}.get(b, f'(negb {b})')
                return k(b, B)
            return self.expr(operands[0], env, kk)
        if len(ops) == 1 and isinstance(ops[0], (ast.Eq, ast.NotEq)):
            # attribute == 'literal'  ->  boolean parameter
            l, r = operands
            if isinstance(r, ast.Constant) and isinstance(r.value, str) and self.attr_key(l) is not None:
                key = f'{src(l)} == {r.value!r}'
                t, ty = self.extra_param(key, f'{self.attr_key(l)[1]}_is_{r.value}', B)
                return k(t if isinstance(ops[0], ast.Eq) else f'(negb {t})', B)

            def k1(lt, lty):
                def k2(rt, rty):
                    if lty == Z and rty == Z:
                        b = f'({lt} =? {rt})'
                    elif lty in (Z, OZ, NONE) and rty in (Z, OZ, NONE):
                        b = f'(opt_eqb {coerce(lt, lty, OZ)} {coerce(rt, rty, OZ)})'
                    elif lty == B and rty == B:
                        b = f'(Bool.eqb {lt} {rt})'
                    else:
                        refuse(node, f'== between {lty} and {rty}')
                    return k(b if isinstance(ops[0], ast.Eq) else f'(negb {b})', B)
                return self.expr(r, env, k2)
            return self.expr(l, env, k1)
        if not all(type(o) in CMP or isinstance(o, (ast.Eq, ast.NotEq)) for o in ops):
            refuse(node, 'comparison operator')
        if len(ops) == 1:
            return self.ints(operands, env, lambda a: k(f'({a[0]} {CMP[type(ops[0])]} {a[1]})', B))
        ps = [self.pure(o, env) for o in operands]
        if any(p is None or p[1] != Z for p in ps):
            refuse(node, 'chained comparison over operands that are not pure ints')
        parts = []
        for i, o in enumerate(ops):
            a, b = ps[i][0], ps[i + 1][0]
            if type(o) in CMP:
                parts.append(f'({a} {CMP[type(o)]} {b})')
            else:
                parts.append(f'({a} =? {b})' if isinstance(o, ast.Eq) else f'(negb ({a} =? {b}))')
        return k('(' + ' && '.join(parts) + ')', B)

    def call(self, node, env, k):
        f = src(node.func)
        if node.keywords:
            refuse(node, 'keyword arguments')
        args = node.args
        if any(isinstance(a, ast.Starred) for a in args):
            refuse(node, 'starred argument')
        text = src(node)
        if text in DTYPE_WIDTH:
            return k(str(DTYPE_WIDTH[text]), Z)
        if f == 'cast' and len(args) == 2:
            return self.expr(args[1], env, k)       # typing.cast returns its argument unchanged
        if f == 'int' and len(args) == 1:
            a = args[0]
            if (isinstance(a, ast.Call) and src(a.func) == 'np.ceil' and len(a.args) == 1 and not a.keywords
                    and isinstance(a.args[0], ast.BinOp) and isinstance(a.args[0].op, ast.Div)):
                d = a.args[0]

                def kk(z):
                    t = self.fresh()
                    return f'bind (py_ceildiv {z[0]} {z[1]}) (fun {t} =>\n{k(t, Z)})'
                return self.ints([d.left, d.right], env, kk)
            # int(((e / K) % 1) * K), K a power-of-two literal: fractional part of e / K in units of 1 / K
            # (-> e mod K; float steps trusted as exact, see Base/PyExt.v py_frac_scaled)
            def p2(n):
                return (isinstance(n, ast.Constant) and isinstance(n.value, int) and not isinstance(n.value, bool)
                        and n.value >= 2 and n.value & (n.value - 1) == 0)
            if (isinstance(a, ast.BinOp) and isinstance(a.op, ast.Mult) and p2(a.right)
                    and isinstance(a.left, ast.BinOp) and isinstance(a.left.op, ast.Mod)
                    and isinstance(a.left.right, ast.Constant) and a.left.right.value == 1
                    and not isinstance(a.left.right.value, bool)
                    and isinstance(a.left.left, ast.BinOp) and isinstance(a.left.left.op, ast.Div)
                    and p2(a.left.left.right) and a.left.left.right.value == a.right.value):
                kk = a.right.value
                return self.ints([a.left.left.left], env, lambda z: k(f'(py_frac_scaled {z[0]} {kk})', Z))
            return self.expr(a, env, lambda t, ty: k(t, Z) if ty == Z else refuse(node, f'int() of a {ty}'))
        sp = self.str_predicate(node, env)
        if sp is not None:
            return k(*sp)
        if f == 'isinstance' and len(args) == 2:
            p = self.fixed_param(args[0])
            if p is None:
                refuse(node, 'isinstance() of something other than a parameter that is never assigned')
            tt = self.type_text(args[1])
            return k(*self.abstract(f'isinstance({p}, {tt})', f'isinstance_{p}_{ident(tt)}', B))
        if f == 'bool' and len(args) == 1:
            def kb(t, ty):
                if ty == B:
                    return k(t, B)
                if ty == Z:
                    return k(f'(negb ({t} =? 0))', B)
                refuse(node, f'bool() of a value of type {ty}')
            return self.expr(args[0], env, kb)
        if f == 'str' and len(args) == 1:
            # str(x) of a str is x (for a str subclass: a plain str with the same characters)
            return self.expr(args[0], env, lambda t, ty: k(t, S) if ty == S else refuse(node, f'str() of a {ty}'))
        if f == 'abs' and len(args) == 1:
            pa = self.pure(args[0], env)
            if pa is not None and pa[1] == Q:
                return k(f'(py_qabs {pa[0]})', Q)
            return self.ints(args, env, lambda a: k(f'(Z.abs {a[0]})', Z))
        if f in ('min', 'max') and len(args) >= 2:
            fn = 'Z.min' if f == 'min' else 'Z.max'

            def kk(a):
                t = a[0]
                for x in a[1:]:
                    t = f'({fn} {t} {x})'
                return k(t, Z)
            return self.ints(args, env, kk)
        if f == 'range' and len(args) in (1, 2):
            return self.ints(args, env, lambda a: k(f'(py_range {a[0]} {a[1]})' if len(a) == 2
                                                    else f'(py_range 0 {a[0]})', ('list', Z)))
        if f == 'iter' and len(args) == 1:
            def kk(t, ty):
                if not (isinstance(ty, tuple) and ty[0] == 'list'):
                    refuse(node, 'iter() of a non-range')
                return k(t, ('iter', ty[1]))
            return self.expr(args[0], env, kk)
        refuse(node, 'call outside the grammar')

    def genexp(self, node, env, k):
        if len(node.generators) != 1:
            refuse(node, 'generator with several `for`')
        g = node.generators[0]
        if g.ifs or g.is_async:
            refuse(node, 'generator with `if`')
        it = g.iter
        if not (isinstance(it, ast.Call) and src(it.func) == 'itertools.product' and len(it.args) == 2
                and not it.keywords):
            refuse(node, 'generator over something other than itertools.product(xs, ys)')
        if not (isinstance(g.target, ast.Tuple) and len(g.target.elts) == 2
                and all(isinstance(e, ast.Name) for e in g.target.elts)):
            refuse(node, 'generator target is not a pair of names')
        a, b = (e.id for e in g.target.elts)

        def k1(xt, xty):
            def k2(yt, yty):
                for ty in (xty, yty):
                    if not (isinstance(ty, tuple) and ty[0] in ('list', 'iter') and ty[1] == Z):
                        refuse(node, 'itertools.product over non-ranges')
                e2 = dict(env)
                e2[a], e2[b] = (f'v_{a}', Z), (f'v_{b}', Z)
                p = self.pure(node.elt, e2)
                if p is None:
                    refuse(node, 'generator element with effects')
                return k(f"(map (fun '(v_{a}, v_{b}) => {p[0]}) (py_product {xt} {yt}))", ('list', p[1]))
            return self.expr(it.args[1], env, k2)
        return self.expr(it.args[0], env, k1)

    # ------------------------------------------------------------------ conditions
    def cond(self, node, env, kt, kf):
        if isinstance(node, ast.BoolOp):
            p = self.pure_boolop(node, env)
            if p is not None:
                return f'(if {p}\nthen {kt(env)}\nelse {kf(env)})'
            vs = node.values
            rest = vs[1] if len(vs) == 2 else ast.BoolOp(op=node.op, values=vs[1:])
            if isinstance(node.op, ast.And):
                return self.cond(vs[0], env, lambda e: self.cond(rest, e, kt, kf), kf)
            return self.cond(vs[0], env, kt, lambda e: self.cond(rest, e, kt, kf))
        if isinstance(node, ast.UnaryOp) and isinstance(node.op, ast.Not):
            return self.cond(node.operand, env, kf, kt)
        if (isinstance(node, ast.Compare) and len(node.ops) == 1 and isinstance(node.ops[0], (ast.Is, ast.IsNot))
                and isinstance(node.comparators[0], ast.Constant) and node.comparators[0].value is None):
            l = node.left
            key = l.id if isinstance(l, ast.Name) else (self.attr_key(l) or [None])[0]
            if key is not None:
                if isinstance(l, ast.Name):
                    if key not in env:
                        refuse(l, 'name is not a parameter or a local assigned on every path')
                    t, ty = env[key]
                else:
                    t, ty = env[key] if key in env else self.extra_param(key, self.attr_key(l)[1],
                                                                          self.attr_types.get(key, Z))
                k_none, k_some = (kt, kf) if isinstance(node.ops[0], ast.Is) else (kf, kt)
                if ty in OPT_OF or is_enum(ty):
                    return k_some(env)
                if ty == NONE:
                    return k_none(env)
                if ty in BASE_OF:
                    e_some = dict(env)
                    e_some[key] = (t, BASE_OF[ty])          # the Gallina name is shadowed by the payload
                    return f'(match {t} with\n| Some {t} => {k_some(e_some)}\n| None => {k_none(env)}\nend)'
        return self.expr(node, env, lambda t, ty: f'(if {t}\nthen {kt(env)}\nelse {kf(env)})' if ty == B
                         else refuse(node, f'condition of type {ty} (truthiness of non-bools is not supported)'))

    # ------------------------------------------------------------------ statements
    def block(self, stmts, env, kont):
        if not stmts:
            return kont(env)
        s, rest = stmts[0], stmts[1:]

        def nxt(e):
            return self.block(rest, e, kont)
        if isinstance(s, ast.Pass) or (isinstance(s, ast.Expr) and isinstance(s.value, ast.Constant)
                                        and isinstance(s.value.value, str)):
            return nxt(env)
        if isinstance(s, ast.Return):
            if s.value is None:
                return self.emit_return('tt', UNIT)
            return self.expr(s.value, env, self.emit_return)
        if isinstance(s, ast.Raise):
            e = s.exc
            if e is None:
                refuse(s, 'bare raise')
            if s.cause is not None and not (isinstance(s.cause, ast.Constant) and s.cause.value is None):
                refuse(s, 'raise ... from <expr>')
            cls = e.func if isinstance(e, ast.Call) else e
            if not (isinstance(cls, ast.Name) and is_exception_name(cls.id)):
                refuse(s, 'raise of something other than a builtin exception class')
            return f'(Err "{cls.id}")'
        if isinstance(s, (ast.Assign, ast.AnnAssign, ast.AugAssign)):
            if isinstance(s, ast.Assign):
                if len(s.targets) != 1:
                    refuse(s, 'multiple assignment targets')
                tg, val = s.targets[0], s.value
            elif isinstance(s, ast.AnnAssign):
                tg, val = s.target, s.value
                if val is None:
                    return nxt(env)
            else:
                tg, val = s.target, ast.BinOp(left=ast.Name(id=s.target.id, ctx=ast.Load()) if isinstance(
                    s.target, ast.Name) else s.target, op=s.op, right=s.value)
                ast.copy_location(val, s)
                ast.fix_missing_locations(val)
            sk = store_key(tg, self.stores)
            if sk is not None and isinstance(s, ast.AugAssign):
                refuse(s, 'augmented assignment to a store slot')
            if not isinstance(tg, ast.Name) and sk is None:
                refuse(s, 'assignment to something other than a simple name (or a declared store slot of self)')
            key = sk if sk is not None else tg.id
            v = var(key)

            def kk(t, ty):
                if isinstance(ty, tuple) and ty[0] == 'iter':
                    self.iter_vars.add(key)
                if sk is not None and ty not in (Z, B, S, Q):
                    refuse(s, f'store of a value of type {ty}')
                e2 = dict(env)
                e2[key] = (v, ty)
                return f'let {v} := {t} in\n{nxt(e2)}'
            return self.expr(val, env, kk)
        if isinstance(s, ast.If):
            return self.stmt_if(s, rest, env, kont)
        refuse(s, f'statement form {type(s).__name__}')

    def emit_return(self, t, ty):
        self.ret_types.append(ty)
        if self.ret_join is not None:
            t = coerce(t, ty, self.ret_join)
        return f'ret {t}'

    def stmt_if(self, s, rest, env, kont):
        def nxt(e):
            return self.block(rest, e, kont)
        if contains(s.body + s.orelse, ast.Return):
            return self.cond(s.test, env, lambda e: self.block(s.body, e, nxt), lambda e: self.block(s.orelse, e, nxt))
        names = assigned_names(s.body + s.orelse, self.stores)
        ends = []

        def rec(e):
            ends.append(e)
            return 'X'
        n0 = self.n
        self.cond(s.test, env, lambda e: self.block(s.body, e, rec), lambda e: self.block(s.orelse, e, rec))
        self.n = n0
        if not ends:        # every path raises: the rest is unreachable
            return self.cond(s.test, env, lambda e: self.block(s.body, e, rec), lambda e: self.block(s.orelse, e, rec))
        jt = {}
        # a name that is not bound on every path that falls through is not exported: a later
        # read of it is refused ("not ... assigned on every path")
        dropped = [nm for nm in names if any(nm not in e for e in ends)]
        names = [nm for nm in names if nm not in dropped]
        for nm in names:
            jt[nm] = join([e[nm][1] for e in ends])
            if isinstance(jt[nm], tuple) and jt[nm][0] == 'iter':
                refuse(s, 'iterator assigned inside a branch')

        def done(e):
            if not names:
                return 'ret tt'
            return 'ret (' + ', '.join(coerce(e[nm][0], e[nm][1], jt[nm]) for nm in names) + ')'
        blk = self.cond(s.test, env, lambda e: self.block(s.body, e, done), lambda e: self.block(s.orelse, e, done))
        e2 = dict(env)
        for nm in dropped:
            e2.pop(nm, None)
        for nm in names:
            e2[nm] = (var(nm), jt[nm])
        if not names:
            pat = '_'
        elif len(names) == 1:
            pat = var(names[0])
        else:
            pat = "'(" + ', '.join(var(nm) for nm in names) + ')'
        inner = nxt(e2)
        if names and inner in ('ret (' + ', '.join(var(nm) for nm in names) + ')', f'ret {var(names[0])}'):
            return blk                  # `bind m ret` = m
        return f'bind ({blk}) (fun {pat} =>\n{inner})'

    # ------------------------------------------------------------------ top level
    def translate(self):
        env = {p: (f'v_{p}', ty) for p, ty in self.params}
        for kw in self.stores:
            env['self.' + kw] = ('(@None Z)', NONE)      # slot not written yet = attribute absent

        def fall_off(e):
            if self.outputs is not None:
                ts = [e[o] if o in e else refuse(self.fn, f'fragment output `{o}` is not assigned') for o in self.outputs]
                if len(ts) == 1:
                    return self.emit_return(*ts[0])
                return self.emit_return('(' + ', '.join(t for t, _ in ts) + ')', ('tuple', tuple(ty for _, ty in ts)))
            return self.emit_return('tt', UNIT)
        self.ret_join, self.ret_types, self.n = None, [], 0
        self.block(self.body, env, fall_off)
        if not self.ret_types:
            raise Refuse('no path returns')
        rts = list(dict.fromkeys(self.ret_types))
        if UNIT in rts and len(rts) > 1:
            raise Refuse('some paths return a value and others fall off the end / return nothing')
        self.ret_join = join(rts)
        self.n = 0
        body = self.block(self.body, env, fall_off)
        extras = list(self.extra.values())
        # canonical order of the extra parameters, independent of the order of first use in the source (the
        # equivalence statements apply t_<f> positionally: first-use order would let an edit that exchanges the
        # roles of two same-typed observations go unnoticed)
        if self.extras_order is not None and sorted(n for n, _ in extras) == sorted(self.extras_order):
            extras.sort(key=lambda e: self.extras_order.index(e[0]))
        elif self.extras_order is None:
            extras.sort()
        ps = [(f'v_{p}', ty) for p, ty in self.params] + extras
        self.extra_names = [n for n, _ in extras]
        sig = ' '.join(f'({n} : {coq_type(ty)})' for n, ty in ps)
        rt = self.ret_join
        if isinstance(rt, tuple) and rt[0] == 'iter':
            raise Refuse('returns an iterator')
        text = f'Definition t_{self.name} {sig} : res {coq_type(rt)} :=\n{body}.\n'
        return text, ps, rt


def indent(text):
    """cosmetic re-indentation by bracket depth"""
    out, depth = [], 0
    for ln in text.split('\n'):
        s = ln.strip()
        d = depth - (1 if s.startswith(('end', ')')) else 0)
        out.append('  ' * max(d, 0) + s)
        depth += ln.count('(') - ln.count(')') + len(re.findall(r'\bmatch\b', ln)) - len(re.findall(r'\bend\b', ln))
    return '\n'.join(out)


# --------------------------------------------------------------------------
# targets
# --------------------------------------------------------------------------
def find_def(tree, path):
    node = tree
    for nm in path:
        hits = [n for n in node.body if isinstance(n, (ast.FunctionDef, ast.ClassDef)) and n.name == nm]
        if len(hits) != 1:
            raise Refuse(f'expected exactly one definition of `{nm}` in {".".join(path)}, found {len(hits)}')
        node = hits[0]
    if not isinstance(node, ast.FunctionDef):
        raise Refuse(f'{".".join(path)} is not a function')
    return node


def frag_raw_frame(fn):
    """get_raw_frame: the native (not encapsulated) branch; its last statement must be
    `return self.PixelData[start:end]`; the fragment computes (start, end) from frame_index."""
    ifs = [n for n in fn.body if isinstance(n, ast.If) and src(n.test) == 'UID(self.file_meta.TransferSyntaxUID).is_encapsulated']
    if len(ifs) != 1 or fn.body[-1] is not ifs[0]:
        raise Refuse('get_raw_frame: `if UID(...).is_encapsulated` is not the unique last statement')
    pre = [src(s) for s in fn.body if not (isinstance(s, ast.Expr) and isinstance(s.value, ast.Constant))][:1]
    if pre != ['frame_index = self._standardize_frame_index(frame_number, as_index)']:
        raise Refuse(f'get_raw_frame: frame_index is not computed by _standardize_frame_index first: {pre}')
    body = ifs[0].orelse
    if not body or src(body[-1]) != 'return self.PixelData[start:end]':
        raise Refuse('get_raw_frame: native branch does not end with `return self.PixelData[start:end]`')
    for s in fn.body:
        if s is not ifs[0] and 'frame_index' in assigned_names([s]) and src(s) != pre[0]:
            raise Refuse('get_raw_frame: frame_index reassigned')
    return body[:-1]


def frag_read_frame_nbytes(fn):
    """ImageFileReader.read_frame_raw (state after the D118 fix): the index guard + the native (not encapsulated)
    branch up to `self._fp.seek(self._first_frame_offset + frame_offset, 0)`; `frame_data = self._fp.read(n_bytes)`;
    the fragment computes (frame_offset, n_bytes) from index.  Nothing but logging may stand between the guard and
    the branch, and the seek / read at the end of the native branch must be textually unchanged."""
    body = _stmts(fn)
    texts = [src(s) for s in body]
    ifs = [n for n in body if isinstance(n, ast.If) and src(n.test) == 'self.transfer_syntax_uid.is_encapsulated']
    if len(ifs) != 1:
        raise Refuse('read_frame_raw: no unique `if self.transfer_syntax_uid.is_encapsulated`')
    i = body.index(ifs[0])
    if not (isinstance(body[0], ast.If) and isinstance(body[0].body[-1], ast.Raise) and not body[0].orelse):
        raise Refuse('read_frame_raw: the first statement is not the index guard')
    pre = [t for t in texts[1:i] if not t.startswith('logger.')]
    if pre != []:
        raise Refuse(f'read_frame_raw: statements between the guard and the branch: {pre}')
    native = ifs[0].orelse
    if len(native) < 3 or [src(s) for s in native[-2:]] != [
            'self._fp.seek(self._first_frame_offset + frame_offset, 0)', 'frame_data = self._fp.read(n_bytes)']:
        raise Refuse('read_frame_raw: native branch does not end with the seek to _first_frame_offset + frame_offset '
                     'and `frame_data = self._fp.read(n_bytes)`')
    if texts[i + 1:] != ["if len(frame_data) == 0:\n    raise OSError(f'Failed to read frame #{index}.')", 'return frame_data']:
        raise Refuse('read_frame_raw: the code after the branch changed')
    for s in body[:i] + native:
        if 'index' in assigned_names([s]):
            raise Refuse('read_frame_raw: index reassigned')
    return [body[0]] + native[:-2]


def frag_getitem_size(fn):
    """_prepare_getitem_index: inside `for d in range(0, 3)`, the branch `if len(tuple_index) > d:`:
    the statements between `first, last, step = index_item.indices(...)` and `new_shape.append(size)`."""
    loops = [n for n in fn.body if isinstance(n, ast.For) and src(n.iter) == 'range(0, 3)']
    if len(loops) != 1:
        raise Refuse('_prepare_getitem_index: no unique `for d in range(0, 3)`')
    ifs = [n for n in loops[0].body if isinstance(n, ast.If) and src(n.test) == 'len(tuple_index) > d']
    if len(ifs) != 1:
        raise Refuse('_prepare_getitem_index: no unique `if len(tuple_index) > d`')
    body = ifs[0].body
    texts = [src(s) for s in body]
    try:
        i = texts.index('first, last, step = index_item.indices(self.spatial_shape[d])')
        j = texts.index('new_shape.append(size)')
    except ValueError:
        raise Refuse('_prepare_getitem_index: `first, last, step = index_item.indices(...)` ... '
                     '`new_shape.append(size)` not found')
    if not i < j:
        raise Refuse('_prepare_getitem_index: statements out of order')
    for s in body[j + 1:] + loops[0].body[loops[0].body.index(ifs[0]) + 1:]:
        if 'size' in assigned_names([s]):
            raise Refuse('_prepare_getitem_index: size reassigned')
    return body[i + 1:j]


def _stmts(fn):
    """body of fn without the docstring"""
    return [s for s in fn.body if not (isinstance(s, ast.Expr) and isinstance(s.value, ast.Constant)
                                       and isinstance(s.value.value, str))]


def frag_tile_positions_counts(fn):
    """compute_tile_positions_per_frame: the two assignments `tiles_per_column = ...`, `tiles_per_row = ...`;
    everything after them (meshgrid order, scaling by [columns, rows], transformer call, `+= 1`, zip) must be
    textually what the hand model C12_Model.tile_offsets / tile_positions mirrors."""
    body = _stmts(fn)
    names = [assigned_names([s]) for s in body]
    try:
        i, j = names.index(['tiles_per_column']), names.index(['tiles_per_row'])
    except ValueError:
        raise Refuse('compute_tile_positions_per_frame: tiles_per_column / tiles_per_row are not single assignments')
    if j != i + 1:
        raise Refuse('compute_tile_positions_per_frame: tiles_per_column, tiles_per_row are not adjacent')
    want = ["tile_indices = np.stack(np.meshgrid(range(tiles_per_column), range(tiles_per_row), "
            "indexing='xy')).reshape(2, -1).T",
            'pixel_indices = tile_indices * [columns, rows]',
            'transformer = PixelToReferenceTransformer(image_position=total_pixel_matrix_image_position, '
            'image_orientation=image_orientation, pixel_spacing=pixel_spacing)',
            'image_positions = transformer(pixel_indices)',
            'pixel_indices += 1',
            'return list(zip(pixel_indices.tolist(), image_positions.tolist()))']
    got = [src(s) for s in body[j + 1:]]
    if got != want:
        bad = next((g for g, w in zip(got, want) if g != w), 'number of statements')
        raise Refuse(f'compute_tile_positions_per_frame: the code after the tile counts changed: `{bad[:90]}`')
    for s in body[:i]:
        if set(assigned_names([s])) & {'rows', 'columns', 'total_pixel_matrix_rows', 'total_pixel_matrix_columns'}:
            raise Refuse('compute_tile_positions_per_frame: a size parameter is reassigned before the tile counts')
    return body[i:j + 1]


class _ShapeToName(ast.NodeTransformer):
    """pixel_array.shape[0] -> n_rows, pixel_array.shape[1] -> n_cols (any other use of pixel_array is left
    alone and is then refused by the translator)"""
    def visit_Subscript(self, node):
        if src(node) == 'pixel_array.shape[0]':
            return ast.copy_location(ast.Name(id='n_rows', ctx=ast.Load()), node)
        if src(node) == 'pixel_array.shape[1]':
            return ast.copy_location(ast.Name(id='n_cols', ctx=ast.Load()), node)
        return self.generic_visit(node)


def frag_tile_array_bounds(fn):
    """get_tile_array: everything before `tile_array = pixel_array[row_offset:row_end, column_offset:column_end]`
    (offset checks, 1-based -> 0-based, clipping, pad sizes) with pixel_array.shape[0|1] read as the ints
    n_rows, n_cols; the slicing / padding statements after it must be textually unchanged."""
    import copy
    body = _stmts(fn)
    texts = [src(s) for s in body]
    cut = 'tile_array = pixel_array[row_offset:row_end, column_offset:column_end]'
    if texts.count(cut) != 1:
        raise Refuse('get_tile_array: no unique `' + cut + '`')
    i = texts.index(cut)
    want = [cut,
            'if pad and (pad_rows > 0 or pad_columns > 0):\n'
            '    extra_dims = pixel_array.ndim - 2\n'
            '    padding = [(0, pad_rows), (0, pad_columns)] + [(0, 0)] * extra_dims\n'
            '    tile_array = np.pad(tile_array, padding)',
            'return tile_array']
    if texts[i:] != want:
        bad = next((g for g, w in zip(texts[i:], want) if g != w), 'number of statements')
        raise Refuse(f'get_tile_array: the slicing / padding code changed: `{bad[:90]}`')
    if [a.arg for a in fn.args.args] != ['pixel_array', 'row_offset', 'column_offset', 'tile_rows', 'tile_columns', 'pad']:
        raise Refuse('get_tile_array: parameter list changed')
    out = [_ShapeToName().visit(copy.deepcopy(s)) for s in body[:i]]
    for s in out:
        ast.fix_missing_locations(s)
    return out


def frag_plane_position_offsets(fn):
    """compute_plane_position_tiled_full: the index check and the two frame offsets; the uses of the offsets
    (index=(column, row) of the transform, pixel_matrix_position = offsets + 1) must be textually unchanged."""
    body = _stmts(fn)
    texts = [src(s) for s in body]
    try:
        i = texts.index("if row_index < 1 or column_index < 1:\n    raise ValueError('Row and column indices must be positive integers.')")
    except ValueError:
        raise Refuse('compute_plane_position_tiled_full: index check not found')
    if [assigned_names([s]) for s in body[i + 1:i + 3]] != [['row_offset_frame'], ['column_offset_frame']]:
        raise Refuse('compute_plane_position_tiled_full: offsets are not assigned right after the index check')
    rest = body[i + 3:]
    for s in rest:
        if set(assigned_names([s])) & {'row_offset_frame', 'column_offset_frame', 'rows', 'columns'}:
            raise Refuse('compute_plane_position_tiled_full: offsets reassigned')
    uses = [src(s) for s in rest if 'offset_frame' in src(s)]
    want = ['x, y, z = map_pixel_into_coordinate_system(index=(column_offset_frame, row_offset_frame), '
            'image_position=(x_offset, y_offset, z_offset), image_orientation=image_orientation, '
            'pixel_spacing=pixel_spacing)',
            'return PlanePositionSequence(coordinate_system=CoordinateSystemNames.SLIDE, image_position=(x, y, z), '
            'pixel_matrix_position=(column_offset_frame + 1, row_offset_frame + 1))']
    if uses != want:
        bad = next((g for g, w in zip(uses, want) if g != w), 'number of statements')
        raise Refuse(f'compute_plane_position_tiled_full: the uses of the offsets changed: `{bad[:90]}`')
    return body[i:i + 3]


def _cut(fn, what, first, last_pred, frozen, after_frozen=(), at_start=False):
    """statements of fn from the unique one whose text starts with `first` up to and including the first later
    one satisfying last_pred; none of `frozen` may be assigned before the cut (they are parameters of the
    fragment) and none of `after_frozen` after it (they are its outputs, used by the rest of the function)."""
    body = _stmts(fn)
    texts = [src(s) for s in body]
    hits = [i for i, t in enumerate(texts) if t.startswith(first)]
    if at_start and hits[:1] == [0]:
        hits = [0]
    if len(hits) != 1:
        raise Refuse(f'{what}: expected exactly one statement starting with `{first}`, found {len(hits)}')
    i = hits[0]
    js = [j for j in range(i, len(body)) if last_pred(texts[j])]
    if not js:
        raise Refuse(f'{what}: end of the fragment not found')
    j = js[0]
    for s in body[:i]:
        bad = set(assigned_names([s])) & set(frozen)
        if bad:
            raise Refuse(f'{what}: {sorted(bad)} assigned before the fragment')
    for s in body[j + 1:]:
        bad = set(assigned_names([s])) & set(after_frozen)
        if bad:
            raise Refuse(f'{what}: {sorted(bad)} reassigned after the fragment')
    return body[i:j + 1], body[:i], body[j + 1:]


C06_FLAGS = ['apply_real_world_transform', 'apply_modality_transform', 'apply_voi_transform',
             'apply_palette_color_lut', 'apply_icc_profile']
C06_USES = ['use_rwvm', 'require_rwvm', 'use_modality', 'require_modality', 'use_voi', 'require_voi',
            'use_palette_color', 'require_palette_color', 'use_icc', 'require_icc']


def frag_pixel_transform_flags(fn):
    """_CombinedPixelTransform.__init__: from `if apply_real_world_transform is None:` up to and including
    `if require_icc and self._color_type == _ImageColorType.MONOCHROME: raise ...` - the tri-state flag
    resolution and every incompatibility check.  `self._color_type` must be assigned exactly once, by
    `self._color_type = _deduce_color_type(image)` before the fragment (the types of the five flags are read
    from their current annotations); the use_* / require_* results must not be reassigned afterwards."""
    what = '_CombinedPixelTransform.__init__'
    frag, before, after = _cut(fn, what, 'if apply_real_world_transform is None:',
                               lambda t: t.startswith('if require_icc and'), C06_FLAGS, C06_USES)
    sets = [src(s) for s in _stmts(fn) for n in ast.walk(s)
            if isinstance(n, (ast.Assign, ast.AugAssign, ast.AnnAssign))
            and '_color_type' in src(n.targets[0] if isinstance(n, ast.Assign) else n.target)]
    if sets != ['self._color_type = _deduce_color_type(image)'] or \
            'self._color_type = _deduce_color_type(image)' not in [src(s) for s in before]:
        raise Refuse(f'{what}: self._color_type is not assigned exactly once, before the flags: {sets}')
    return frag


C17_SLOTS = ['CodeValue', 'LongCodeValue', 'URNCodeValue', 'CodeMeaning', 'CodingSchemeDesignator',
             'CodingSchemeVersion']


def frag_coded_concept_init(fn):
    """CodedConcept.__init__: the whole body after `super().__init__()` (which leaves an empty Dataset:
    every store slot starts absent)."""
    body = _stmts(fn)
    if not body or src(body[0]) != 'super().__init__()':
        raise Refuse('CodedConcept.__init__: the first statement is not `super().__init__()`')
    return body[1:]


C11_HEAD_PARAMS = ['sort', 'allow_duplicate_positions', 'allow_missing_positions', 'spacing_hint', 'rtol', 'atol']


def frag_volume_positions_head(fn):
    """get_volume_positions: everything from the first statement up to and including the tolerance chain
    `if atol is not None and rtol is not None: raise TypeError ... else: rtol = <default>; atol = 0.0`
    (flag guards, normalisation of spacing_hint, tolerance defaults); spacing_hint / rtol / atol must not be
    reassigned afterwards."""
    what = 'get_volume_positions'
    frag, before, after = _cut(fn, what, 'if not sort:', lambda t: (t.startswith('if ') and 'atol is not None' in t.split('\n')[0]
                                          and 'rtol is not None' in t.split('\n')[0]),
                               C11_HEAD_PARAMS, ['spacing_hint', 'rtol', 'atol', 'sort', 'allow_duplicate_positions',
                                                 'allow_missing_positions'], at_start=True)
    if before:
        raise Refuse(f'{what}: statements before `if not sort:`: `{src(before[0])[:60]}`')
    return frag


def frag_decode_bit_window(fn):
    """frame.decode_frame: inside `if bits_allocated == 1 and not is_encapsulated:` the two assignments
    `n_pixels = ...`, `pixel_offset = ...`; the statements around them (unpack_bits of the whole value, the slice
    [pixel_offset:pixel_offset + n_pixels], the reshapes) must be textually unchanged."""
    body = _stmts(fn)
    ifs = [n for n in body if isinstance(n, ast.If) and src(n.test) == 'bits_allocated == 1 and (not is_encapsulated)']
    if len(ifs) != 1 or ifs[0].orelse:
        raise Refuse('decode_frame: no unique `if bits_allocated == 1 and not is_encapsulated:` without else')
    i = body.index(ifs[0])
    if [src(s) for s in body[:i]] != ['is_encapsulated = UID(transfer_syntax_uid).is_encapsulated']:
        raise Refuse('decode_frame: the statements before the single-bit branch changed')
    b = ifs[0].body
    texts = [src(s) for s in b]
    want_head = ['unpacked_frame = cast(np.ndarray, unpack_bits(value))']
    want_tail = ['pixel_array = unpacked_frame[pixel_offset:pixel_offset + n_pixels]',
                 'if samples_per_pixel > 1:\n    return pixel_array.reshape(rows, columns, samples_per_pixel)',
                 'return pixel_array.reshape(rows, columns)']
    if len(b) != 6 or texts[:1] != want_head or texts[3:] != want_tail:
        raise Refuse('decode_frame: the single-bit branch around n_pixels / pixel_offset changed')
    if [assigned_names([s]) for s in b[1:3]] != [['n_pixels'], ['pixel_offset']]:
        raise Refuse('decode_frame: n_pixels / pixel_offset are not the two assignments after unpack_bits')
    return b[1:3]


PM_BITS_SLOTS = ['BitsAllocated', 'BitsStored', 'HighBit', 'PixelRepresentation']


def frag_pm_bits(fn):
    """ParametricMap.__init__: the `if pixel_data_type == _PixelDataType.USHORT: ... else: raise` chain right after
    `pixel_data_type, pixel_data_attr = self._get_pixel_data_type_and_attr(pixel_array)`; none of the four slots
    may be stored anywhere else in __init__."""
    body = _stmts(fn)
    texts = [src(s) for s in body]
    call = 'pixel_data_type, pixel_data_attr = self._get_pixel_data_type_and_attr(pixel_array)'
    if texts.count(call) != 1:
        raise Refuse('ParametricMap.__init__: no unique `' + call + '`')
    i = texts.index(call)
    if i + 1 >= len(body) or not (isinstance(body[i + 1], ast.If)
                                  and src(body[i + 1].test) == 'pixel_data_type == _PixelDataType.USHORT'):
        raise Refuse('ParametricMap.__init__: the pixel data type chain does not follow the call')
    for s in body[:i] + body[i + 2:]:
        for n in ast.walk(s):
            if isinstance(n, ast.Attribute) and isinstance(n.ctx, ast.Store) and n.attr in PM_BITS_SLOTS:
                raise Refuse(f'ParametricMap.__init__: {n.attr} is also stored outside the chain')
            if isinstance(n, ast.Constant) and n.value in PM_BITS_SLOTS:
                raise Refuse(f'ParametricMap.__init__: {n.value} mentioned by name outside the chain')
        if 'pixel_data_type' in assigned_names([s]) and s is not body[i]:
            raise Refuse('ParametricMap.__init__: pixel_data_type reassigned')
    return [body[i + 1]]


IMG, SPATIAL, SEGSOP, VOLUME = 'image.py', 'spatial.py', 'seg/sop.py', 'volume.py'
FUNCTIONS = {
    # generated name -> how to find / cut the source
    'standardize_frame_index': dict(file=IMG, path=['_Image', '_standardize_frame_index']),
    'standardize_slice_indices': dict(file=IMG, path=['_Image', '_standardize_slice_indices']),
    'standardize_row_column_indices': dict(file=IMG, path=['_Image', '_standardize_row_column_indices']),
    'raw_frame_native_range': dict(file=IMG, path=['_Image', 'get_raw_frame'], fragment=frag_raw_frame,
                                   params=[('frame_index', Z)], outputs=['start', 'end'],
                                   extras=['a_PhotometricInterpretation_is_YBR_FULL_422', 'a_Rows', 'a_Columns',
                                           'a_SamplesPerPixel', 'a_BitsAllocated']),
    'bytes_per_frame_uncompressed': dict(file='io.py', path=['ImageFileReader', '_bytes_per_frame_uncompressed'],
                                         extras=['a_pixels_per_frame', 'a_metadata_BitsAllocated',
                                                 'a_metadata_PhotometricInterpretation_is_YBR_FULL_422',
                                                 'a_metadata_Rows', 'a_metadata_Columns']),
    'read_frame_nbytes': dict(file='io.py', path=['ImageFileReader', 'read_frame_raw'], fragment=frag_read_frame_nbytes,
                              params=[('index', Z)], outputs=['frame_offset', 'n_bytes'],
                              extras=['a_number_of_frames', 'a_bytes_per_frame_uncompressed', 'a_metadata_BitsAllocated',
                                      'a_pixels_per_frame']),
    'tile_pixel_matrix': dict(file=SPATIAL, path=['tile_pixel_matrix']),
    'tile_positions_counts': dict(file=SPATIAL, path=['compute_tile_positions_per_frame'],
                                  fragment=frag_tile_positions_counts,
                                  params=[('rows', Z), ('columns', Z), ('total_pixel_matrix_rows', Z),
                                          ('total_pixel_matrix_columns', Z)],
                                  outputs=['tiles_per_column', 'tiles_per_row']),
    'tile_array_bounds': dict(file=SPATIAL, path=['get_tile_array'], fragment=frag_tile_array_bounds,
                              params=[('row_offset', Z), ('column_offset', Z), ('tile_rows', Z), ('tile_columns', Z),
                                      ('n_rows', Z), ('n_cols', Z)],
                              outputs=['row_offset', 'row_end', 'column_offset', 'column_end', 'pad_rows',
                                       'pad_columns']),
    'plane_position_offsets': dict(file='utils.py', path=['compute_plane_position_tiled_full'],
                                   fragment=frag_plane_position_offsets,
                                   params=[('row_index', Z), ('column_index', Z), ('rows', Z), ('columns', Z)],
                                   outputs=['row_offset_frame', 'column_offset_frame']),
    'get_unsigned_dtype': dict(file=SEGSOP, path=['_get_unsigned_dtype']),
    'getitem_check_int': dict(file=VOLUME, path=['_VolumeBase', '_prepare_getitem_index', '_check_int'],
                              params=[('val', Z)]),
    'getitem_check_slice': dict(file=VOLUME, path=['_VolumeBase', '_prepare_getitem_index', '_check_slice'],
                                params=[], attr_types={'val.start': OZ, 'val.stop': OZ},
                                extras=['a_val_start', 'a_spatial_shape_dim', 'a_val_stop']),
    'getitem_size': dict(file=VOLUME, path=['_VolumeBase', '_prepare_getitem_index'], fragment=frag_getitem_size,
                         params=[('first', Z), ('last', Z), ('step', Z)], outputs=['size']),
    # ---- T-int 2 (tri-state flags, enums, opaque strings, store slots, rationals)
    'pixel_transform_flags': dict(file=IMG, path=['_CombinedPixelTransform', '__init__'],
                                  fragment=frag_pixel_transform_flags,
                                  param_names=C06_FLAGS, outputs=C06_USES,
                                  attr_types={'self._color_type': ('enum', '_ImageColorType')},
                                  enums={'_ImageColorType': IMG}),
    'volume_positions_head': dict(file=SPATIAL, path=['get_volume_positions'], fragment=frag_volume_positions_head,
                                  param_names=C11_HEAD_PARAMS, outputs=['spacing_hint', 'rtol', 'atol'],
                                  consts={'_DEFAULT_SPACING_RELATIVE_TOLERANCE': Q}),
    'decode_bit_window': dict(file='frame.py', path=['decode_frame'], fragment=frag_decode_bit_window,
                              param_names=['index', 'rows', 'columns', 'samples_per_pixel'],
                              outputs=['n_pixels', 'pixel_offset']),
    'pm_pixel_data_type': dict(file='pm/sop.py', path=['ParametricMap', '_get_pixel_data_type_and_attr'], params=[],
                               enums={'_PixelDataType': 'pm/sop.py'}, self_maps={'_pixel_data_type_map': '_PixelDataType'}),
    'pm_bits': dict(file='pm/sop.py', path=['ParametricMap', '__init__'], fragment=frag_pm_bits,
                    params=[('pixel_data_type', ('enum', '_PixelDataType'))], enums={'_PixelDataType': 'pm/sop.py'},
                    stores=PM_BITS_SLOTS, outputs=['self.' + k for k in PM_BITS_SLOTS]),
    'coded_concept_init': dict(file='sr/coding.py', path=['CodedConcept', '__init__'], fragment=frag_coded_concept_init,
                               stores=C17_SLOTS, outputs=['self.' + k for k in C17_SLOTS]),
}

# obligation key -> (generated function, hand model module, statement shown in the evidence)
TARGETS = {
    'frame_index/C05': dict(fn='standardize_frame_index', statement=
                            'forall f ai n, t_standardize_frame_index f ai n = C05_Model.std_index n f ai'),
    'raw_frame_range/C05': dict(fn='raw_frame_native_range', statement=
                                'forall i ybr R C spp bits, t_raw_frame_native_range i ybr R C spp bits = '
                                'Ok (C05_Model.eager_range bits (if ybr then R*C*2 else R*C*spp) i)'),
    'bytes_per_frame/C05': dict(fn='bytes_per_frame_uncompressed', statement=
                                'forall ppf bits ybr R C, t_bytes_per_frame_uncompressed ppf bits ybr R C = '
                                'Ok (C05_Model.lazy_bpf bits (if negb (bits =? 1) && ybr then R*C*2 else ppf))'),
    'read_frame_nbytes/C05': dict(fn='read_frame_nbytes', statement=
                                  'forall i n bits npx, t_read_frame_nbytes i n (C05_Model.lazy_bpf bits npx) bits npx = '
                                  'if (i <? 0) || (i >=? n) then Err "ValueError" else Ok (C05_Model.lazy_offset bits npx i, '
                                  'C05_Model.lazy_nbytes bits npx i)   (index guard + frame offset + number of bytes read by '
                                  'the native branch of read_frame_raw, all from the current metadata: D118 fix)'),
    'slice_indices/C03': dict(fn='standardize_slice_indices', statement=
                              'forall s e n ai, t_standardize_slice_indices s e n ai = C03_Model.std_slice s e n ai'),
    'row_column_indices/C03': dict(fn='standardize_row_column_indices', pre=['TInt_Spec_rc'], statement=
                                   'forall rs re cs ce R C ai oi, t_standardize_row_column_indices rs re cs ce R C ai oi = '
                                   'C03_Model.std_rc rs re cs ce R C ai oi'),
    'row_column_indices/C04': dict(fn='standardize_row_column_indices', pre=['TInt_Spec_rc'], statement=
                                   'forall rs re cs ce R C ai oi, t_standardize_row_column_indices rs re cs ce R C ai oi = '
                                   'C04_Model.standardize_rc_out ai oi rs re cs ce R C'),
    'getitem_check_slice/C03': dict(fn='getitem_check_slice', statement=
                                    'forall a b n, t_getitem_check_slice a n b = '
                                    'if C03_Model.check_slice a b n then Ok tt else Err "ValueError"'),
    'getitem_size/C03': dict(fn='getitem_size', statement=
                             "forall a b n, let '(f, l, st) := slice_indices a b 1 n in "
                             'bind (t_getitem_size f l st) (fun sz => Ok (f, sz)) = '
                             'match C03_Model.slice_first_size a b n with Some p => Ok p | None => Err "IndexError" end'),
    'tile_pixel_matrix/C12': dict(fn='tile_pixel_matrix', statement=
                                  'forall R C th tw, 0 < th -> 0 < tw -> t_tile_pixel_matrix R C th tw = '
                                  'Ok (C12_Model.tile_pixel_matrix R C th tw);  th = 0 \\/ tw = 0 -> ... = Err "ZeroDivisionError"  '
                                  '(int(np.ceil(a / b)) read as exact ceiling: trusted float step)'),
    'tile_positions_counts/C12': dict(fn='tile_positions_counts', statement=
                                      'forall th tw R C, th <> 0 -> tw <> 0 -> t_tile_positions_counts th tw R C = '
                                      'Ok (C12_Model.tiles_per_column C tw, C12_Model.tiles_per_row R th);  '
                                      'th = 0 \\/ tw = 0 -> ... = Err "ZeroDivisionError";  consequently '
                                      'tile_positions_chk = the guards + bind (t_tile_positions_counts ...) (the grid of those counts)'),
    'tile_array_bounds/C12': dict(fn='tile_array_bounds', statement=
                                  'forall M R C ro co th tw pad, C12_Model.get_tile_array M R C ro co th tw pad = '
                                  "bind (t_tile_array_bounds ro co th tw R C) (fun '(r0, r1, c0, c1, pr, pc) => "
                                  'Ok (slice rows r0..r1, columns c0..c1 of M, zero-padded by pr rows / pc columns if pad))   '
                                  '(pixel_array.shape[0|1] read as R, C)'),
    'plane_position_offsets/C12': dict(fn='plane_position_offsets', statement=
                                       'forall ri ci x y th tw rc cc spr spc sl, C12_Model.plane_position_tiled_full ri ci x y th tw rc cc spr spc sl = '
                                       "bind (t_plane_position_offsets ri ci th tw) (fun '(ro, co) => "
                                       'Ok ((co + 1, ro + 1), pix2ref (V3 x y z(sl)) rc cc spr spc co ro))'),
    'unsigned_dtype/C02': dict(fn='get_unsigned_dtype', statement=
                               'forall m, bind (t_get_unsigned_dtype m) (fun w => Ok (DU w)) = Ok (C02_Model.unsigned_dtype m)   '
                               '(np.dtype(np.uintW) rendered as W)'),
    'unsigned_dtype/C01': dict(fn='get_unsigned_dtype', statement=
                               'forall c, ty c = LABELMAP -> maxl (segs c) < 65536 -> t_get_unsigned_dtype (maxl (segs c)) = '
                               'Ok (C01_Model.bits_alloc c);  forall m, 65536 <= m -> t_get_unsigned_dtype m = Ok 32'),
    'getitem_check_int/C08': dict(fn='getitem_check_int', statement=
                                  'forall v n, t_getitem_check_int v n = bind (C08_Model.check_item n (IInt v)) (fun _ => Ok tt)'),
    'getitem_check_slice/C08': dict(fn='getitem_check_slice', statement=
                                    'forall a b s n, t_getitem_check_slice a n b = '
                                    'bind (C08_Model.check_item n (ISlc a b s)) (fun _ => Ok tt)'),
    'getitem_size/C08': dict(fn='getitem_size', statement=
                             'forall f l st, st <> 0 -> t_getitem_size f l st = '
                             'match PySlice.hd_size f l st with Some sz => Ok sz | None => Err "IndexError" end'),
    'pixel_transform_flags/C06': dict(fn='pixel_transform_flags', statement=
                                      'forall f ct, C06_Model.gate f ct = bind (t_pixel_transform_flags (flag (f_rwvm f)) '
                                      '(flag (f_mod f)) (flag (f_voi f)) (flag (f_pal f)) (flag (f_icc f)) (colour ct)) '
                                      '(fun ten booleans => Ok (Uses ...))   (TT/TF/TN = Some true/Some false/None; '
                                      'Mono/Palette/Color = the members of _ImageColorType as defined now)'),
    'volume_positions_head/C11': dict(fn='volume_positions_head', statement=
                                      'forall sort dups missing hint rtol atol, t_volume_positions_head sort dups missing hint rtol atol = '
                                      'if negb sort && (dups || missing) then Err "ValueError" else bind (C11_Model.norm_hint hint) '
                                      '(fun h => bind (C11_Model.tolerances rtol atol) (fun (r, a) => Ok (h, r, a)));  hence head = Err k -> '
                                      'get_volume_positions .. = Err k, head = Ok (h, r, a) -> the values the model continues with   '
                                      '(floats over Q; float literals read as decimal rationals)'),
    'decode_bit_window/C05': dict(fn='decode_bit_window', statement=
                                  'forall idx R C spp, t_decode_bit_window idx R C spp = Ok (R*C*spp, (idx * (R*C*spp)) mod 8);  '
                                  'forall bs sg idx R C spp v, C05_Model.decode_native 1 bs sg (R*C*spp) idx v = '
                                  "bind (t_decode_bit_window idx R C spp) (fun '(n, off) => the n bits from bit off of "
                                  'unpack_bits v, ValueError if fewer)   (int(((a / 8) % 1) * 8) read as a mod 8: trusted float steps)'),
    'pm_pixel_data_type/C19': dict(fn='pm_pixel_data_type', statement=
                                   'forall d, bind (t_pm_pixel_data_type (d = uint16) (d = uint8) (kind d = f) (kind d = u) (d = float32) '
                                   "(d = float64)) (fun '(tag, name) => Ok (attr of tag, name)) = bind (C19_Model.pm_attr d) (fun aw => "
                                   'Ok (fst aw, attr_name (fst aw)))   (observations of pixel_array.dtype instantiated by the model dtype)'),
    'pm_bits/C19': dict(fn='pm_bits', statement=
                        'forall d a w, C19_Model.pm_attr d = Ok (a, w) -> t_pm_bits (tag of a) w = Ok (8 * w, bs, hb, pr) with '
                        '(bs, hb, pr) = (Some (8 * w), Some (8 * w - 1), Some 0) if a = PixelData else (None, None, None);  '
                        'forall tag w, t_pm_bits tag w does not raise   (pixel_array.itemsize read as the width w in bytes)'),
    'coded_concept_init/C17': dict(fn='coded_concept_init', statement=
                                   'forall v s m ver, bind (t_coded_concept_init v s m ver (slen m) (slen v) (contains "://" v) '
                                   '(prefix "urn" v)) (fun six slots => Ok (DS CodeValue LongCodeValue URNCodeValue CodeMeaning '
                                   'CodingSchemeDesignator CodingSchemeVersion true)) = C17_Model.init v s m ver   (string '
                                   'observations of the code instantiated by the model\'s prefix / contains / slen; str(x) = x)'),
}
FOR = {}
for _k in TARGETS:
    FOR.setdefault(_k.split('/')[1], []).append(_k)

GEN_HEADER = '''(* GENERATED by harness/translate_int.py from {src} ({what}) - do not edit *)
From Coq Require Import String ZArith List Bool.
From HD Require Import Base.Val Base.PyInt.
Import ListNotations.
Open Scope string_scope.
Open Scope Z_scope.

'''

GEN_HEADER_EXT = '''(* GENERATED by harness/translate_int.py from {src} ({what}) - do not edit *)
From Coq Require Import String ZArith List Bool QArith.
From HD Require Import Base.Val Base.PyInt Base.PyExt.
Import ListNotations.
Open Scope string_scope.
Open Scope Z_scope.

'''

_trees = {}


def _tree(path):
    if path not in _trees:
        _trees[path] = ast.parse(open(path).read())
    return _trees[path]


def load_enum(tree, name):
    """members of the closed enum `class name(Enum)` as the source defines it now: the class body must be
    a docstring plus `MEMBER = <constant>` lines with pairwise different values (no aliases), nothing else"""
    hits = [n for n in tree.body if isinstance(n, ast.ClassDef) and n.name == name]
    if len(hits) != 1:
        raise Refuse(f'expected exactly one class `{name}`, found {len(hits)}')
    c = hits[0]
    if [src(b) for b in c.bases] not in (['Enum'], ['enum.Enum']) or c.keywords or c.decorator_list:
        raise Refuse(f'class {name} is not a plain `Enum` subclass')
    members, values = [], []
    for st in c.body:
        if isinstance(st, ast.Expr) and isinstance(st.value, ast.Constant) and isinstance(st.value.value, str):
            continue
        if not (isinstance(st, ast.Assign) and len(st.targets) == 1 and isinstance(st.targets[0], ast.Name)
                and isinstance(st.value, ast.Constant)):
            raise Refuse(f'enum {name}: statement outside `MEMBER = <constant>`: `{src(st)[:60]}`')
        if st.targets[0].id.startswith('_'):
            raise Refuse(f'enum {name}: underscore name {st.targets[0].id}')
        members.append(st.targets[0].id)
        values.append(repr(st.value.value))
    if not members or len(set(members)) != len(members) or len(set(values)) != len(values):
        raise Refuse(f'enum {name}: empty, duplicate member or aliased value')
    return members


def enum_decl(name, members):
    e = enum_coq(name)
    out = f'Inductive {e} := ' + ' | '.join(f'{e}_{m}' for m in members) + '.\n'
    out += f'Definition {e}_eqb (a b : {e}) : bool :=\n  match a, b with\n'
    out += ''.join(f'  | {e}_{m}, {e}_{m} => true\n' for m in members)
    out += ('  | _, _ => false\n' if len(members) > 1 else '') + '  end.\n\n'
    return out


def load_const(tree, name, ty):
    """module-level `name = <literal>` (exactly one binding of the name at module level)"""
    hits = [n for n in tree.body if name in assigned_names([n])]
    if len(hits) != 1 or not isinstance(hits[0], (ast.Assign, ast.AnnAssign)) or hits[0].value is None:
        raise Refuse(f'module constant {name}: expected exactly one module-level assignment')
    for n in ast.walk(tree):
        if isinstance(n, ast.Global) and name in n.names:
            raise Refuse(f'module constant {name} is declared global somewhere')
    tr = Translator(ast.parse('def f(): pass').body[0], 'const', params=[])
    p = tr.pure(hits[0].value, {})
    if p is None or p[1] != ty or not isinstance(hits[0].value, (ast.Constant, ast.UnaryOp)):
        raise Refuse(f'module constant {name} is not a literal of type {ty}: `{src(hits[0].value)[:40]}`')
    return p


def load_self_map(tree, cls, attr, ename, enums):
    """the unique assignment `self.<attr> = {Enum.M: 'literal', ...}` in class cls (a dict display keyed by
    members of the closed enum, string values); no other statement of the class may mention the attribute
    except subscript reads"""
    cs = [n for n in tree.body if isinstance(n, ast.ClassDef) and n.name == cls]
    if len(cs) != 1 or ename not in enums:
        raise Refuse(f'self map {attr}: class {cls} / enum {ename} not found')
    sets, other = [], []
    for n in ast.walk(cs[0]):
        if isinstance(n, ast.Attribute) and n.attr == attr:
            if not (isinstance(n.value, ast.Name) and n.value.id == 'self'):
                other.append(n)
            elif isinstance(n.ctx, ast.Store):
                sets.append(n)
        if isinstance(n, ast.Constant) and n.value == attr:
            other.append(n)             # setattr / getattr by name
    assigns = [n for n in ast.walk(cs[0]) if isinstance(n, ast.Assign) and any(t in sets for t in n.targets)]
    if len(sets) != 1 or other or len(assigns) != 1 or len(assigns[0].targets) != 1 \
            or not isinstance(assigns[0].value, ast.Dict):
        raise Refuse(f'self map {attr}: not assigned exactly once by a dict display')
    for n in ast.walk(cs[0]):
        if isinstance(n, ast.Subscript) and isinstance(n.value, ast.Attribute) and n.value.attr == attr \
                and not isinstance(n.ctx, ast.Load):
            raise Refuse(f'self map {attr}: an entry is written')
    out = {}
    for kx, vx in zip(assigns[0].value.keys, assigns[0].value.values):
        if not (isinstance(kx, ast.Attribute) and isinstance(kx.value, ast.Name) and kx.value.id == ename
                and kx.attr in enums[ename] and isinstance(vx, ast.Constant) and isinstance(vx.value, str)):
            raise Refuse(f'self map {attr}: entry outside `{ename}.MEMBER: "literal"`')
        key = f'{enum_coq(ename)}_{kx.attr}'
        if key in out:
            raise Refuse(f'self map {attr}: duplicate key')
        out[key] = vx.value
    return out


def translate(fname, repo=None):
    """-> (Gallina text, [(param, type)], return type); raises Refuse"""
    spec = FUNCTIONS[fname]
    root = os.path.join(repo or common.REPO, 'src', 'highdicom')
    path = os.path.join(root, spec['file'])
    fn = find_def(_tree(path), spec['path'])
    body = spec['fragment'](fn) if 'fragment' in spec else None
    enums = {nm: load_enum(_tree(os.path.join(root, f)), nm) for nm, f in spec.get('enums', {}).items()}
    consts = {nm: load_const(_tree(path), nm, ty) for nm, ty in spec.get('consts', {}).items()}
    params = spec.get('params')
    if 'param_names' in spec:       # fragment over parameters of the function: types from the CURRENT annotations
        ann = {a.arg: a.annotation for a in fn.args.args + fn.args.kwonlyargs}
        for nm in spec['param_names']:
            if nm not in ann:
                raise Refuse(f'{".".join(spec["path"])} has no parameter `{nm}`')
        params = [(nm, annotation_type(ann[nm])) for nm in spec['param_names']]
    tr = Translator(fn, fname, params=params, outputs=spec.get('outputs'),
                    attr_types=spec.get('attr_types'), body=body, enums=enums, stores=spec.get('stores'),
                    consts=consts)
    for attr, ename in spec.get('self_maps', {}).items():
        tr.self_maps[attr] = load_self_map(_tree(path), spec['path'][0], attr, ename, enums)
    tr.extras_order = spec.get('extras')
    text, ps, rt = tr.translate()
    if 'extras' in spec and tr.extra_names != spec['extras']:
        raise Refuse(f'the set of attribute reads changed: {tr.extra_names} (the equivalence statement is about '
                     f'{spec["extras"]})')
    ext = bool(enums or spec.get('stores') or consts or tr.uses_q or re.search(r'\bpy_(q[a-z]+|frac_scaled)\b', text)
               or any(ty not in (Z, OZ, B) for _, ty in ps))
    head = (GEN_HEADER_EXT if ext else GEN_HEADER).format(src=path, what='.'.join(spec['path']))
    return head + ''.join(enum_decl(nm, ms) for nm, ms in enums.items()) + indent(text), ps, rt


def template_path(key):
    return os.path.join(common.COQ, 'templates', 'TInt_Eq_' + ident(key) + '.v')


def _coqc(work, path, timeout=300):
    cmd = f'ulimit -v 8000000; exec timeout {timeout} coqc -Q {common.COQ}/theories HD -Q {work} Work {path}'
    return common.sh(['bash', '-c', cmd], cwd=work, timeout=timeout + 30)


def _tail(log):
    return re.sub(r'\s+', ' ', log.strip())[-400:]


def obligations(work, keys):
    """One obligation per key of TARGETS (see FOR['C05'] etc.).  Never raises: any failure of
    the machinery itself is reported as a broken obligation."""
    try:
        return _obligations(work, keys)
    except Exception as e:  # noqa
        return [{'name': f'T-int {k}: {TARGETS[k]["statement"]}',
                 'status': f'broken: T-int machinery failed: {type(e).__name__}: {e}'[:400], 'assumptions': None}
                for k in keys]


def _obligations(work, keys):
    os.makedirs(work, exist_ok=True)
    out = {}
    fns = list(dict.fromkeys(TARGETS[k]['fn'] for k in keys))
    try:
        rc, log = common.coq_make(['theories/Base/PyInt.vo', 'theories/Base/PyExt.vo'] + sorted(
            {f'theories/{k.split("/")[1]}_Model.vo' for k in keys}))
    except Exception as e:  # noqa
        rc, log = 1, repr(e)
    if rc == 0 and common.forbidden_scan(['theories/Base/PyInt.v', 'theories/Base/PyExt.v']):
        rc, log = 1, 'forbidden vernacular in Base/PyInt.v or Base/PyExt.v'
    if rc != 0:
        return [{'name': f'T-int {k}', 'status': 'broken: Base/PyInt.v or the model did not build: ' + _tail(log)}
                for k in keys]
    gen_status = {}
    for f in fns:
        try:
            text, _, _ = translate(f)
            if common.FORBIDDEN.search(text):
                raise Refuse('forbidden vernacular in generated text')
            open(os.path.join(work, f'TInt_Gen_{f}.v'), 'w').write(text)
            gen_status[f] = None
        except Exception as e:  # noqa  fail closed on anything, including bugs of the translator itself
            gen_status[f] = f'translator-refused: {type(e).__name__}: {e}'[:400]

    def build_gen(f):
        rc, log = _coqc(work, os.path.join(work, f'TInt_Gen_{f}.v'))
        return f, (None if rc == 0 else 'broken: generated definition does not type-check: ' + _tail(log))
    todo = [f for f in fns if gen_status[f] is None]
    with cf.ThreadPoolExecutor(max_workers=max(1, min(common.NPROC, 6))) as ex:
        for f, st in ex.map(build_gen, todo):
            gen_status[f] = st
    good = [f for f in fns if gen_status[f] is None]
    open(os.path.join(work, 'TInt_Gen.v'), 'w').write(
        '(* GENERATED by harness/translate_int.py - do not edit *)\n' +
        ''.join(f'From Work Require Export TInt_Gen_{f}.\n' for f in good))
    rc, log = _coqc(work, os.path.join(work, 'TInt_Gen.v'))
    if rc != 0:
        return [{'name': f'T-int {k}', 'status': 'broken: TInt_Gen.v: ' + _tail(log)} for k in keys]

    def check_file(tp, what):
        """copy a static proof file into work, compile it, count closed Print Assumptions"""
        if not os.path.exists(tp):
            return f'broken: no equivalence file {tp}'
        txt = re.sub(r'\(\*.*?\*\)', '', open(tp).read(), flags=re.S)
        if common.FORBIDDEN.search(txt):
            return 'broken: forbidden vernacular in ' + tp
        n_print = len(re.findall(r'^\s*Print Assumptions\s', txt, flags=re.M))
        dst = os.path.join(work, os.path.basename(tp))
        shutil.copyfile(tp, dst)
        rc, log = _coqc(work, dst)
        if rc != 0:
            return f'broken: {what}: ' + _tail(log)
        n_closed = len(re.findall(r'^Closed under the global context', log, flags=re.M))
        if n_print == 0 or n_closed != n_print or 'Axioms:' in log:
            return 'broken: Print Assumptions not closed: ' + _tail(log)
        return 'ok'

    with cf.ThreadPoolExecutor(max_workers=max(1, min(common.NPROC, 6))) as ex:
        pre_fut, eq_fut = {}, {}
        for k in keys:
            f = TARGETS[k]['fn']
            for pre in TARGETS[k].get('pre', []):
                if pre not in pre_fut and gen_status[f] is None:
                    pre_fut[pre] = ex.submit(check_file, os.path.join(common.COQ, 'templates', pre + '.v'),
                                             f't_{f} no longer proved equal to its block reading ({pre})')

        def build_eq(k):
            f = TARGETS[k]['fn']
            if gen_status[f] is not None:
                return gen_status[f]
            for pre in TARGETS[k].get('pre', []):
                st = pre_fut[pre].result()
                if st != 'ok':
                    return st
            return check_file(template_path(k), f't_{f} no longer proved equal to the hand model')
        # files without prerequisites first, so that a waiting job never starves the pool
        for k in sorted(keys, key=lambda k: len(TARGETS[k].get('pre', []))):
            eq_fut[k] = ex.submit(build_eq, k)
        for k in keys:
            out[k] = eq_fut[k].result()
    return [{'name': f'T-int {k}: {TARGETS[k]["statement"]}', 'status': out[k],
             'assumptions': ['Closed under the global context'] if out[k] == 'ok' else None} for k in keys]


if __name__ == '__main__':
    import sys
    for f in (sys.argv[1:] or list(FUNCTIONS)):
        try:
            print(translate(f)[0])
        except Refuse as e:
            print(f'(* {f}: REFUSED: {e} *)')
