"""T-int: fail-closed translator of highdicom's straight-line integer helpers to Gallina.

Every run of a check that hooks `obligations(work, keys)` (C01-C05, C08, C12)

  1. parses the CURRENT source file under $VERIF_REPO/src/highdicom with `ast`,
  2. translates each target function (or the named fragment of it) into a Gallina
     definition `t_<name>` over the shallow embedding coq/theories/Base/PyInt.v
     (written to <work>/TInt_Gen_<name>.v, re-exported by <work>/TInt_Gen.v),
  3. compiles it and then compiles the static equivalence file
     coq/templates/TInt_Eq_<key>.v, which proves  `forall args, t_<name> args =
     <hand model> args`  (exact statement per target: see TARGETS[...]['statement'])
     followed by `Print Assumptions` that must say "Closed under the global context".

One obligation per (function, model).  Anything outside the grammar raises `Refuse`
and the obligation is reported as `translator-refused: ...` - never skipped.

Grammar (everything else is refused):
  statements   docstring, `pass`, `x = e`, `x: T = e`, `x op= e` (simple names only),
               `if / elif / else`, `raise X(...)` / `raise X` (message ignored),
               `return e`, `return a, b, ...`, `return`
  expressions  int / bool / None constants, names, `self.attr` and `param.attr`
               (-> extra int parameter, `option Z` / bool if declared in FUNCTIONS[...]['attr_types'];
               the read itself is assumed to succeed), `self.attr[param]` (-> extra parameter),
               `attr == 'literal'` (-> extra boolean parameter),
               `self.a.b` (-> extra parameter), bools used as ints (Z.b2z),
               `+ - *`, unary `-`/`+`, `//` and `%` (ZeroDivisionError unless the divisor is a
               non-zero literal), `not`, `and` / `or` (short-circuit), comparisons
               `< <= > >= == !=` (chained ones only over pure int operands),
               `is None` / `is not None` (narrowing: a `match` on the option),
               `a if c else b`, `cast(T, x)`, `int(x)` on ints, `abs`, `min`, `max`,
               `int(np.ceil(a / b))` (-> PyInt.py_ceildiv, float step trusted, see PyInt.v),
               `np.dtype(np.uint8|16|32)` (-> the bit width 8|16|32),
               `range(a[, b])`, `iter(xs)` (single use enforced), and
               `(e for (a, b) in itertools.product(xs, ys))`
  typing       parameters: `int`, `bool`, `int | None`, `Optional[int]`, `int | np.integer`;
               a variable assigned an int on one path and None / unassigned-but-optional on
               another has type `option Z` after the join; using it as an int goes
               through `as_int` (TypeError on None).
Mutable locals become let-bindings; an `if` without `return` inside is a block of type
`res (tuple of the variables assigned in either branch)` bound to the rest; an `if`
containing `return` gets the rest of the statement list pushed into both branches.
"""
import ast
import concurrent.futures as cf
import os
import re
import shutil

import common

Z, OZ, B, NONE, UNIT = 'Z', 'optZ', 'bool', 'none', 'unit'
SENT = '\x00'
EXC_NAMES = {'ValueError', 'IndexError', 'TypeError', 'KeyError', 'AttributeError', 'RuntimeError',
             'NotImplementedError', 'AssertionError', 'ZeroDivisionError', 'OverflowError'}
CMP = {ast.Lt: '<?', ast.LtE: '<=?', ast.Gt: '>?', ast.GtE: '>=?'}
DTYPE_WIDTH = {'np.dtype(np.uint8)': 8, 'np.dtype(np.uint16)': 16, 'np.dtype(np.uint32)': 32}


class Refuse(Exception):
    pass


def src(node):
    try:
        return ast.unparse(node)
    except Exception:
        return type(node).__name__


def refuse(node, why):
    ln = getattr(node, 'lineno', '?')
    raise Refuse(f'line {ln}: {why}: `{src(node)[:80]}`')


def coq_type(t):
    if t == Z:
        return 'Z'
    if t in (OZ, NONE):
        return 'option Z'
    if t == B:
        return 'bool'
    if t == UNIT:
        return 'unit'
    if isinstance(t, tuple) and t[0] == 'tuple':
        return '(' + ' * '.join(coq_type(x) for x in t[1]) + ')'
    if isinstance(t, tuple) and t[0] == 'list':
        return f'(list {coq_type(t[1])})'
    raise Refuse(f'no Coq type for {t}')


def join(ts):
    ts = list(dict.fromkeys(ts))
    if len(ts) == 1:
        return ts[0]
    if all(t in (Z, OZ, NONE) for t in ts):
        return OZ
    raise Refuse(f'branches give incompatible types {ts}')


def coerce(term, frm, to):
    if frm == to:
        return term
    if to == OZ and frm == Z:
        return f'(Some {term})'
    if to == OZ and frm == NONE:
        return term
    raise Refuse(f'cannot coerce {frm} to {to}')


def zlit(n):
    return f'({n})' if n < 0 else str(n)


def ident(s):
    return re.sub(r'[^A-Za-z0-9_]+', '_', s).strip('_')


def annotation_type(node):
    t = src(node).replace(' ', '') if node is not None else None
    if t in ('int', 'int|np.integer', 'np.integer|int'):
        return Z
    if t in ('int|None', 'None|int', 'Optional[int]'):
        return OZ
    if t == 'bool':
        return B
    raise Refuse(f'unsupported parameter annotation `{t}`')


def contains(stmts, kinds):
    return any(isinstance(n, kinds) for s in stmts for n in ast.walk(s))


def assigned_names(stmts):
    out = []
    for s in stmts:
        for n in ast.walk(s):
            tg = None
            if isinstance(n, ast.Assign) and len(n.targets) == 1:
                tg = n.targets[0]
            elif isinstance(n, (ast.AugAssign, ast.AnnAssign)):
                tg = n.target
            if isinstance(tg, ast.Name) and tg.id not in out:
                out.append(tg.id)
    return out


class Translator:
    def __init__(self, fn, name, params=None, outputs=None, attr_types=None, body=None):
        """fn: ast.FunctionDef; params: [(python name, type)] overrides the signature (fragments);
        outputs: names returned as a tuple when the statement list falls off its end (fragments)."""
        self.fn, self.name = fn, name
        self.attr_types = attr_types or {}
        self.outputs = outputs
        self.body = body if body is not None else fn.body
        self.extra = {}            # source text -> (coq name, type)   extra parameters
        self.ret_types = []
        self.ret_join = None
        self.n = 0
        if params is None:
            a = fn.args
            if a.vararg or a.kwarg or a.posonlyargs:
                raise Refuse('*args / **kwargs / positional-only parameters')
            for d in fn.decorator_list:
                if src(d) not in ('staticmethod', 'property'):
                    raise Refuse(f'decorator @{src(d)}')
            params = []
            for i, p in enumerate(a.args + a.kwonlyargs):
                if i == 0 and p.arg in ('self', 'cls') and 'staticmethod' not in [src(d) for d in fn.decorator_list]:
                    continue
                params.append((p.arg, annotation_type(p.annotation)))
        self.params = params
        self.fn_params = {p.arg for p in fn.args.args + fn.args.kwonlyargs}
        self.assigned = set(assigned_names(self.body))
        # single-use check for iterators
        self.iter_vars = set()

    # ------------------------------------------------------------------ helpers
    def fresh(self):
        self.n += 1
        return f't{self.n}'

    def extra_param(self, key, base, ty):
        if key not in self.extra:
            self.extra[key] = ('a_' + ident(base), ty)
        return self.extra[key]

    def to_int(self, node, term, ty, k):
        if ty == Z:
            return k(term)
        if ty in (OZ, NONE):
            t = self.fresh()
            return f'bind (as_int {term}) (fun {t} =>\n{k(t)})'
        if ty == B:
            return k(f'(Z.b2z {term})')      # bool is a subclass of int: True = 1, False = 0
        refuse(node, f'value of type {ty} used as an int')

    def pure(self, node, env):
        """(term, type) if the expression translates without any effect, else None"""
        box = []

        def k(t, ty):
            box.append((t, ty))
            return SENT
        n0 = self.n
        out = self.expr(node, env, k)
        if out == SENT and len(box) == 1:
            return box[0]
        self.n = n0
        return None

    def pure_boolop(self, node, env):
        """`a and b` / `a or b` as a boolean term if every operand is effect-free, else None"""
        ps = [self.pure(v, env) for v in node.values]
        if any(p is None for p in ps):
            return None
        if any(p[1] != B for p in ps):
            refuse(node, 'and/or over non-bool operands')
        sym = ' && ' if isinstance(node.op, ast.And) else ' || '
        return '(' + sym.join(p[0] for p in ps) + ')'

    def ints(self, nodes, env, k):
        """evaluate nodes left to right as ints, then k([terms])"""
        def go(i, acc):
            if i == len(nodes):
                return k(acc)
            return self.expr(nodes[i], env, lambda t, ty: self.to_int(nodes[i], t, ty, lambda z: go(i + 1, acc + [z])))
        return go(0, [])

    def attr_key(self, node):
        """`self.x`, `p.x` (p a parameter never assigned), `self.x[p]` -> key, else None"""
        if isinstance(node, ast.Attribute) and isinstance(node.value, ast.Name):
            b = node.value.id
            if b == 'self' or (b in self.fn_params and b not in self.assigned):
                return src(node), (node.attr if b == 'self' else f'{b}_{node.attr}')
        if (isinstance(node, ast.Attribute) and isinstance(node.value, ast.Attribute)
                and isinstance(node.value.value, ast.Name) and node.value.value.id == 'self'):
            return src(node), f'{node.value.attr}_{node.attr}'       # self.x.y
        if (isinstance(node, ast.Subscript) and isinstance(node.value, ast.Attribute)
                and isinstance(node.value.value, ast.Name) and node.value.value.id == 'self'
                and isinstance(node.slice, ast.Name) and node.slice.id not in self.assigned):
            return src(node), f'{node.value.attr}_{node.slice.id}'
        return None

    # ------------------------------------------------------------------ expressions
    def expr(self, node, env, k):
        if isinstance(node, ast.Constant):
            v = node.value
            if v is None:
                return k('(@None Z)', NONE)
            if isinstance(v, bool):
                return k('true' if v else 'false', B)
            if isinstance(v, int):
                return k(zlit(v), Z)
            refuse(node, 'constant of unsupported type')
        if isinstance(node, ast.Name):
            if node.id in env:
                if node.id in self.iter_vars:
                    uses = sum(1 for n in ast.walk(self.fn) if isinstance(n, ast.Name) and n.id == node.id
                               and isinstance(n.ctx, ast.Load))
                    if uses != 1:
                        refuse(node, 'iterator variable used more than once')
                return k(*env[node.id])
            refuse(node, 'name is not a parameter or a local assigned on every path')
        ak = self.attr_key(node)
        if ak is not None:
            key, base = ak
            if key in env:           # narrowed
                return k(*env[key])
            return k(*self.extra_param(key, base, self.attr_types.get(key, Z)))
        if isinstance(node, ast.UnaryOp):
            if isinstance(node.op, ast.USub):
                return self.ints([node.operand], env, lambda a: k(f'(- {a[0]})', Z))
            if isinstance(node.op, ast.UAdd):
                return self.ints([node.operand], env, lambda a: k(a[0], Z))
            if isinstance(node.op, ast.Not):
                return self.expr(node.operand, env, lambda t, ty: k(f'(negb {t})', B) if ty == B
                                 else refuse(node, '`not` of a non-bool'))
            refuse(node, 'unary operator')
        if isinstance(node, ast.BinOp):
            op = node.op
            if isinstance(op, (ast.Add, ast.Sub, ast.Mult)):
                sym = {ast.Add: '+', ast.Sub: '-', ast.Mult: '*'}[type(op)]
                return self.ints([node.left, node.right], env, lambda a: k(f'({a[0]} {sym} {a[1]})', Z))
            if isinstance(op, (ast.FloorDiv, ast.Mod)):
                r = node.right
                lit = None
                if isinstance(r, ast.Constant) and isinstance(r.value, int) and not isinstance(r.value, bool):
                    lit = r.value
                if isinstance(r, ast.UnaryOp) and isinstance(r.op, ast.USub) and isinstance(r.operand, ast.Constant) \
                        and isinstance(r.operand.value, int) and not isinstance(r.operand.value, bool):
                    lit = -r.operand.value
                if lit is not None and lit != 0:
                    sym = '/' if isinstance(op, ast.FloorDiv) else 'mod'
                    return self.ints([node.left], env, lambda a: k(f'({a[0]} {sym} {zlit(lit)})', Z))
                f = 'py_floordiv' if isinstance(op, ast.FloorDiv) else 'py_mod'

                def kk(a):
                    t = self.fresh()
                    return f'bind ({f} {a[0]} {a[1]}) (fun {t} =>\n{k(t, Z)})'
                return self.ints([node.left, node.right], env, kk)
            refuse(node, 'binary operator outside + - * // %')
        if isinstance(node, ast.BoolOp):
            p = self.pure_boolop(node, env)
            if p is not None:
                return k(p, B)
            return self.cond(node, env, lambda e: k('true', B), lambda e: k('false', B))
        if isinstance(node, ast.Compare):
            return self.compare(node, env, k)
        if isinstance(node, ast.IfExp):
            c, a, b = self.pure(node.test, env), self.pure(node.body, env), self.pure(node.orelse, env)
            if c is None or a is None or b is None or c[1] != B:
                refuse(node, 'conditional expression with effects')
            ty = join([a[1], b[1]])
            return k(f'(if {c[0]} then {coerce(a[0], a[1], ty)} else {coerce(b[0], b[1], ty)})', ty)
        if isinstance(node, ast.Tuple):
            def go(i, acc):
                if i == len(node.elts):
                    return k('(' + ', '.join(t for t, _ in acc) + ')', ('tuple', tuple(ty for _, ty in acc)))
                return self.expr(node.elts[i], env, lambda t, ty: go(i + 1, acc + [(t, ty)]))
            if len(node.elts) < 2:
                refuse(node, 'tuple of fewer than 2 elements')
            return go(0, [])
        if isinstance(node, ast.Call):
            return self.call(node, env, k)
        if isinstance(node, ast.GeneratorExp):
            return self.genexp(node, env, k)
        refuse(node, f'expression form {type(node).__name__}')

    def compare(self, node, env, k):
        ops, operands = node.ops, [node.left] + node.comparators
        if len(ops) == 1 and isinstance(ops[0], (ast.Is, ast.IsNot)):
            r = operands[1]
            if not (isinstance(r, ast.Constant) and r.value is None):
                refuse(node, '`is` with something other than None')

            def kk(t, ty):
                if ty == Z:
                    b = 'false'
                elif ty == NONE:
                    b = 'true'
                elif ty == OZ:
                    b = f'(is_none {t})'
                else:
                    refuse(node, f'`is None` on a value of type {ty}')
                if isinstance(ops[0], ast.IsNot):
                    b = {'false': 'true', 'true': 'false'}.get(b, f'(negb {b})')
                return k(b, B)
            return self.expr(operands[0], env, kk)
        if len(ops) == 1 and isinstance(ops[0], (ast.Eq, ast.NotEq)):
            # attribute == 'literal'  ->  boolean parameter
            l, r = operands
            if isinstance(r, ast.Constant) and isinstance(r.value, str) and self.attr_key(l) is not None:
                key = f'{src(l)} == {r.value!r}'
                t, ty = self.extra_param(key, f'{self.attr_key(l)[1]}_is_{r.value}', B)
                return k(t if isinstance(ops[0], ast.Eq) else f'(negb {t})', B)

            def k1(lt, lty):
                def k2(rt, rty):
                    if lty == Z and rty == Z:
                        b = f'({lt} =? {rt})'
                    elif lty in (Z, OZ, NONE) and rty in (Z, OZ, NONE):
                        b = f'(opt_eqb {coerce(lt, lty, OZ)} {coerce(rt, rty, OZ)})'
                    elif lty == B and rty == B:
                        b = f'(Bool.eqb {lt} {rt})'
                    else:
                        refuse(node, f'== between {lty} and {rty}')
                    return k(b if isinstance(ops[0], ast.Eq) else f'(negb {b})', B)
                return self.expr(r, env, k2)
            return self.expr(l, env, k1)
        if not all(type(o) in CMP or isinstance(o, (ast.Eq, ast.NotEq)) for o in ops):
            refuse(node, 'comparison operator')
        if len(ops) == 1:
            return self.ints(operands, env, lambda a: k(f'({a[0]} {CMP[type(ops[0])]} {a[1]})', B))
        ps = [self.pure(o, env) for o in operands]
        if any(p is None or p[1] != Z for p in ps):
            refuse(node, 'chained comparison over operands that are not pure ints')
        parts = []
        for i, o in enumerate(ops):
            a, b = ps[i][0], ps[i + 1][0]
            if type(o) in CMP:
                parts.append(f'({a} {CMP[type(o)]} {b})')
            else:
                parts.append(f'({a} =? {b})' if isinstance(o, ast.Eq) else f'(negb ({a} =? {b}))')
        return k('(' + ' && '.join(parts) + ')', B)

    def call(self, node, env, k):
        f = src(node.func)
        if node.keywords:
            refuse(node, 'keyword arguments')
        args = node.args
        if any(isinstance(a, ast.Starred) for a in args):
            refuse(node, 'starred argument')
        text = src(node)
        if text in DTYPE_WIDTH:
            return k(str(DTYPE_WIDTH[text]), Z)
        if f == 'cast' and len(args) == 2:
            return self.expr(args[1], env, k)       # typing.cast returns its argument unchanged
        if f == 'int' and len(args) == 1:
            a = args[0]
            if (isinstance(a, ast.Call) and src(a.func) == 'np.ceil' and len(a.args) == 1 and not a.keywords
                    and isinstance(a.args[0], ast.BinOp) and isinstance(a.args[0].op, ast.Div)):
                d = a.args[0]

                def kk(z):
                    t = self.fresh()
                    return f'bind (py_ceildiv {z[0]} {z[1]}) (fun {t} =>\n{k(t, Z)})'
                return self.ints([d.left, d.right], env, kk)
            return self.expr(a, env, lambda t, ty: k(t, Z) if ty == Z else refuse(node, f'int() of a {ty}'))
        if f == 'abs' and len(args) == 1:
            return self.ints(args, env, lambda a: k(f'(Z.abs {a[0]})', Z))
        if f in ('min', 'max') and len(args) >= 2:
            fn = 'Z.min' if f == 'min' else 'Z.max'

            def kk(a):
                t = a[0]
                for x in a[1:]:
                    t = f'({fn} {t} {x})'
                return k(t, Z)
            return self.ints(args, env, kk)
        if f == 'range' and len(args) in (1, 2):
            return self.ints(args, env, lambda a: k(f'(py_range {a[0]} {a[1]})' if len(a) == 2
                                                    else f'(py_range 0 {a[0]})', ('list', Z)))
        if f == 'iter' and len(args) == 1:
            def kk(t, ty):
                if not (isinstance(ty, tuple) and ty[0] == 'list'):
                    refuse(node, 'iter() of a non-range')
                return k(t, ('iter', ty[1]))
            return self.expr(args[0], env, kk)
        refuse(node, 'call outside the grammar')

    def genexp(self, node, env, k):
        if len(node.generators) != 1:
            refuse(node, 'generator with several `for`')
        g = node.generators[0]
        if g.ifs or g.is_async:
            refuse(node, 'generator with `if`')
        it = g.iter
        if not (isinstance(it, ast.Call) and src(it.func) == 'itertools.product' and len(it.args) == 2
                and not it.keywords):
            refuse(node, 'generator over something other than itertools.product(xs, ys)')
        if not (isinstance(g.target, ast.Tuple) and len(g.target.elts) == 2
                and all(isinstance(e, ast.Name) for e in g.target.elts)):
            refuse(node, 'generator target is not a pair of names')
        a, b = (e.id for e in g.target.elts)

        def k1(xt, xty):
            def k2(yt, yty):
                for ty in (xty, yty):
                    if not (isinstance(ty, tuple) and ty[0] in ('list', 'iter') and ty[1] == Z):
                        refuse(node, 'itertools.product over non-ranges')
                e2 = dict(env)
                e2[a], e2[b] = (f'v_{a}', Z), (f'v_{b}', Z)
                p = self.pure(node.elt, e2)
                if p is None:
                    refuse(node, 'generator element with effects')
                return k(f"(map (fun '(v_{a}, v_{b}) => {p[0]}) (py_product {xt} {yt}))", ('list', p[1]))
            return self.expr(it.args[1], env, k2)
        return self.expr(it.args[0], env, k1)

    # ------------------------------------------------------------------ conditions
    def cond(self, node, env, kt, kf):
        if isinstance(node, ast.BoolOp):
            p = self.pure_boolop(node, env)
            if p is not None:
                return f'(if {p}\nthen {kt(env)}\nelse {kf(env)})'
            vs = node.values
            rest = vs[1] if len(vs) == 2 else ast.BoolOp(op=node.op, values=vs[1:])
            if isinstance(node.op, ast.And):
                return self.cond(vs[0], env, lambda e: self.cond(rest, e, kt, kf), kf)
            return self.cond(vs[0], env, kt, lambda e: self.cond(rest, e, kt, kf))
        if isinstance(node, ast.UnaryOp) and isinstance(node.op, ast.Not):
            return self.cond(node.operand, env, kf, kt)
        if (isinstance(node, ast.Compare) and len(node.ops) == 1 and isinstance(node.ops[0], (ast.Is, ast.IsNot))
                and isinstance(node.comparators[0], ast.Constant) and node.comparators[0].value is None):
            l = node.left
            key = l.id if isinstance(l, ast.Name) else (self.attr_key(l) or [None])[0]
            if key is not None:
                if isinstance(l, ast.Name):
                    if key not in env:
                        refuse(l, 'name is not a parameter or a local assigned on every path')
                    t, ty = env[key]
                else:
                    t, ty = env[key] if key in env else self.extra_param(key, self.attr_key(l)[1],
                                                                          self.attr_types.get(key, Z))
                k_none, k_some = (kt, kf) if isinstance(node.ops[0], ast.Is) else (kf, kt)
                if ty == Z:
                    return k_some(env)
                if ty == NONE:
                    return k_none(env)
                if ty == OZ:
                    e_some = dict(env)
                    e_some[key] = (t, Z)          # the Gallina name is shadowed by the payload
                    return f'(match {t} with\n| Some {t} => {k_some(e_some)}\n| None => {k_none(env)}\nend)'
        return self.expr(node, env, lambda t, ty: f'(if {t}\nthen {kt(env)}\nelse {kf(env)})' if ty == B
                         else refuse(node, f'condition of type {ty} (truthiness of non-bools is not supported)'))

    # ------------------------------------------------------------------ statements
    def block(self, stmts, env, kont):
        if not stmts:
            return kont(env)
        s, rest = stmts[0], stmts[1:]

        def nxt(e):
            return self.block(rest, e, kont)
        if isinstance(s, ast.Pass) or (isinstance(s, ast.Expr) and isinstance(s.value, ast.Constant)
                                        and isinstance(s.value.value, str)):
            return nxt(env)
        if isinstance(s, ast.Return):
            if s.value is None:
                return self.emit_return('tt', UNIT)
            return self.expr(s.value, env, self.emit_return)
        if isinstance(s, ast.Raise):
            e = s.exc
            if e is None:
                refuse(s, 'bare raise')
            if s.cause is not None and not (isinstance(s.cause, ast.Constant) and s.cause.value is None):
                refuse(s, 'raise ... from <expr>')
            cls = e.func if isinstance(e, ast.Call) else e
            if not (isinstance(cls, ast.Name) and cls.id in EXC_NAMES):
                refuse(s, 'raise of something other than a builtin exception class')
            return f'(Err "{cls.id}")'
        if isinstance(s, (ast.Assign, ast.AnnAssign, ast.AugAssign)):
            if isinstance(s, ast.Assign):
                if len(s.targets) != 1:
                    refuse(s, 'multiple assignment targets')
                tg, val = s.targets[0], s.value
            elif isinstance(s, ast.AnnAssign):
                tg, val = s.target, s.value
                if val is None:
                    return nxt(env)
            else:
                tg, val = s.target, ast.BinOp(left=ast.Name(id=s.target.id, ctx=ast.Load()) if isinstance(
                    s.target, ast.Name) else s.target, op=s.op, right=s.value)
                ast.copy_location(val, s)
                ast.fix_missing_locations(val)
            if not isinstance(tg, ast.Name):
                refuse(s, 'assignment to something other than a simple name')
            v = f'v_{tg.id}'

            def kk(t, ty):
                if isinstance(ty, tuple) and ty[0] == 'iter':
                    self.iter_vars.add(tg.id)
                e2 = dict(env)
                e2[tg.id] = (v, ty)
                return f'let {v} := {t} in\n{nxt(e2)}'
            return self.expr(val, env, kk)
        if isinstance(s, ast.If):
            return self.stmt_if(s, rest, env, kont)
        refuse(s, f'statement form {type(s).__name__}')

    def emit_return(self, t, ty):
        self.ret_types.append(ty)
        if self.ret_join is not None:
            t = coerce(t, ty, self.ret_join)
        return f'ret {t}'

    def stmt_if(self, s, rest, env, kont):
        def nxt(e):
            return self.block(rest, e, kont)
        if contains(s.body + s.orelse, ast.Return):
            return self.cond(s.test, env, lambda e: self.block(s.body, e, nxt), lambda e: self.block(s.orelse, e, nxt))
        names = assigned_names(s.body + s.orelse)
        ends = []

        def rec(e):
            ends.append(e)
            return 'X'
        n0 = self.n
        self.cond(s.test, env, lambda e: self.block(s.body, e, rec), lambda e: self.block(s.orelse, e, rec))
        self.n = n0
        if not ends:        # every path raises: the rest is unreachable
            return self.cond(s.test, env, lambda e: self.block(s.body, e, rec), lambda e: self.block(s.orelse, e, rec))
        jt = {}
        # a name that is not bound on every path that falls through is not exported: a later
        # read of it is refused ("not ... assigned on every path")
        dropped = [nm for nm in names if any(nm not in e for e in ends)]
        names = [nm for nm in names if nm not in dropped]
        for nm in names:
            jt[nm] = join([e[nm][1] for e in ends])
            if isinstance(jt[nm], tuple) and jt[nm][0] == 'iter':
                refuse(s, 'iterator assigned inside a branch')

        def done(e):
            if not names:
                return 'ret tt'
            return 'ret (' + ', '.join(coerce(e[nm][0], e[nm][1], jt[nm]) for nm in names) + ')'
        blk = self.cond(s.test, env, lambda e: self.block(s.body, e, done), lambda e: self.block(s.orelse, e, done))
        e2 = dict(env)
        for nm in dropped:
            e2.pop(nm, None)
        for nm in names:
            e2[nm] = (f'v_{nm}', jt[nm])
        if not names:
            pat = '_'
        elif len(names) == 1:
            pat = f'v_{names[0]}'
        else:
            pat = "'(" + ', '.join(f'v_{nm}' for nm in names) + ')'
        inner = nxt(e2)
        if names and inner in ('ret (' + ', '.join(f'v_{nm}' for nm in names) + ')', f'ret v_{names[0]}'):
            return blk                  # `bind m ret` = m
        return f'bind ({blk}) (fun {pat} =>\n{inner})'

    # ------------------------------------------------------------------ top level
    def translate(self):
        env = {p: (f'v_{p}', ty) for p, ty in self.params}

        def fall_off(e):
            if self.outputs is not None:
                ts = [e[o] if o in e else refuse(self.fn, f'fragment output `{o}` is not assigned') for o in self.outputs]
                if len(ts) == 1:
                    return self.emit_return(*ts[0])
                return self.emit_return('(' + ', '.join(t for t, _ in ts) + ')', ('tuple', tuple(ty for _, ty in ts)))
            return self.emit_return('tt', UNIT)
        self.ret_join, self.ret_types, self.n = None, [], 0
        self.block(self.body, env, fall_off)
        if not self.ret_types:
            raise Refuse('no path returns')
        rts = list(dict.fromkeys(self.ret_types))
        if UNIT in rts and len(rts) > 1:
            raise Refuse('some paths return a value and others fall off the end / return nothing')
        self.ret_join = join(rts)
        self.n = 0
        body = self.block(self.body, env, fall_off)
        ps = [(f'v_{p}', ty) for p, ty in self.params] + list(self.extra.values())
        sig = ' '.join(f'({n} : {coq_type(ty)})' for n, ty in ps)
        rt = self.ret_join
        if isinstance(rt, tuple) and rt[0] == 'iter':
            raise Refuse('returns an iterator')
        text = f'Definition t_{self.name} {sig} : res {coq_type(rt)} :=\n{body}.\n'
        return text, ps, rt


def indent(text):
    """cosmetic re-indentation by bracket depth"""
    out, depth = [], 0
    for ln in text.split('\n'):
        s = ln.strip()
        d = depth - (1 if s.startswith(('end', ')')) else 0)
        out.append('  ' * max(d, 0) + s)
        depth += ln.count('(') - ln.count(')') + len(re.findall(r'\bmatch\b', ln)) - len(re.findall(r'\bend\b', ln))
    return '\n'.join(out)


# --------------------------------------------------------------------------
# targets
# --------------------------------------------------------------------------
def find_def(tree, path):
    node = tree
    for nm in path:
        hits = [n for n in node.body if isinstance(n, (ast.FunctionDef, ast.ClassDef)) and n.name == nm]
        if len(hits) != 1:
            raise Refuse(f'expected exactly one definition of `{nm}` in {".".join(path)}, found {len(hits)}')
        node = hits[0]
    if not isinstance(node, ast.FunctionDef):
        raise Refuse(f'{".".join(path)} is not a function')
    return node


def frag_raw_frame(fn):
    """get_raw_frame: the native (not encapsulated) branch; its last statement must be
    `return self.PixelData[start:end]`; the fragment computes (start, end) from frame_index."""
    ifs = [n for n in fn.body if isinstance(n, ast.If) and src(n.test) == 'UID(self.file_meta.TransferSyntaxUID).is_encapsulated']
    if len(ifs) != 1 or fn.body[-1] is not ifs[0]:
        raise Refuse('get_raw_frame: `if UID(...).is_encapsulated` is not the unique last statement')
    pre = [src(s) for s in fn.body if not (isinstance(s, ast.Expr) and isinstance(s.value, ast.Constant))][:1]
    if pre != ['frame_index = self._standardize_frame_index(frame_number, as_index)']:
        raise Refuse(f'get_raw_frame: frame_index is not computed by _standardize_frame_index first: {pre}')
    body = ifs[0].orelse
    if not body or src(body[-1]) != 'return self.PixelData[start:end]':
        raise Refuse('get_raw_frame: native branch does not end with `return self.PixelData[start:end]`')
    for s in fn.body:
        if s is not ifs[0] and 'frame_index' in assigned_names([s]) and src(s) != pre[0]:
            raise Refuse('get_raw_frame: frame_index reassigned')
    return body[:-1]


def frag_read_frame_nbytes(fn):
    """ImageFileReader.read_frame_raw: the index guard + the native (not encapsulated) branch up to
    `frame_data = self._fp.read(n_bytes)`; the fragment computes n_bytes from index.  The position that is
    read (`self._fp.seek(self._first_frame_offset + self._offset_table[index], 0)`) must be textually unchanged."""
    body = _stmts(fn)
    texts = [src(s) for s in body]
    ifs = [n for n in body if isinstance(n, ast.If) and src(n.test) == 'self.transfer_syntax_uid.is_encapsulated']
    if len(ifs) != 1:
        raise Refuse('read_frame_raw: no unique `if self.transfer_syntax_uid.is_encapsulated`')
    i = body.index(ifs[0])
    if not (isinstance(body[0], ast.If) and isinstance(body[0].body[-1], ast.Raise) and not body[0].orelse):
        raise Refuse('read_frame_raw: the first statement is not the index guard')
    pre = [t for t in texts[1:i] if not t.startswith('logger.')]
    if pre != ['frame_offset = self._offset_table[index]', 'self._fp.seek(self._first_frame_offset + frame_offset, 0)']:
        raise Refuse(f'read_frame_raw: the seek before the branch changed: {pre}')
    native = ifs[0].orelse
    if not native or src(native[-1]) != 'frame_data = self._fp.read(n_bytes)':
        raise Refuse('read_frame_raw: native branch does not end with `frame_data = self._fp.read(n_bytes)`')
    if texts[i + 1:] != ["if len(frame_data) == 0:\n    raise OSError(f'Failed to read frame #{index}.')", 'return frame_data']:
        raise Refuse('read_frame_raw: the code after the branch changed')
    for s in body[:i] + native:
        if 'index' in assigned_names([s]):
            raise Refuse('read_frame_raw: index reassigned')
    return [body[0]] + native[:-1]


def frag_getitem_size(fn):
    """_prepare_getitem_index: inside `for d in range(0, 3)`, the branch `if len(tuple_index) > d:`:
    the statements between `first, last, step = index_item.indices(...)` and `new_shape.append(size)`."""
    loops = [n for n in fn.body if isinstance(n, ast.For) and src(n.iter) == 'range(0, 3)']
    if len(loops) != 1:
        raise Refuse('_prepare_getitem_index: no unique `for d in range(0, 3)`')
    ifs = [n for n in loops[0].body if isinstance(n, ast.If) and src(n.test) == 'len(tuple_index) > d']
    if len(ifs) != 1:
        raise Refuse('_prepare_getitem_index: no unique `if len(tuple_index) > d`')
    body = ifs[0].body
    texts = [src(s) for s in body]
    try:
        i = texts.index('first, last, step = index_item.indices(self.spatial_shape[d])')
        j = texts.index('new_shape.append(size)')
    except ValueError:
        raise Refuse('_prepare_getitem_index: `first, last, step = index_item.indices(...)` ... '
                     '`new_shape.append(size)` not found')
    if not i < j:
        raise Refuse('_prepare_getitem_index: statements out of order')
    for s in body[j + 1:] + loops[0].body[loops[0].body.index(ifs[0]) + 1:]:
        if 'size' in assigned_names([s]):
            raise Refuse('_prepare_getitem_index: size reassigned')
    return body[i + 1:j]


def _stmts(fn):
    """body of fn without the docstring"""
    return [s for s in fn.body if not (isinstance(s, ast.Expr) and isinstance(s.value, ast.Constant)
                                       and isinstance(s.value.value, str))]


def frag_tile_positions_counts(fn):
    """compute_tile_positions_per_frame: the two assignments `tiles_per_column = ...`, `tiles_per_row = ...`;
    everything after them (meshgrid order, scaling by [columns, rows], transformer call, `+= 1`, zip) must be
    textually what the hand model C12_Model.tile_offsets / tile_positions mirrors."""
    body = _stmts(fn)
    names = [assigned_names([s]) for s in body]
    try:
        i, j = names.index(['tiles_per_column']), names.index(['tiles_per_row'])
    except ValueError:
        raise Refuse('compute_tile_positions_per_frame: tiles_per_column / tiles_per_row are not single assignments')
    if j != i + 1:
        raise Refuse('compute_tile_positions_per_frame: tiles_per_column, tiles_per_row are not adjacent')
    want = ["tile_indices = np.stack(np.meshgrid(range(tiles_per_column), range(tiles_per_row), "
            "indexing='xy')).reshape(2, -1).T",
            'pixel_indices = tile_indices * [columns, rows]',
            'transformer = PixelToReferenceTransformer(image_position=total_pixel_matrix_image_position, '
            'image_orientation=image_orientation, pixel_spacing=pixel_spacing)',
            'image_positions = transformer(pixel_indices)',
            'pixel_indices += 1',
            'return list(zip(pixel_indices.tolist(), image_positions.tolist()))']
    got = [src(s) for s in body[j + 1:]]
    if got != want:
        bad = next((g for g, w in zip(got, want) if g != w), 'number of statements')
        raise Refuse(f'compute_tile_positions_per_frame: the code after the tile counts changed: `{bad[:90]}`')
    for s in body[:i]:
        if set(assigned_names([s])) & {'rows', 'columns', 'total_pixel_matrix_rows', 'total_pixel_matrix_columns'}:
            raise Refuse('compute_tile_positions_per_frame: a size parameter is reassigned before the tile counts')
    return body[i:j + 1]


class _ShapeToName(ast.NodeTransformer):
    """pixel_array.shape[0] -> n_rows, pixel_array.shape[1] -> n_cols (any other use of pixel_array is left
    alone and is then refused by the translator)"""
    def visit_Subscript(self, node):
        if src(node) == 'pixel_array.shape[0]':
            return ast.copy_location(ast.Name(id='n_rows', ctx=ast.Load()), node)
        if src(node) == 'pixel_array.shape[1]':
            return ast.copy_location(ast.Name(id='n_cols', ctx=ast.Load()), node)
        return self.generic_visit(node)


def frag_tile_array_bounds(fn):
    """get_tile_array: everything before `tile_array = pixel_array[row_offset:row_end, column_offset:column_end]`
    (offset checks, 1-based -> 0-based, clipping, pad sizes) with pixel_array.shape[0|1] read as the ints
    n_rows, n_cols; the slicing / padding statements after it must be textually unchanged."""
    import copy
    body = _stmts(fn)
    texts = [src(s) for s in body]
    cut = 'tile_array = pixel_array[row_offset:row_end, column_offset:column_end]'
    if texts.count(cut) != 1:
        raise Refuse('get_tile_array: no unique `' + cut + '`')
    i = texts.index(cut)
    want = [cut,
            'if pad and (pad_rows > 0 or pad_columns > 0):\n'
            '    extra_dims = pixel_array.ndim - 2\n'
            '    padding = [(0, pad_rows), (0, pad_columns)] + [(0, 0)] * extra_dims\n'
            '    tile_array = np.pad(tile_array, padding)',
            'return tile_array']
    if texts[i:] != want:
        bad = next((g for g, w in zip(texts[i:], want) if g != w), 'number of statements')
        raise Refuse(f'get_tile_array: the slicing / padding code changed: `{bad[:90]}`')
    if [a.arg for a in fn.args.args] != ['pixel_array', 'row_offset', 'column_offset', 'tile_rows', 'tile_columns', 'pad']:
        raise Refuse('get_tile_array: parameter list changed')
    out = [_ShapeToName().visit(copy.deepcopy(s)) for s in body[:i]]
    for s in out:
        ast.fix_missing_locations(s)
    return out


def frag_plane_position_offsets(fn):
    """compute_plane_position_tiled_full: the index check and the two frame offsets; the uses of the offsets
    (index=(column, row) of the transform, pixel_matrix_position = offsets + 1) must be textually unchanged."""
    body = _stmts(fn)
    texts = [src(s) for s in body]
    try:
        i = texts.index("if row_index < 1 or column_index < 1:\n    raise ValueError('Row and column indices must be positive integers.')")
    except ValueError:
        raise Refuse('compute_plane_position_tiled_full: index check not found')
    if [assigned_names([s]) for s in body[i + 1:i + 3]] != [['row_offset_frame'], ['column_offset_frame']]:
        raise Refuse('compute_plane_position_tiled_full: offsets are not assigned right after the index check')
    rest = body[i + 3:]
    for s in rest:
        if set(assigned_names([s])) & {'row_offset_frame', 'column_offset_frame', 'rows', 'columns'}:
            raise Refuse('compute_plane_position_tiled_full: offsets reassigned')
    uses = [src(s) for s in rest if 'offset_frame' in src(s)]
    want = ['x, y, z = map_pixel_into_coordinate_system(index=(column_offset_frame, row_offset_frame), '
            'image_position=(x_offset, y_offset, z_offset), image_orientation=image_orientation, '
            'pixel_spacing=pixel_spacing)',
            'return PlanePositionSequence(coordinate_system=CoordinateSystemNames.SLIDE, image_position=(x, y, z), '
            'pixel_matrix_position=(column_offset_frame + 1, row_offset_frame + 1))']
    if uses != want:
        bad = next((g for g, w in zip(uses, want) if g != w), 'number of statements')
        raise Refuse(f'compute_plane_position_tiled_full: the uses of the offsets changed: `{bad[:90]}`')
    return body[i:i + 3]


IMG, SPATIAL, SEGSOP, VOLUME = 'image.py', 'spatial.py', 'seg/sop.py', 'volume.py'
FUNCTIONS = {
    # generated name -> how to find / cut the source
    'standardize_frame_index': dict(file=IMG, path=['_Image', '_standardize_frame_index']),
    'standardize_slice_indices': dict(file=IMG, path=['_Image', '_standardize_slice_indices']),
    'standardize_row_column_indices': dict(file=IMG, path=['_Image', '_standardize_row_column_indices']),
    'raw_frame_native_range': dict(file=IMG, path=['_Image', 'get_raw_frame'], fragment=frag_raw_frame,
                                   params=[('frame_index', Z)], outputs=['start', 'end']),
    'bytes_per_frame_uncompressed': dict(file='io.py', path=['ImageFileReader', '_bytes_per_frame_uncompressed']),
    'read_frame_nbytes': dict(file='io.py', path=['ImageFileReader', 'read_frame_raw'], fragment=frag_read_frame_nbytes,
                              params=[('index', Z)], outputs=['n_bytes']),
    'tile_pixel_matrix': dict(file=SPATIAL, path=['tile_pixel_matrix']),
    'tile_positions_counts': dict(file=SPATIAL, path=['compute_tile_positions_per_frame'],
                                  fragment=frag_tile_positions_counts,
                                  params=[('rows', Z), ('columns', Z), ('total_pixel_matrix_rows', Z),
                                          ('total_pixel_matrix_columns', Z)],
                                  outputs=['tiles_per_column', 'tiles_per_row']),
    'tile_array_bounds': dict(file=SPATIAL, path=['get_tile_array'], fragment=frag_tile_array_bounds,
                              params=[('row_offset', Z), ('column_offset', Z), ('tile_rows', Z), ('tile_columns', Z),
                                      ('n_rows', Z), ('n_cols', Z)],
                              outputs=['row_offset', 'row_end', 'column_offset', 'column_end', 'pad_rows',
                                       'pad_columns']),
    'plane_position_offsets': dict(file='utils.py', path=['compute_plane_position_tiled_full'],
                                   fragment=frag_plane_position_offsets,
                                   params=[('row_index', Z), ('column_index', Z), ('rows', Z), ('columns', Z)],
                                   outputs=['row_offset_frame', 'column_offset_frame']),
    'get_unsigned_dtype': dict(file=SEGSOP, path=['_get_unsigned_dtype']),
    'getitem_check_int': dict(file=VOLUME, path=['_VolumeBase', '_prepare_getitem_index', '_check_int'],
                              params=[('val', Z)]),
    'getitem_check_slice': dict(file=VOLUME, path=['_VolumeBase', '_prepare_getitem_index', '_check_slice'],
                                params=[], attr_types={'val.start': OZ, 'val.stop': OZ}),
    'getitem_size': dict(file=VOLUME, path=['_VolumeBase', '_prepare_getitem_index'], fragment=frag_getitem_size,
                         params=[('first', Z), ('last', Z), ('step', Z)], outputs=['size']),
}

# obligation key -> (generated function, hand model module, statement shown in the evidence)
TARGETS = {
    'frame_index/C05': dict(fn='standardize_frame_index', statement=
                            'forall f ai n, t_standardize_frame_index f ai n = C05_Model.std_index n f ai'),
    'raw_frame_range/C05': dict(fn='raw_frame_native_range', statement=
                                'forall i ybr R C spp bits, t_raw_frame_native_range i ybr R C spp bits = '
                                'Ok (C05_Model.eager_range bits (if ybr then R*C*2 else R*C*spp) i)'),
    'bytes_per_frame/C05': dict(fn='bytes_per_frame_uncompressed', statement=
                                'forall ppf bits ybr R C, t_bytes_per_frame_uncompressed ppf bits ybr R C = '
                                'Ok (C05_Model.lazy_bpf bits (if negb (bits =? 1) && ybr then R*C*2 else ppf))'),
    'read_frame_nbytes/C05': dict(fn='read_frame_nbytes', statement=
                                  'forall i n bits npx, t_read_frame_nbytes i n (C05_Model.lazy_bpf bits npx) bits npx = '
                                  'if (i <? 0) || (i >=? n) then Err "ValueError" else Ok (C05_Model.lazy_nbytes bits npx i)   '
                                  '(index guard + number of bytes read by the native branch of read_frame_raw)'),
    'slice_indices/C03': dict(fn='standardize_slice_indices', statement=
                              'forall s e n ai, t_standardize_slice_indices s e n ai = C03_Model.std_slice s e n ai'),
    'row_column_indices/C03': dict(fn='standardize_row_column_indices', pre=['TInt_Spec_rc'], statement=
                                   'forall rs re cs ce R C ai oi, t_standardize_row_column_indices rs re cs ce R C ai oi = '
                                   'C03_Model.std_rc rs re cs ce R C ai oi'),
    'row_column_indices/C04': dict(fn='standardize_row_column_indices', pre=['TInt_Spec_rc'], statement=
                                   'forall rs re cs ce R C ai oi, t_standardize_row_column_indices rs re cs ce R C ai oi = '
                                   'C04_Model.standardize_rc_out ai oi rs re cs ce R C'),
    'getitem_check_slice/C03': dict(fn='getitem_check_slice', statement=
                                    'forall a b n, t_getitem_check_slice a n b = '
                                    'if C03_Model.check_slice a b n then Ok tt else Err "ValueError"'),
    'getitem_size/C03': dict(fn='getitem_size', statement=
                             "forall a b n, let '(f, l, st) := slice_indices a b 1 n in "
                             'bind (t_getitem_size f l st) (fun sz => Ok (f, sz)) = '
                             'match C03_Model.slice_first_size a b n with Some p => Ok p | None => Err "IndexError" end'),
    'tile_pixel_matrix/C12': dict(fn='tile_pixel_matrix', statement=
                                  'forall R C th tw, 0 < th -> 0 < tw -> t_tile_pixel_matrix R C th tw = '
                                  'Ok (C12_Model.tile_pixel_matrix R C th tw);  th = 0 \\/ tw = 0 -> ... = Err "ZeroDivisionError"  '
                                  '(int(np.ceil(a / b)) read as exact ceiling: trusted float step)'),
    'tile_positions_counts/C12': dict(fn='tile_positions_counts', statement=
                                      'forall th tw R C, th <> 0 -> tw <> 0 -> t_tile_positions_counts th tw R C = '
                                      'Ok (C12_Model.tiles_per_column C tw, C12_Model.tiles_per_row R th);  '
                                      'th = 0 \\/ tw = 0 -> ... = Err "ZeroDivisionError";  consequently '
                                      'tile_positions_chk = the guards + bind (t_tile_positions_counts ...) (the grid of those counts)'),
    'tile_array_bounds/C12': dict(fn='tile_array_bounds', statement=
                                  'forall M R C ro co th tw pad, C12_Model.get_tile_array M R C ro co th tw pad = '
                                  "bind (t_tile_array_bounds ro co th tw R C) (fun '(r0, r1, c0, c1, pr, pc) => "
                                  'Ok (slice rows r0..r1, columns c0..c1 of M, zero-padded by pr rows / pc columns if pad))   '
                                  '(pixel_array.shape[0|1] read as R, C)'),
    'plane_position_offsets/C12': dict(fn='plane_position_offsets', statement=
                                       'forall ri ci x y th tw rc cc spr spc sl, C12_Model.plane_position_tiled_full ri ci x y th tw rc cc spr spc sl = '
                                       "bind (t_plane_position_offsets ri ci th tw) (fun '(ro, co) => "
                                       'Ok ((co + 1, ro + 1), pix2ref (V3 x y z(sl)) rc cc spr spc co ro))'),
    'unsigned_dtype/C02': dict(fn='get_unsigned_dtype', statement=
                               'forall m, bind (t_get_unsigned_dtype m) (fun w => Ok (DU w)) = Ok (C02_Model.unsigned_dtype m)   '
                               '(np.dtype(np.uintW) rendered as W)'),
    'unsigned_dtype/C01': dict(fn='get_unsigned_dtype', statement=
                               'forall c, ty c = LABELMAP -> maxl (segs c) < 65536 -> t_get_unsigned_dtype (maxl (segs c)) = '
                               'Ok (C01_Model.bits_alloc c);  forall m, 65536 <= m -> t_get_unsigned_dtype m = Ok 32'),
    'getitem_check_int/C08': dict(fn='getitem_check_int', statement=
                                  'forall v n, t_getitem_check_int v n = bind (C08_Model.check_item n (IInt v)) (fun _ => Ok tt)'),
    'getitem_check_slice/C08': dict(fn='getitem_check_slice', statement=
                                    'forall a b s n, t_getitem_check_slice a n b = '
                                    'bind (C08_Model.check_item n (ISlc a b s)) (fun _ => Ok tt)'),
    'getitem_size/C08': dict(fn='getitem_size', statement=
                             'forall f l st, st <> 0 -> t_getitem_size f l st = '
                             'match PySlice.hd_size f l st with Some sz => Ok sz | None => Err "IndexError" end'),
}
FOR = {}
for _k in TARGETS:
    FOR.setdefault(_k.split('/')[1], []).append(_k)

GEN_HEADER = '''(* GENERATED by harness/translate_int.py from {src} ({what}) - do not edit *)
From Coq Require Import String ZArith List Bool.
From HD Require Import Base.Val Base.PyInt.
Import ListNotations.
Open Scope string_scope.
Open Scope Z_scope.

'''

_trees = {}


def translate(fname, repo=None):
    """-> (Gallina text, [(param, type)], return type); raises Refuse"""
    spec = FUNCTIONS[fname]
    path = os.path.join(repo or common.REPO, 'src', 'highdicom', spec['file'])
    if path not in _trees:
        _trees[path] = ast.parse(open(path).read())
    fn = find_def(_trees[path], spec['path'])
    body = spec['fragment'](fn) if 'fragment' in spec else None
    tr = Translator(fn, fname, params=spec.get('params'), outputs=spec.get('outputs'),
                    attr_types=spec.get('attr_types'), body=body)
    text, ps, rt = tr.translate()
    return GEN_HEADER.format(src=path, what='.'.join(spec['path'])) + indent(text), ps, rt


def template_path(key):
    return os.path.join(common.COQ, 'templates', 'TInt_Eq_' + ident(key) + '.v')


def _coqc(work, path, timeout=300):
    cmd = f'timeout {timeout} coqc -Q {common.COQ}/theories HD -Q {work} Work {path}'
    return common.sh(cmd, cwd=work, timeout=timeout + 30)


def _tail(log):
    return re.sub(r'\s+', ' ', log.strip())[-400:]


def obligations(work, keys):
    """One obligation per key of TARGETS (see FOR['C05'] etc.).  Never raises: any failure of
    the machinery itself is reported as a broken obligation."""
    try:
        return _obligations(work, keys)
    except Exception as e:  # noqa
        return [{'name': f'T-int {k}: {TARGETS[k]["statement"]}',
                 'status': f'broken: T-int machinery failed: {type(e).__name__}: {e}'[:400], 'assumptions': None}
                for k in keys]


def _obligations(work, keys):
    os.makedirs(work, exist_ok=True)
    out = {}
    fns = list(dict.fromkeys(TARGETS[k]['fn'] for k in keys))
    try:
        rc, log = common.coq_make(['theories/Base/PyInt.vo'] + sorted(
            {f'theories/{k.split("/")[1]}_Model.vo' for k in keys}))
    except Exception as e:  # noqa
        rc, log = 1, repr(e)
    if rc == 0 and common.forbidden_scan(['theories/Base/PyInt.v']):
        rc, log = 1, 'forbidden vernacular in Base/PyInt.v'
    if rc != 0:
        return [{'name': f'T-int {k}', 'status': 'broken: Base/PyInt.v or the model did not build: ' + _tail(log)}
                for k in keys]
    gen_status = {}
    for f in fns:
        try:
            text, _, _ = translate(f)
            if common.FORBIDDEN.search(text):
                raise Refuse('forbidden vernacular in generated text')
            open(os.path.join(work, f'TInt_Gen_{f}.v'), 'w').write(text)
            gen_status[f] = None
        except Exception as e:  # noqa  fail closed on anything, including bugs of the translator itself
            gen_status[f] = f'translator-refused: {type(e).__name__}: {e}'[:400]

    def build_gen(f):
        rc, log = _coqc(work, os.path.join(work, f'TInt_Gen_{f}.v'))
        return f, (None if rc == 0 else 'broken: generated definition does not type-check: ' + _tail(log))
    todo = [f for f in fns if gen_status[f] is None]
    with cf.ThreadPoolExecutor(max_workers=max(1, min(common.NPROC, 6))) as ex:
        for f, st in ex.map(build_gen, todo):
            gen_status[f] = st
    good = [f for f in fns if gen_status[f] is None]
    open(os.path.join(work, 'TInt_Gen.v'), 'w').write(
        '(* GENERATED by harness/translate_int.py - do not edit *)\n' +
        ''.join(f'From Work Require Export TInt_Gen_{f}.\n' for f in good))
    rc, log = _coqc(work, os.path.join(work, 'TInt_Gen.v'))
    if rc != 0:
        return [{'name': f'T-int {k}', 'status': 'broken: TInt_Gen.v: ' + _tail(log)} for k in keys]

    def check_file(tp, what):
        """copy a static proof file into work, compile it, count closed Print Assumptions"""
        if not os.path.exists(tp):
            return f'broken: no equivalence file {tp}'
        txt = re.sub(r'\(\*.*?\*\)', '', open(tp).read(), flags=re.S)
        if common.FORBIDDEN.search(txt):
            return 'broken: forbidden vernacular in ' + tp
        n_print = len(re.findall(r'^\s*Print Assumptions\s', txt, flags=re.M))
        dst = os.path.join(work, os.path.basename(tp))
        shutil.copyfile(tp, dst)
        rc, log = _coqc(work, dst)
        if rc != 0:
            return f'broken: {what}: ' + _tail(log)
        n_closed = len(re.findall(r'^Closed under the global context', log, flags=re.M))
        if n_print == 0 or n_closed != n_print or 'Axioms:' in log:
            return 'broken: Print Assumptions not closed: ' + _tail(log)
        return 'ok'

    with cf.ThreadPoolExecutor(max_workers=max(1, min(common.NPROC, 6))) as ex:
        pre_fut, eq_fut = {}, {}
        for k in keys:
            f = TARGETS[k]['fn']
            for pre in TARGETS[k].get('pre', []):
                if pre not in pre_fut and gen_status[f] is None:
                    pre_fut[pre] = ex.submit(check_file, os.path.join(common.COQ, 'templates', pre + '.v'),
                                             f't_{f} no longer proved equal to its block reading ({pre})')

        def build_eq(k):
            f = TARGETS[k]['fn']
            if gen_status[f] is not None:
                return gen_status[f]
            for pre in TARGETS[k].get('pre', []):
                st = pre_fut[pre].result()
                if st != 'ok':
                    return st
            return check_file(template_path(k), f't_{f} no longer proved equal to the hand model')
        # files without prerequisites first, so that a waiting job never starves the pool
        for k in sorted(keys, key=lambda k: len(TARGETS[k].get('pre', []))):
            eq_fut[k] = ex.submit(build_eq, k)
        for k in keys:
            out[k] = eq_fut[k].result()
    return [{'name': f'T-int {k}: {TARGETS[k]["statement"]}', 'status': out[k],
             'assumptions': ['Closed under the global context'] if out[k] == 'ok' else None} for k in keys]


if __name__ == '__main__':
    import sys
    for f in (sys.argv[1:] or list(FUNCTIONS)):
        try:
            print(translate(f)[0])
        except Refuse as e:
            print(f'(* {f}: REFUSED: {e} *)')
