"""C02 - segment selection, ordering, combining and relabelling are exact.

Implementation functions driven (real code from /repo/src):
  Segmentation.get_pixels_by_source_instance / get_pixels_by_source_frame /
  get_pixels_by_dimension_index_values / get_volume / get_total_pixel_matrix
  (segment_numbers incl. None and repeated numbers, combine_segments, relabel,
  skip_overlap_checks, rescale_fractional, dtype, assert_missing_frames_are_empty /
  allow_missing_positions), get_segment_numbers, get_tracking_ids,
  segment_numbers, number_of_segments, get_segment_description,
  segmented_property_categories, segmented_property_types,
  Segmentation._check_and_cast_pixel_array (+ _combine_segments) called directly,
  Segmentation.from_dataset on objects whose frames are not unique per (plane, segment),
  and on objects whose per-frame DimensionIndexValues were re-encoded the way other encoders write them
  (kind 'foreign'); the same object obtained in memory / segread / segread(lazy_frame_retrieval=True) /
  from_dataset, with the decoded pixel_array cache warmed or not, whole HISTORIES of reads on one object with
  the returned arrays overwritten by the caller in between (kind 'history');
  get_pixels_by_dimension_index_values with explicit dimension_index_pointers: any selection of the plane
  dimensions (Row/Column position, X/Y/Z offset; ImagePositionPatient) in any order, a dimension named twice, None,
  the segment dimension / a tag that is no dimension / rows of the wrong length, selections that do not identify
  the frames - and HISTORIES of such reads on one sparse object in which the same selection recurs in different
  orders (kind 'pointers', the dimidx / history / malformed / foreign kinds, the shipped sparse tiled files).
Model: coq/theories/C02_Model.v; theorems: C02_Props.v.

A case = one stored segmentation (synthetic, built through the real
constructor, or a shipped fixture) + a list of reads.  The model receives the
stored object in abstract form (frames keyed by source plane number); for
synthetic objects that form is PREDICTED from the input masks and verified
against the object actually built (decoded with pydicom only).
"""
import functools
import itertools
import os
import sys
from fractions import Fraction as F

sys.path.insert(0, os.path.dirname(os.path.abspath(__file__)))
import common
from common import Err, catch, zlit, zl

PROPERTY = 'C02'
PROPS_FILE = 'C02_Props.v'
COQ_IMPORTS = ['C02_Model']
TOL = None
ORACLE_PREMISES = [
    'pydicom write/read and highdicom frame decoding return the stored frame values (C01/C05 territory); '
    'the abstract stored object given to the model is predicted from the input masks and checked against '
    'the dataset actually built (pydicom pixel_array + per-frame functional groups)',
    'the SQLite joins of _iterate_indices_for_stack behave as inner joins on equal keys (modelled as list comprehension)',
    'plane enumeration of get_volume (spatial sort, C11) and tile placement of get_total_pixel_matrix (C04) are taken '
    'from the harness: the model sees planes/tiles as opaque keys, the harness cuts the total pixel matrix into tiles',
    'float division stored/MaximumFractionalValue is within the dtype epsilon of the exact rational (outputs are '
    'canonicalised to exact fractions by the harness)',
    'numpy type promotion inside the combine loop (uint8 frame * dtype scalar, np.maximum) does not lose values '
    'that fit the output dtype',
    'reads are functions of the stored object (no aliasing between the cached pixel array, the frames handed to the '
    'combine loop and the arrays returned to the caller; no per-object state that makes the answer to a read by '
    'dimension index values depend on the pointer lists of earlier reads): outside the model, exercised by the '
    'history and pointers cases',
    'the DimensionIndexValues along ALL plane dimensions given to the model and the oracle are predicted (ranks of '
    'the occurring tile rows / columns, X and Y falling with them, Z constant; re-encoded values) and verified '
    'against the object actually built; for the shipped files they are read with pydicom',
]
MODELLED = ('seg/sop.py: _get_pixels_by_seg_frame (dtype choice and capacity check, LABELMAP need_remap / '
            'intermediate dtype / remap table / one-hot, BINARY+FRACTIONAL combine loop with overlap test and maximum, '
            'stacked + rescale branch), _get_segment_remap_values, argument checks and missing-frame policies of the '
            'five read entry points (incl. segment_numbers=None and repeated segment numbers in stacked reads), '
            'segment_numbers, number_of_segments, get_segment_numbers, get_tracking_ids, get_segment_description, '
            'segmented_property_categories / _types; _check_and_cast_pixel_array (integer input, LABELMAP) with '
            '_combine_segments; the (plane, segment) uniqueness guard on objects re-read with from_dataset; '
            'image.py: _prepare_channel_tables and the stack join (as comprehension), _get_pixels_by_frame (as gather), '
            'the index-column / value-column choice of _normalize_dimension_queries with the use_indices flags each '
            'entry point passes to _iterate_indices_for_stack (objects with foreign DimensionIndexValues); '
            'get_pixels_by_dimension_index_values with explicit dimension_index_pointers: pointer checks, row-length '
            'check, the existence check of _get_unique_dim_index_values (SELECT DISTINCT over the pointed columns), '
            'the uniqueness check and the multi-column join (read_dim)')
STRATA = ['instance', 'frame', 'dimidx', 'volume', 'tpm', 'subsets', 'malformed', 'fixture', 'search', 'tracking',
          'ctor', 'describe', 'dupframe', 'foreign', 'history', 'pointers']
NOT_EXECUTED = ['palette colour / ICC output of LABELMAP (apply_palette_color_lut)']
RULE = ('objects: BINARY/FRACTIONAL/LABELMAP, 1-4 segments (LABELMAP also sparse numbers from '
        '{1,2,5,7,200,255,256,300,1000,2048,65535}), 1-5 planes (CT series) or 1-9 tiles (tiled slide image), frames of '
        '<= 9 pixels, empty planes, omit_empty_frames on/off, overlapping or disjoint masks, true fractional values, '
        'in-memory / segread / lazy segread / from_dataset, pixel_array cache warmed or not; foreign: per-frame '
        'DimensionIndexValues re-encoded (segment index ranked over the occurring numbers / permuted / shifted, plane '
        'index ranked / with gaps / reversed) with described-but-empty segments, all entry points; history: 8-12 reads '
        'of mixed entry points on ONE object, cache viewed at the start or mid-way, results overwritten by the caller, '
        'stored state re-read at the end; pointers: 9-11 reads by dimension index values on ONE sparse (tiles / slices '
        'not stored) native or re-encoded object with explicit dimension_index_pointers - one selection of 2-5 plane '
        'dimensions in a fresh random order for most reads, other selections (also ambiguous ones, a dimension twice, '
        'None) in between, 75 % without assert_missing_frames_are_empty, stored / absent / mixed positions, two reads '
        'violating a pointer or row guard; the same on the shipped sparse tiled files (segread, lazy or not); reads: random ordered subsets x 16 option combinations x 13 dtypes x repeated / '
        'permuted / omitted / unknown planes; subsets: ALL non-empty ordered subsets of the segment numbers; '
        'malformed: every guard violated; fixtures: shipped seg_image_*.dcm.  non-trivial = at least one non-zero '
        'output value or a refusal; distinct by case hash')
EXHAUSTIVE = {'quick': False, 'thorough': False}

SPARSE = [1, 2, 5, 7, 200, 255, 256, 300, 1000, 2048, 65535]
DTYPES = [None, 'bool', 'uint8', 'uint16', 'uint32', 'int8', 'int16', 'int32', 'int64',
          'float16', 'float32', 'float64']
DT_COQ = {'bool': 'DBool', 'uint8': '(DU 8)', 'uint16': '(DU 16)', 'uint32': '(DU 32)', 'uint64': '(DU 64)',
          'int8': '(DI 8)', 'int16': '(DI 16)', 'int32': '(DI 32)', 'int64': '(DI 64)',
          'float16': '(DF 16)', 'float32': '(DF 32)', 'float64': '(DF 64)', 'complex64': 'DOther'}
# largest v such that every integer 0..v is exactly representable in the dtype
DT_MAX = {'bool': 1, 'uint8': 255, 'uint16': 65535, 'uint32': 2**32 - 1, 'uint64': 2**64 - 1,
          'int8': 127, 'int16': 32767, 'int32': 2**31 - 1, 'int64': 2**63 - 1,
          'float16': 2**11, 'float32': 2**24, 'float64': 2**53}
CT_SHAPES = [(2, 3), (3, 3), (1, 5), (4, 2), (1, 1), (2, 2)]
SM_SHAPES = [(4, 6, 2, 3), (5, 7, 2, 3), (3, 3, 3, 3), (4, 4, 2, 2), (2, 9, 2, 3), (5, 5, 2, 2), (2, 2, 2, 2)]
FIXTURES = ['seg_image_ct_binary.dcm', 'seg_image_ct_binary_overlap.dcm', 'seg_image_ct_true_fractional.dcm',
            'seg_image_ct_binary_fractional.dcm', 'seg_image_sm_control.dcm', 'seg_image_sm_control_labelmap.dcm']


# ----------------------------------------------------------------------------
# generators
# ----------------------------------------------------------------------------
OPEN_MODES = ['memory', 'file', 'lazy', 'dataset']


def open_mode(o):
    """how the object handed to the reads is obtained: as constructed ('memory'), segread of the written file
    ('file'), segread(lazy_frame_retrieval=True) ('lazy'), Segmentation.from_dataset(pydicom.dcmread()) ('dataset')"""
    return o.get('open') or ('file' if o.get('file') else 'memory')


def gen_obj(rng, src, ty=None, segs=None, true_frac=None, blank=None):
    ty = ty or rng.choice(['BINARY', 'FRACTIONAL', 'LABELMAP'])
    if segs is None:
        if ty == 'LABELMAP' and rng.random() < 0.6:
            if rng.random() < 0.12:
                segs = [1, 7, 300, 65535]
            else:
                segs = sorted(rng.sample(SPARSE, rng.randint(1, 4)))
        else:
            segs = list(range(1, rng.randint(1, 4) + 1))
    S = len(segs)
    o = {'src': src, 'ty': ty, 'segs': segs}
    if src == 'ct':
        o['P'] = rng.choice([1, 2, 3, 3, 4, 5])
        o['rows'], o['cols'] = rng.choice(CT_SHAPES)
        o['step'] = rng.choice([5.0, -5.0])
        valid = [[True] * (o['rows'] * o['cols']) for _ in range(o['P'])]
    else:
        R, C, th, tw = rng.choice(SM_SHAPES)
        o.update(R=R, C=C, rows=th, cols=tw)
        nr, nc = -(-R // th), -(-C // tw)
        o['P'] = nr * nc
        valid = []
        for a in range(nr):
            for b in range(nc):
                valid.append([(a * th + r < R) and (b * tw + c < C) for r in range(th) for c in range(tw)])
    npix = o['rows'] * o['cols']
    o['maxfrac'] = rng.choice([1, 2, 100, 255, 128]) if ty == 'FRACTIONAL' else 1
    if true_frac is None:
        true_frac = rng.random() < 0.5
    true_frac = ty == 'FRACTIONAL' and o['maxfrac'] > 1 and true_frac
    overlap = ty != 'LABELMAP' and not true_frac and rng.random() < 0.4
    pix = [[[0] * npix for _ in range(S)] for _ in range(o['P'])]
    all_empty = rng.random() < 0.04
    for p in range(o['P']):
        if all_empty or rng.random() < 0.3:
            continue
        mode = rng.choice(['few', 'few', 'full', 'one'])
        for q in range(npix):
            if not valid[p][q]:
                continue
            if mode == 'few' and rng.random() < 0.5:
                continue
            if mode == 'one' and q != 0:
                continue
            owners = [rng.randrange(S)]
            if overlap and rng.random() < 0.4:
                owners = rng.sample(range(S), rng.randint(1, S))
            for k in owners:
                pix[p][k][q] = rng.randint(1, o['maxfrac']) if true_frac else o['maxfrac']
    if blank is None:
        # described segments that are empty everywhere (no stored frame at all when empty frames are omitted)
        blank = [k for k in range(S) if S > 1 and rng.random() < 0.1]
    for p in range(o['P']):
        for k in blank:
            pix[p][k] = [0] * npix
    o['pix'] = pix
    o['omit'] = rng.random() < 0.6
    o['layout'] = rng.choice(['labelmap', 'stacked']) if ty == 'LABELMAP' else 'stacked'
    if ty == 'BINARY' and not overlap and rng.random() < 0.3:
        o['layout'] = 'labelmap'
    o['open'] = rng.choice(['memory'] * 5 + ['file', 'file', 'lazy', 'dataset'])
    # the caller has looked at seg.pixel_array before reading (decoded frames are cached from then on)
    o['warm'] = rng.random() < 0.2
    return o


def present_planes(o, raw=False):
    """1-based plane numbers that have at least one stored frame (prediction)."""
    if o.get('dup') and not raw:
        return sorted({f[0] for f in predicted_frames(o)})
    ne = [p + 1 for p in range(o['P']) if any(any(v) for v in o['pix'][p])]
    if not o['omit'] or not ne:
        return list(range(1, o['P'] + 1))
    return ne


def predicted_frames(o):
    """[(plane number, segment number or 0, stored pixel values)]"""
    S = len(o['segs'])
    pres = present_planes(o, raw=True)
    everything_empty = not any(any(any(v) for v in pl) for pl in o['pix'])
    omit = o['omit'] and not everything_empty
    out = []
    if o['ty'] == 'LABELMAP':
        for p in pres:
            vals = [0] * len(o['pix'][p - 1][0])
            for k in range(S):
                for q, v in enumerate(o['pix'][p - 1][k]):
                    if v:
                        vals[q] = o['segs'][k]
            out.append((p, 0, vals))
    else:
        for k in range(S):
            for p in pres:
                v = o['pix'][p - 1][k]
                if omit and not any(v):
                    continue
                out.append((p, o['segs'][k], list(v)))
    if o.get('dup'):
        # the per-frame item of frame `to` was overwritten by a copy of the item of frame `from`:
        # two stored frames now claim the same (plane, segment); pixel data is untouched
        (a, s_), (b, t_) = o['dup']['from'], o['dup']['to']
        out = [((a, s_, px) if (p, sn) == (b, t_) else (p, sn, px)) for (p, sn, px) in out]
    return out


def volume_keys(o):
    pres = present_planes(o)
    if o['src'] == 'sm':
        return list(range(1, o['P'] + 1))
    lo, hi = min(pres), max(pres)
    ks = list(range(lo, hi + 1))
    # slices are ordered by decreasing z for the (1,0,0,0,1,0) orientation
    return ks[::-1] if o['step'] > 0 else ks


def gen_req(rng, segs):
    return rng.sample(segs, rng.randint(1, len(segs)))


def declared_max(o_ty, maxfrac, req, combine, relabel, rescale):
    """largest value the read may have to return (what the dtype must hold exactly)"""
    if combine:
        return len(req) if relabel else max(req)
    if o_ty == 'FRACTIONAL' and not rescale:
        return maxfrac
    return 1


def safe_dtype(rng, o, req, combine, relabel, rescale):
    """Mostly a dtype that can hold the result; sometimes any dtype (capacity refusal)."""
    for _ in range(20):
        dt = rng.choice(DTYPES)
        if dt is None or rng.random() < 0.15:
            return dt
        if declared_max(o['ty'], o['maxfrac'], req, combine, relabel, rescale) > DT_MAX[dt]:
            continue
        return dt
    return None


def gen_read(rng, o, entry, req=None, opts=None):
    P = o['P']
    pres = present_planes(o)
    r = {'entry': entry}
    if entry in ('instance', 'frame', 'dimidx'):
        mode = rng.choice(['all', 'perm', 'some', 'some', 'repeat', 'missing'])
        pool = list(range(1, P + 1)) if entry != 'dimidx' else list(pres)
        if mode == 'all':
            planes = list(pool)
        elif mode == 'perm':
            planes = rng.sample(pool, len(pool))
        elif mode == 'some':
            planes = rng.sample(pool, rng.randint(1, len(pool)))
        elif mode == 'repeat':
            planes = [rng.choice(pool) for _ in range(rng.randint(1, 4))]
        else:
            planes = rng.sample(pool, rng.randint(0, len(pool)))
            extra = [P + 1, P + 3] + [p for p in range(1, P + 1) if p not in pres]
            planes.insert(rng.randint(0, len(planes)), rng.choice(extra))
        r['planes'] = planes
        r['am'] = rng.random() < 0.5
        if entry == 'dimidx' and rng.random() < 0.6:
            # explicit dimension_index_pointers: a selection of the plane dimensions in some order
            r['ptrs'] = gen_ptrs(rng, o)
    elif entry == 'volume':
        r['planes'] = volume_keys(o)
        r['am'] = rng.random() < 0.8       # allow_missing_positions
    else:
        r['planes'] = list(range(1, P + 1))
        r['am'] = True
    r['req'] = req if req is not None else gen_req(rng, o['segs'])
    if opts is None:
        opts = [rng.random() < 0.55, rng.random() < 0.5, rng.random() < 0.35, rng.random() < 0.7]
    r['combine'], r['relabel'], r['skip'], r['rescale'] = opts
    if req is None and not r['combine'] and rng.random() < 0.18:
        # a stacked read may name a segment more than once (D90)
        r['req'] = [rng.choice(o['segs']) for _ in range(rng.randint(2, 5))]
    elif req is None and rng.random() < 0.08:
        # segment_numbers=None: all segments of the object
        r['req'] = list(o['segs'])
        r['default_req'] = True
    r['dtype'] = safe_dtype(rng, o, r['req'], r['combine'], r['relabel'], r['rescale'])
    return r


def applicable_bad(o, entry):
    kinds = ['empty_req', 'unknown_seg', 'small_dtype', 'other_dtype', 'bool_combine']
    if entry in ('instance', 'frame', 'dimidx'):
        kinds += ['empty_keys', 'unknown_key']
    if entry == 'dimidx':
        kinds += ['ptr_empty', 'ptr_seg', 'ptr_bogus', 'row_short', 'row_long']
    if entry == 'frame':
        kinds.append('frame0')
    if entry == 'volume':
        kinds.append('strict_volume')
    if o['ty'] == 'FRACTIONAL':
        kinds += ['rescale_int', 'frac_norescale']
        if o['maxfrac'] > 1:
            kinds += ['raw_frac_narrow', 'raw_frac_narrow']
    if o['ty'] == 'LABELMAP' and max(o['segs']) > 2048:
        kinds += ['float_inexact', 'float_inexact']
    return kinds


def gen_malformed(rng, o, entry, idx=None):
    r = gen_read(rng, o, entry)
    r.pop('default_req', None)
    P = o['P']
    kinds = applicable_bad(o, entry)
    bad = rng.choice(kinds) if idx is None else kinds[idx % len(kinds)]
    r['bad'] = bad
    if bad == 'empty_req':
        r['req'] = []
    elif bad == 'unknown_seg':
        r['req'] = r['req'] + [rng.choice([0, max(o['segs']) + 1, 70000, -1])]
        rng.shuffle(r['req'])
    elif bad == 'empty_keys' and entry in ('instance', 'frame', 'dimidx'):
        r['planes'] = []
    elif bad == 'frame0' and entry == 'frame':
        r['planes'] = r['planes'] + [rng.choice([0, -1])]
    elif bad == 'unknown_key' and entry in ('instance', 'frame', 'dimidx'):
        r['planes'] = r['planes'] + [P + rng.randint(1, 3)]
        r['am'] = False
    elif bad == 'small_dtype':
        r['combine'] = True
        r['relabel'] = rng.random() < 0.3
        r['dtype'] = rng.choice(['bool', 'uint8', 'int8', 'int16', 'float16'])
    elif bad == 'raw_frac_narrow':          # D48 (fixed): raw FRACTIONAL values into a narrow dtype
        r['combine'], r['rescale'] = False, False
        r['dtype'] = rng.choice([d for d in ('bool', 'int8') if DT_MAX[d] < o['maxfrac']])
    elif bad == 'float_inexact':            # D49 (fixed): label not exactly representable in the float dtype
        r['req'] = list(o['segs'])
        r['combine'], r['relabel'] = True, False
        r['dtype'] = 'float16'
        if rng.random() < 0.5:
            r['req'] = [max(o['segs'])]
    elif bad == 'other_dtype':
        r['dtype'] = 'complex64'
    elif bad == 'rescale_int':
        r['combine'], r['rescale'], r['dtype'] = False, True, rng.choice(['uint8', 'int32', 'bool'])
    elif bad == 'frac_norescale':
        r['combine'], r['rescale'] = True, False
    elif bad == 'bool_combine':
        r['combine'], r['dtype'] = True, 'bool'
    elif bad == 'strict_volume' and entry == 'volume':
        r['am'] = False
    elif bad in ('ptr_empty', 'ptr_seg', 'ptr_bogus', 'row_short', 'row_long'):
        if 'ptrs' not in r:
            r['ptrs'] = gen_ptrs(rng, o, ambiguous=0)
        bad_pointers(rng, r, bad)
    if r['combine'] and len(set(r['req'])) < len(r['req']):
        # repeated numbers are only meaningful for stacked reads (the property speaks of ordered subsets; a
        # combined read of a BINARY object with a repeated number dies with sqlite3.IntegrityError)
        r['req'] = list(dict.fromkeys(r['req']))
    return r


def gen_search(rng, kind):
    S = rng.randint(1, 5)
    ty = rng.choice(['BINARY', 'LABELMAP'])
    segs = list(range(1, S + 1)) if ty == 'BINARY' or rng.random() < 0.5 else sorted(rng.sample(SPARSE, S))
    descs = []
    for n in segs:
        has_track = rng.random() < 0.6
        descs.append({'num': n, 'label': rng.randrange(3), 'cat': rng.randrange(3), 'type': rng.randrange(3),
                      'alg': rng.randrange(3),
                      'tuid': rng.randrange(3) if has_track else None,
                      'tid': rng.randrange(3) if has_track else None})
    qs = []
    names = ['label', 'cat', 'type', 'alg', 'tuid', 'tid']
    for mask in itertools.product([False, True], repeat=6):
        if kind == 'tracking' and (mask[0] or mask[4] or mask[5]):
            continue
        q = {}
        # bias towards the values of one existing description so that conjunctions match
        d0 = rng.choice(descs)
        for nm, on in zip(names, mask):
            if on:
                v = d0[nm] if (rng.random() < 0.7 and d0[nm] is not None) else rng.randrange(4)
                q[nm] = v
            else:
                q[nm] = None
        qs.append(q)
    return {'kind': kind, 'ty': ty, 'segs': segs, 'descs': descs, 'queries': qs, 'file': rng.random() < 0.3}


ALL_OPTS = list(itertools.product([False, True], repeat=4))


def ordered_subsets(segs):
    out = []
    for n in range(1, len(segs) + 1):
        out += [list(p) for p in itertools.permutations(segs, n)]
    return out


def gen_cases(rng, tier):
    n_obj = {'quick': 30, 'thorough': 400, 'search': 150}[tier]
    n_reads = 6
    cases = []
    entries = {'ct': ['instance', 'dimidx', 'volume'], 'sm': ['frame', 'tpm', 'dimidx', 'volume']}
    for i in range(n_obj):
        for src in ('ct', 'sm'):
            for entry in entries[src]:
                o = gen_obj(rng, src)
                reads = [gen_read(rng, o, entry) for _ in range(n_reads)]
                cases.append({'kind': entry, 'obj': o, 'reads': reads})
    # all 16 option combinations on one object per entry
    for src in ('ct', 'sm'):
        for entry in entries[src]:
            for ty in ('BINARY', 'FRACTIONAL', 'LABELMAP'):
                o = gen_obj(rng, src, ty=ty)
                req = gen_req(rng, o['segs'])
                reads = [gen_read(rng, o, entry, req=req, opts=list(op)) for op in ALL_OPTS]
                cases.append({'kind': entry, 'obj': o, 'reads': reads})
    # all non-empty ordered subsets (64 for 4 segments)
    n_sub = {'quick': 1, 'thorough': 2, 'search': 1}[tier]
    for _ in range(n_sub):
        for ty, segs in (('BINARY', [1, 2, 3, 4]), ('FRACTIONAL', [1, 2, 3]), ('LABELMAP', [1, 7, 300, 65535]),
                         ('LABELMAP', [1, 2, 3, 4]), ('LABELMAP', [2, 255, 256])):
            src = rng.choice(['ct', 'sm'])
            entry = rng.choice(entries[src])
            o = gen_obj(rng, src, ty=ty, segs=segs)
            subs = ordered_subsets(segs)
            for j in range(0, len(subs), 16):
                reads = []
                for sub in subs[j:j + 16]:
                    if tier == 'thorough' and max(segs) <= 1000:
                        ops = [list(op) for op in ALL_OPTS]
                    elif tier == 'thorough':
                        ops = [list(op) for op in rng.sample(ALL_OPTS, 4)]
                    else:
                        ops = [list(rng.choice(ALL_OPTS)) for _ in range(1 if max(segs) > 1000 else 2)]
                    reads += [gen_read(rng, o, entry, req=sub, opts=op) for op in ops]
                cases.append({'kind': 'subsets', 'obj': o, 'reads': reads})
    # malformed stream
    for i in range(n_obj):
        src = rng.choice(['ct', 'sm'])
        entry = rng.choice(entries[src])
        o = gen_obj(rng, src)
        if i % 3 == 0:
            o = gen_obj(rng, src, ty='LABELMAP', segs=rng.choice([[7, 2049], [1, 3000, 4097], [2, 2048, 65535]]))
        elif i % 3 == 1:
            o = gen_obj(rng, src, ty='FRACTIONAL')
            if o['maxfrac'] == 255:
                o['pix'] = [[[(200 if v else 0) for v in row] for row in pl] for pl in o['pix']]
        start = rng.randrange(50)
        reads = [gen_malformed(rng, o, entry, idx=start + j) for j in range(n_reads)]
        cases.append({'kind': 'malformed', 'obj': o, 'reads': reads})
    # shipped fixtures
    for name in FIXTURES:
        for _ in range({'quick': 1, 'thorough': 6, 'search': 2}[tier]):
            cases.append(gen_fixture_case(rng, name))
    # descriptor search
    for i in range({'quick': 30, 'thorough': 300, 'search': 100}[tier]):
        cases.append(gen_search(rng, 'search'))
        cases.append(gen_search(rng, 'tracking'))
    for i in range({'quick': 12, 'thorough': 150, 'search': 50}[tier]):
        cases.append(gen_describe(rng))
    for i in range({'quick': 10, 'thorough': 100, 'search': 30}[tier]):
        cases.append(gen_dupframe(rng))
    for i in range({'quick': 16, 'thorough': 200, 'search': 60}[tier]):
        cases.append(gen_ctor(rng, i))
    for i in range({'quick': 12, 'thorough': 160, 'search': 60}[tier]):
        cases.append(gen_foreign(rng, i))
    for i in range({'quick': 12, 'thorough': 160, 'search': 60}[tier]):
        cases.append(gen_history(rng, i))
    for i in range({'quick': 14, 'thorough': 180, 'search': 60}[tier]):
        cases.append(gen_pointers(rng, i))
    for name in FIXTURES:
        if name.startswith('seg_image_sm'):
            for _ in range({'quick': 1, 'thorough': 4, 'search': 2}[tier]):
                cases.append(gen_fixture_pointers(rng, name))
    # the model is evaluated in shards of consecutive cases: put the cheap kinds first so that the expensive
    # read cases are spread over the shards (stable sort, the draws above are unaffected)
    light = ('search', 'tracking', 'describe', 'ctor', 'dupframe')
    cases.sort(key=lambda c: c['kind'] not in light)
    return cases


def gen_dupframe(rng):
    """an object in which two stored frames claim the same (plane, segment): every entry point must refuse it"""
    src = rng.choice(['ct', 'sm'])
    while True:
        o = gen_obj(rng, src)
        o['omit'], o['open'] = False, rng.choice(['memory', 'memory', 'file'])
        o.pop('dup', None)
        fr = predicted_frames(o)
        if len(fr) >= 2:
            break
    a, b = rng.sample(range(len(fr)), 2)
    o['dup'] = {'from': [fr[a][0], fr[a][1]], 'to': [fr[b][0], fr[b][1]]}
    entries = ['instance', 'volume'] if src == 'ct' else ['frame', 'tpm', 'volume']
    reads = []
    for j in range(5):
        e = rng.choice(entries)
        reads.append(gen_read(rng, o, e) if j % 2 == 0 else gen_malformed(rng, o, e))
    return {'kind': 'dupframe', 'obj': o, 'reads': reads}


def gen_foreign(rng, i):
    """an object as another encoder would write it: the per-frame DimensionIndexValues are re-encoded (the index
    along the segment dimension is NOT the segment number, the plane index has gaps / the other direction) and the
    object is parsed again.  Segment NUMBERS must still decide what is returned, on every entry point."""
    src = rng.choice(['ct', 'sm'])
    ty = ['BINARY', 'FRACTIONAL', 'LABELMAP', 'BINARY'][i % 4]
    enc = {'plane': rng.choice(['rank', 'gap', 'rev'])}
    if ty == 'LABELMAP':
        o = gen_obj(rng, src, ty=ty)             # no segment dimension: only the plane index is re-encoded
        enc['seg'] = 'same'
    else:
        S = rng.randint(2, 4)
        blank = sorted(rng.sample(range(S), rng.randint(1, S - 1))) if i % 2 == 0 else []
        o = gen_obj(rng, src, ty=ty, segs=list(range(1, S + 1)), blank=blank)
        if blank:
            # described segments without any frame: index values ranked over the numbers that occur
            o['omit'] = True
            enc['seg'] = 'rank'
        else:
            enc['seg'] = rng.choice(['perm', 'shift', 'perm', 'same'])
        if enc['seg'] == 'perm':
            perm = list(range(1, S + 1))
            while perm == list(range(1, S + 1)):
                rng.shuffle(perm)
            enc['segperm'] = perm
    o['dimenc'] = enc
    o['open'] = rng.choice(OPEN_MODES)
    entries = ['dimidx', 'dimidx', 'instance', 'volume'] if src == 'ct' else ['dimidx', 'dimidx', 'frame', 'tpm', 'volume']
    reads = []
    for j in range(6):
        e = rng.choice(entries) if j else 'dimidx'
        r = gen_read(rng, o, e) if j != 5 else gen_malformed(rng, o, e)
        r.pop('default_req', None)
        reads.append(r)
    return {'kind': 'foreign', 'obj': o, 'reads': reads}


def gen_history(rng, i):
    """8-12 reads of mixed entry points on ONE object: the answer to a read must not depend on what was asked
    before, on whether the caller has looked at seg.pixel_array (decoded frames cached) or on what the caller did
    to the arrays returned earlier; afterwards the object must still hold the stored values."""
    src = rng.choice(['ct', 'sm'])
    ty = ['FRACTIONAL', 'BINARY', 'FRACTIONAL', 'LABELMAP'][i % 4]
    o = gen_obj(rng, src, ty=ty, true_frac=(False if i % 4 == 0 else None))
    if i % 4 == 0 and o['maxfrac'] == 1:
        o['maxfrac'] = rng.choice([255, 100, 2])
        o['pix'] = [[[(o['maxfrac'] if v else 0) for v in row] for row in pl] for pl in o['pix']]
    o['open'] = OPEN_MODES[(i // 4) % 4]
    o['warm'] = i % 3 != 2
    entries = ['instance', 'instance', 'dimidx', 'volume'] if src == 'ct' else ['frame', 'frame', 'tpm', 'dimidx', 'volume']
    reads = []
    main = list(rng.choice(SM_PTR_SETS[:7])) if src == 'sm' else ['ipp']
    for j in range(rng.randint(6, 8)):
        r = gen_read(rng, o, rng.choice(entries))
        if r['entry'] == 'dimidx' and rng.random() < 0.7:
            # the same selection of dimension index pointers, in another order each time
            r['ptrs'] = rng.sample(main, len(main))
            r['am'] = rng.random() < 0.3
        if rng.random() < 0.15:
            r['touch'] = True           # the caller views seg.pixel_array just before this read
        if rng.random() < 0.5:
            r['scribble'] = True        # the caller overwrites the returned array afterwards
        reads.append(r)
    for j in range(rng.randint(2, 4)):  # the same question again later: same answer
        reads.append(dict(rng.choice(reads)))
    return {'kind': 'history', 'obj': o, 'reads': reads, 'observe_state': True}


# ----------------------------------------------------------------------------
# DimensionIndexValues as another encoder writes them (o['dimenc'])
# ----------------------------------------------------------------------------
def plane_coords(o, p):
    """coordinates of plane p along the plane dimensions addressed by the reads: CT (plane,), tiled (column, row)"""
    if o['src'] == 'ct':
        return (p,)
    nc = -(-o['C'] // o['cols'])
    a, b = divmod(p - 1, nc)
    return (b, a)


def dim_prediction(o):
    """({plane: tuple of index values along the plane dimensions}, {segment number: index value}) of the stored
    frames, as re-encoded according to o['dimenc']"""
    enc = o['dimenc']
    frames = predicted_frames(o)
    planes = sorted({f[0] for f in frames})
    ndim = len(plane_coords(o, planes[0]))
    tabs = []
    for d in range(ndim):
        vals = sorted({plane_coords(o, p)[d] for p in planes})
        n = len(vals)
        t = {}
        for rk, v in enumerate(vals, 1):
            t[v] = {'rank': rk, 'gap': 2 * rk + 1, 'rev': n + 1 - rk}[enc['plane']]
        tabs.append(t)
    ptab = {p: tuple(tabs[d][plane_coords(o, p)[d]] for d in range(ndim)) for p in planes}
    occurring = sorted({f[1] for f in frames})
    stab = {}
    for rk, sn in enumerate(occurring, 1):
        if sn == 0:
            stab[sn] = 0                      # LABELMAP: no segment dimension
        elif enc['seg'] == 'rank':
            stab[sn] = rk
        elif enc['seg'] == 'shift':
            stab[sn] = sn + 1
        elif enc['seg'] == 'perm':
            stab[sn] = enc['segperm'][o['segs'].index(sn)]
        else:
            stab[sn] = sn
    return ptab, stab


def plane_tags(o):
    from pydicom.tag import Tag
    if o['src'] == 'ct':
        return [int(Tag('ImagePositionPatient'))]
    return [int(Tag('ColumnPositionInTotalImagePixelMatrix')), int(Tag('RowPositionInTotalImagePixelMatrix'))]


def reencode_dimensions(ds, o, uids):
    from pydicom.tag import Tag
    ptab, stab = dim_prediction(o)
    ptr = [int(it.DimensionIndexPointer) for it in ds.DimensionIndexSequence]
    seg_tag = int(Tag('ReferencedSegmentNumber'))
    for pf in ds.PerFrameFunctionalGroupsSequence:
        src_ = pf.DerivationImageSequence[0].SourceImageSequence[0]
        key = uids.index(src_.ReferencedSOPInstanceUID) + 1 if o['src'] == 'ct' else int(src_.ReferencedFrameNumber)
        vals = pf.FrameContentSequence[0].DimensionIndexValues
        vals = [int(vals)] if isinstance(vals, int) else [int(v) for v in vals]
        for t, v in zip(plane_tags(o), ptab[key]):
            vals[ptr.index(t)] = v
        if seg_tag in ptr:
            sn = int(pf.SegmentIdentificationSequence[0].ReferencedSegmentNumber)
            vals[ptr.index(seg_tag)] = stab[sn]
        pf.FrameContentSequence[0].DimensionIndexValues = vals


def dim_rows(o, planes, table, nptr):
    """dimension index value rows that address the given planes (table: plane -> index values of the stored
    frames); planes without stored frame get values that match no frame"""
    rows = []
    for p in planes:
        if p in table:
            rows.append(list(table[p]))
        elif o['src'] == 'sm' and 1 <= p <= o['P']:
            nc = -(-o['C'] // o['cols'])
            a, b = divmod(p - 1, nc)
            ci = [v[0] for k, v in table.items() if (k - 1) % nc == b]
            ri = [v[1] for k, v in table.items() if (k - 1) // nc == a]
            rows.append([ci[0] if ci else 90 + b, ri[0] if ri else 90 + a])
        else:
            rows.append([70 + p] * nptr)
    return rows


def dim_code(row):
    """one Z per row of plane index values (what the model's x_kix / EDimIdx keys hold)"""
    return row[0] if len(row) == 1 else row[0] * 1000 + row[1]


# ----------------------------------------------------------------------------
# explicit dimension_index_pointers (reads that carry r['ptrs'])
# ----------------------------------------------------------------------------
# A read by dimension index values may name ANY non-empty selection of the plane dimensions of the object, in ANY
# order (r['ptrs']: list of dimension names, None = dimension_index_pointers=None).  The rows of values handed to
# the library are derived from the requested planes and the pointer list, so the same question can be asked with
# the pointers in every order - and, on one object, in different orders one after the other.
DIM_KW = {'row': 'RowPositionInTotalImagePixelMatrix', 'col': 'ColumnPositionInTotalImagePixelMatrix',
          'x': 'XOffsetInSlideCoordinateSystem', 'y': 'YOffsetInSlideCoordinateSystem',
          'z': 'ZOffsetInSlideCoordinateSystem', 'ipp': 'ImagePositionPatient',
          'seg': 'ReferencedSegmentNumber',     # refused: segments are chosen with segment_numbers
          'bogus': 'InstanceNumber'}            # not a dimension of any object
# pointer selections for a tiled object: the first group identifies every tile, the second does not in general
SM_PTR_SETS = [['col', 'row'], ['col', 'row'], ['x', 'y'], ['row', 'y'], ['x', 'col'], ['col', 'row', 'z'],
               ['row', 'col', 'x'], ['y', 'x', 'z'], ['row', 'col', 'x', 'y', 'z'], ['col', 'col', 'row']]
SM_PTR_SETS_AMBIGUOUS = [['row'], ['col'], ['z'], ['row', 'x'], ['y', 'z'], ['y', 'col']]


def dim_tag(name):
    from pydicom.datadict import tag_for_keyword
    return int(tag_for_keyword(DIM_KW[name]))


def obj_dims(o):
    """names of the plane dimensions of a synthetic object in DimensionIndexSequence order (segment dimension
    excluded); verified against the object actually built"""
    return ['row', 'col', 'x', 'y', 'z'] if o['src'] == 'sm' else ['ipp']


def _sm_axis(o, p, name):
    """the tile coordinate a plane dimension of a tiled object depends on (sm_tiled: ImageOrientationSlide
    (0,-1,0,-1,0,0), so X falls with the tile row and Y falls with the tile column)"""
    b, a = plane_coords(o, p)
    return {'row': a, 'x': a, 'col': b, 'y': b, 'z': 0}[name]


def full_dim_prediction(o):
    """{plane: {dimension name: index value}} for every plane that has a stored frame: the values highdicom
    writes (ranks of the distinct positions that occur), or the re-encoded ones of a 'foreign' object (only the
    Column/Row position - resp. ImagePositionPatient - indices are re-encoded, X/Y/Z stay as written)"""
    frames = predicted_frames(o)
    planes = sorted({f[0] for f in frames})
    out = {p: {} for p in planes}
    if o['src'] == 'ct':
        rk = {p: i for i, p in enumerate(planes, 1)}
        n = len(planes)
        for p in planes:
            out[p]['ipp'] = (n + 1 - rk[p]) if o['step'] > 0 else rk[p]
    else:
        for name in obj_dims(o):
            vals = sorted({_sm_axis(o, p, name) for p in planes})
            n = len(vals)
            for p in planes:
                rk = vals.index(_sm_axis(o, p, name)) + 1
                out[p][name] = (n + 1 - rk) if name in ('x', 'y') else rk
    if o.get('dimenc'):
        ptab, _ = dim_prediction(o)
        names = ['ipp'] if o['src'] == 'ct' else ['col', 'row']       # the order of plane_tags
        for p in planes:
            for nm, v in zip(names, ptab[p]):
                out[p][nm] = v
    return out


def dim_value(o, full, p, name):
    """the index value along dimension `name` that addresses plane p; for a plane without stored frame: the
    value of a stored tile in the same tile row / column if there is one (the combination is then what is
    absent), otherwise a value that occurs nowhere"""
    if name in ('seg', 'bogus'):
        return 1
    if p in full:
        return full[p][name]
    if o['src'] == 'sm' and 1 <= p <= o['P']:
        ax = _sm_axis(o, p, name)
        for q in sorted(full):
            if _sm_axis(o, q, name) == ax:
                return full[q][name]
        return 90 + ax
    return 70 + p


def ptr_names(o, r):
    return obj_dims(o) if r['ptrs'] is None else list(r['ptrs'])


def ptr_rows(o, r, full=None):
    """the rows of dimension index values of a read with r['ptrs'] (r['rowfix']: one row too short / too long)"""
    full = full_dim_prediction(o) if full is None else full
    names = ptr_names(o, r)
    rows = [[dim_value(o, full, p, nm) for nm in names] for p in r['planes']]
    fix = r.get('rowfix')
    if fix and rows:
        i = fix[1] % len(rows)
        rows[i] = rows[i][:-1] if fix[0] == 'short' else rows[i] + [1]
    return rows


def ptr_positions(dims, names):
    """pointer -> position in the plane dimensions of the object (the model's encoding; -1 = segment dimension,
    99 = not a dimension of the object)"""
    return [(-1 if nm == 'seg' else dims.index(nm) if nm in dims else 99) for nm in names]


def frame_table(c):
    """(names of the plane dimensions, [(plane, segment or 0, stored values, {name: index value})]) of the stored
    frames of a case: predicted for synthetic objects, read with pydicom for the shipped files"""
    if c['kind'] == 'fixture':
        fa = fixture_abstract(c['fixture'])
        return fa['dims'], [(k, s, px, ix) for (k, s, px), ix in zip(fa['frames'], fa['ix'])]
    o = c['obj']
    full = full_dim_prediction(o)
    return obj_dims(o), [(k, s, px, full[k]) for k, s, px in predicted_frames(o)]


def case_rows(c, r):
    """rows of values of a pointer read: given explicitly (shipped files) or derived from the planes"""
    if 'rows' in r:
        return [list(x) for x in r['rows']]
    return ptr_rows(c['obj'], r)


def gen_ptrs(rng, o, ambiguous=0.12):
    """a pointer list for one read by dimension index values"""
    if o['src'] == 'ct':
        return rng.choice([['ipp'], ['ipp'], None, ['ipp', 'ipp']])
    if rng.random() < 0.08:
        return None
    ps = list(rng.choice(SM_PTR_SETS_AMBIGUOUS if rng.random() < ambiguous else SM_PTR_SETS))
    rng.shuffle(ps)
    return ps


def gen_pointers(rng, i):
    """8-11 reads by dimension index values on ONE sparse object with explicit dimension_index_pointers: the same
    selection of dimensions in different ORDERS (values permuted alike), other selections in between, mostly
    without assert_missing_frames_are_empty, asking for stored and for absent positions."""
    src = 'ct' if i % 6 == 5 else 'sm'
    ty = ['BINARY', 'LABELMAP', 'FRACTIONAL', 'BINARY'][i % 4]
    while True:
        o = gen_obj(rng, src, ty=ty)
        if o['P'] < (4 if src == 'sm' else 3):
            continue
        # sparse: some planes hold nothing and are not stored
        o['omit'] = True
        for p in range(o['P']):
            if rng.random() < 0.35:
                o['pix'][p] = [[0] * len(v) for v in o['pix'][p]]
        pres = present_planes(o)
        if 2 <= len(pres) < o['P']:
            break
    if i % 3 == 0:
        o['dimenc'] = {'plane': rng.choice(['rank', 'gap', 'rev']), 'seg': 'same'}
    o['open'] = OPEN_MODES[(i // 2) % 4]
    o['warm'] = rng.random() < 0.3
    main = list(rng.choice(SM_PTR_SETS[:7])) if src == 'sm' else ['ipp']
    reads = []
    for j in range(rng.randint(7, 9)):
        r = gen_read(rng, o, 'dimidx')
        r.pop('default_req', None)
        if rng.random() < 0.75:
            r['ptrs'] = rng.sample(main, len(main))
        else:
            r['ptrs'] = gen_ptrs(rng, o)
        r['am'] = rng.random() < 0.25
        mode = rng.choice(['present', 'present', 'hole', 'mixed'])
        holes = [p for p in range(1, o['P'] + 1) if p not in pres]
        if mode == 'present':
            r['planes'] = rng.sample(pres, rng.randint(1, min(3, len(pres))))
        elif mode == 'hole':
            r['planes'] = [rng.choice(holes)]
        else:
            r['planes'] = rng.sample(pres, rng.randint(1, min(2, len(pres)))) + [rng.choice(holes)]
            rng.shuffle(r['planes'])
        reads.append(r)
    for kind in rng.sample(['ptr_empty', 'ptr_seg', 'ptr_bogus', 'row_short', 'row_long'], 2):
        r = gen_read(rng, o, 'dimidx')
        r.pop('default_req', None)
        r['ptrs'] = rng.sample(main, len(main))
        bad_pointers(rng, r, kind)
        reads.insert(rng.randint(0, len(reads)), r)
    return {'kind': 'pointers', 'obj': o, 'reads': reads}


def bad_pointers(rng, r, kind):
    """violate one guard of the pointer / row arguments"""
    r['bad'] = kind
    ps = list(r.get('ptrs') or [])
    if kind == 'ptr_empty':
        r['ptrs'] = []
    elif kind in ('ptr_seg', 'ptr_bogus'):
        ps.insert(rng.randint(0, len(ps)), kind[4:])
        r['ptrs'] = ps
    else:
        if not r['planes']:
            r['planes'] = [1]
        r['rowfix'] = [kind[4:], rng.randrange(8)]


def gen_describe(rng):
    c = gen_search(rng, 'search')
    segs = c['segs']
    ns = list(segs) + [max(segs) + 1, -1, 70000]
    if c['ty'] != 'LABELMAP':
        ns.append(0)
    rng.shuffle(ns)
    return {'kind': 'describe', 'ty': c['ty'], 'segs': segs, 'descs': c['descs'], 'numbers': ns, 'file': c['file']}


def gen_ctor(rng, i):
    """inputs of Segmentation._check_and_cast_pixel_array (integer arrays, LABELMAP): a list of sub-cases"""
    subs = []
    for j in range(8):
        S = rng.choice([1, 1, 2, 3, 3, 4])
        segs = list(range(1, S + 1)) if rng.random() < 0.5 else sorted(rng.sample(SPARSE, S))
        if rng.random() < 0.2:
            rng.shuffle(segs)
        shape = rng.choice([(1, 2, 2), (2, 1, 3), (1, 1, 1), (3, 2, 1), (1, 3, 3)])
        n = shape[0] * shape[1] * shape[2]
        mode = rng.choice(['disjoint', 'disjoint', 'disjoint', 'overlap', 'empty', 'nonbinary', 'full', 'labelmap3',
                           'labelmap3', 'labelmap3_bad', 'channels'])
        in_dt = rng.choice(['uint8', 'uint16', 'bool']) if mode != 'nonbinary' else rng.choice(['uint8', 'uint16'])
        sub = {'segs': segs, 'shape': list(shape), 'mode': mode, 'in_dtype': in_dt}
        if mode.startswith('labelmap3'):
            vals = [rng.choice([0] + segs) for _ in range(n)]
            if mode == 'labelmap3_bad':
                cand = [v for v in (max(segs) + 1, 1, 2, 3, 6, 254, 299) if v not in segs and v <= 65535]
                vals[rng.randrange(n)] = rng.choice(cand)
            if max(vals) > 255:
                sub['in_dtype'] = 'uint16'
            elif in_dt == 'bool' and max(vals) > 1:
                sub['in_dtype'] = 'uint8'
            sub['px3'] = vals
        else:
            C = S if mode != 'channels' else S + rng.choice([1, -1] if S > 1 else [1])
            px = [[0] * C for _ in range(n)]
            for q in range(n):
                if mode == 'empty':
                    continue
                if mode == 'full' or rng.random() < 0.6:
                    px[q][rng.randrange(C)] = 1
            if mode == 'overlap' and C > 1:
                q = rng.randrange(n)
                for k in rng.sample(range(C), rng.randint(2, C)):
                    px[q][k] = 1
            if mode == 'nonbinary':
                px[rng.randrange(n)][rng.randrange(C)] = rng.choice([2, 3, 255])
            sub['px'] = px
        subs.append(sub)
    return {'kind': 'ctor', 'subs': subs}


# ----------------------------------------------------------------------------
# fixtures: abstract form read with pydicom only
# ----------------------------------------------------------------------------
@functools.lru_cache(maxsize=None)
def fixture_abstract(name):
    import numpy as np
    import pydicom
    ds = pydicom.dcmread(os.path.join(common.REPO, 'data', 'test_files', name))
    ty = ds.SegmentationType
    arr = ds.pixel_array
    if arr.ndim == 2:
        arr = arr[None]
    uids, frames = [], []
    by_frame = name.startswith('seg_image_sm')
    # plane dimensions of the object (DimensionIndexSequence order, segment dimension excluded) and the index
    # values of every frame along them
    kw2name = {v: k for k, v in DIM_KW.items()}
    from pydicom.datadict import keyword_for_tag
    ptr_kw = [keyword_for_tag(int(it.DimensionIndexPointer)) for it in ds.DimensionIndexSequence]
    dims = [kw2name.get(k, k) for k in ptr_kw if k != 'ReferencedSegmentNumber']
    ixs = []
    for i, pf in enumerate(ds.PerFrameFunctionalGroupsSequence):
        div = pf.FrameContentSequence[0].DimensionIndexValues
        div = [int(div)] if isinstance(div, int) else [int(v) for v in div]
        ixs.append({kw2name.get(k, k): v for k, v in zip(ptr_kw, div) if k != 'ReferencedSegmentNumber'})
        src = pf.DerivationImageSequence[0].SourceImageSequence[0]
        if by_frame:
            key = int(src.ReferencedFrameNumber)
        else:
            u = src.ReferencedSOPInstanceUID
            if u not in uids:
                uids.append(u)
            key = uids.index(u) + 1
        sn = 0 if ty == 'LABELMAP' else int(pf.SegmentIdentificationSequence[0].ReferencedSegmentNumber)
        frames.append((key, sn, [int(v) for v in np.asarray(arr[i]).ravel()]))
    bg = int(ds.PixelPaddingValue) if 'PixelPaddingValue' in ds else None
    segs = [int(d.SegmentNumber) for d in ds.SegmentSequence if bg is None or int(d.SegmentNumber) != bg]
    all_uids = []
    for s in ds.ReferencedSeriesSequence:
        for it in s.ReferencedInstanceSequence:
            all_uids.append(it.ReferencedSOPInstanceUID)
    for u in all_uids:
        if u not in uids:
            uids.append(u)
    return {'ty': ty, 'segs': segs, 'bits': int(ds.BitsStored), 'maxfrac': int(ds.get('MaximumFractionalValue', 1)),
            'npix': int(ds.Rows) * int(ds.Columns), 'rows': int(ds.Rows), 'cols': int(ds.Columns),
            'bg': bg or 0, 'frames': frames, 'uids': uids, 'by_frame': by_frame, 'dims': dims, 'ix': ixs,
            'src_uid': (ds.ReferencedSeriesSequence[0].ReferencedInstanceSequence[0].ReferencedSOPInstanceUID)}


def gen_fixture_case(rng, name):
    fa = fixture_abstract(name)
    keys_present = sorted({f[0] for f in fa['frames']})
    entry = 'frame' if fa['by_frame'] else 'instance'
    reads = []
    for _ in range(3):
        planes = rng.sample(keys_present, min(len(keys_present), rng.randint(1, 3)))
        segs = fa['segs']
        req = rng.sample(segs, rng.randint(1, min(4, len(segs))))
        combine, relabel, skip, rescale = (rng.random() < 0.5, rng.random() < 0.5, rng.random() < 0.4, rng.random() < 0.7)
        dt = rng.choice([None, 'uint8', 'uint16', 'int32', 'float32', 'bool'])
        reads.append({'entry': entry, 'planes': planes, 'am': rng.random() < 0.5, 'req': req, 'combine': combine,
                      'relabel': relabel, 'skip': skip, 'rescale': rescale, 'dtype': dt})
    return {'kind': 'fixture', 'fixture': name, 'reads': reads}


def gen_fixture_pointers(rng, name):
    """reads by dimension index values of a shipped sparse tiled segmentation (20 of 25 tile positions stored)
    with explicit pointers: (Column, Row) and (Row, Column) - and other selections - one after the other on ONE
    object, asking for stored positions, for absent ones and for the mirror images of both"""
    fa = fixture_abstract(name)
    stored = sorted({(ix['col'], ix['row']) for ix in fa['ix']})
    by_cr = {(ix['col'], ix['row']): ix for ix in fa['ix']}
    grid = [(a, b) for a in range(1, 6) for b in range(1, 6)]
    absent = [p for p in grid if p not in by_cr]
    lopsided = [p for p in grid if (p in by_cr) != ((p[1], p[0]) in by_cr)]
    main = list(rng.choice([['col', 'row'], ['col', 'row'], ['x', 'y'], ['row', 'y', 'z']]))
    reads = []
    for j in range(7):
        names = rng.sample(main, len(main)) if j < 5 else rng.choice([['row'], ['x', 'col'], None, ['col', 'row', 'x']])
        pool = rng.choice([stored, stored, absent, lopsided or stored, lopsided or absent])
        pos = rng.sample(pool, min(len(pool), rng.randint(1, 3)))
        if rng.random() < 0.3:
            pos = pos + [rng.choice(grid)]
        rows = []
        for (cv, rv) in pos:
            ix = by_cr.get((cv, rv))
            if ix is None:
                # an absent position: along every dimension the index value of the stored tiles of the same
                # column resp. row (every dimension of these files is a function of one of the two)
                ix = {}
                for nm in fa['dims']:
                    for axis, v in (('col', cv), ('row', rv)):
                        vals = {x[nm] for x in fa['ix'] if x[axis] == v}
                        if len(vals) == 1 and all(len({y[nm] for y in fa['ix'] if y[axis] == x[axis]}) == 1
                                                  for x in fa['ix']):
                            ix[nm] = vals.pop()
                            break
                    else:
                        ix[nm] = 90
                ix['col'], ix['row'] = cv, rv
            rows.append([ix[nm] for nm in (names if names is not None else fa['dims'])])
        segs = fa['segs']
        req = rng.sample(segs, rng.randint(1, min(3, len(segs))))
        reads.append({'entry': 'dimidx', 'ptrs': names, 'rows': rows, 'planes': [], 'am': rng.random() < 0.25,
                      'req': req, 'combine': rng.random() < 0.4, 'relabel': rng.random() < 0.5, 'skip': False,
                      'rescale': True, 'dtype': rng.choice([None, 'uint8', 'uint16'])})
    return {'kind': 'fixture', 'fixture': name, 'lazy': rng.random() < 0.5, 'reads': reads}


# ----------------------------------------------------------------------------
# implementation side
# ----------------------------------------------------------------------------
LABELS = ['alpha', 'beta', 'gamma', 'delta']
ALGS = ['MANUAL', 'AUTOMATIC', 'SEMIAUTOMATIC']
TUIDS = ['1.2.826.0.1.3680043.8.498.1', '1.2.826.0.1.3680043.8.498.2', '1.2.826.0.1.3680043.8.498.3',
         '1.2.826.0.1.3680043.8.498.4']
TIDS = ['trk-a', 'trk-b', 'trk-c', 'trk-d']


def _codes():
    from pydicom.sr.codedict import codes
    return [codes.SCT.Tissue, codes.SCT.Organ, codes.SCT.Bone, codes.SCT.Spine]


def build(o):
    """Real Segmentation for an object spec; returns (seg, sources)."""
    import numpy as np
    import highdicom as hd
    import synth
    P, S = o['P'], len(o['segs'])
    rows, cols = o['rows'], o['cols']
    if o['src'] == 'ct':
        sources = synth.ct_series(P, rows, cols, normal_step=(0.0, 0.0, o['step']))
    else:
        sources = [synth.sm_tiled(o['R'], o['C'], rows, cols, tiled_full=False, samples=1)]
    pix = np.array(o['pix'], dtype=np.int64).reshape(P, S, rows, cols).transpose(0, 2, 3, 1)
    if o['layout'] == 'labelmap':
        lm = np.zeros((P, rows, cols), np.int64)
        for k, sn in enumerate(o['segs']):
            lm[pix[..., k] > 0] = sn
        arr = lm.astype(np.uint8 if max(o['segs']) < 256 else np.uint16)
    elif o['ty'] == 'FRACTIONAL':
        arr = pix.astype(np.float64) / o['maxfrac']
    else:
        arr = (pix > 0).astype(np.uint8)
    kw = {'omit_empty_frames': o['omit']}
    if o['ty'] == 'FRACTIONAL':
        kw['max_fractional_value'] = o['maxfrac']
    seg = synth.make_seg(sources, arr, o['ty'], o['segs'], **kw)
    if o.get('dup'):
        import copy
        import io
        import pydicom
        b = io.BytesIO()
        seg.save_as(b)
        ds = pydicom.dcmread(io.BytesIO(b.getvalue()))
        uids = [s_.SOPInstanceUID for s_ in sources]
        where = {}
        for i, pf in enumerate(ds.PerFrameFunctionalGroupsSequence):
            src_ = pf.DerivationImageSequence[0].SourceImageSequence[0]
            key = uids.index(src_.ReferencedSOPInstanceUID) + 1 if o['src'] == 'ct' else int(src_.ReferencedFrameNumber)
            sn = 0 if o['ty'] == 'LABELMAP' else int(pf.SegmentIdentificationSequence[0].ReferencedSegmentNumber)
            where[(key, sn)] = i
        i, j = where[tuple(o['dup']['from'])], where[tuple(o['dup']['to'])]
        ds.PerFrameFunctionalGroupsSequence[j] = copy.deepcopy(ds.PerFrameFunctionalGroupsSequence[i])
        seg = hd.seg.Segmentation.from_dataset(ds, copy=False)
    if o.get('dimenc'):
        import io
        import pydicom
        b = io.BytesIO()
        seg.save_as(b)
        ds = pydicom.dcmread(io.BytesIO(b.getvalue()))
        reencode_dimensions(ds, o, [s_.SOPInstanceUID for s_ in sources])
        seg = hd.seg.Segmentation.from_dataset(ds, copy=False)
    mode = open_mode(o)
    raw = None
    if mode != 'memory':
        import io
        import pydicom
        b = io.BytesIO()
        seg.save_as(b)
        raw = b.getvalue()
        if mode == 'file':
            seg = hd.seg.segread(raw)
        elif mode == 'lazy':
            seg = hd.seg.segread(io.BytesIO(raw), lazy_frame_retrieval=True)
        else:
            seg = hd.seg.Segmentation.from_dataset(pydicom.dcmread(io.BytesIO(raw)))
    return seg, sources, raw


def stored_abstract(seg, o, sources):
    """Abstract form of the object actually built (or of the bytes it was read from), decoded with pydicom only."""
    import io
    import numpy as np
    import pydicom
    if isinstance(seg, bytes):
        ds = pydicom.dcmread(io.BytesIO(seg))
    else:
        b = io.BytesIO()
        seg.save_as(b)
        ds = pydicom.dcmread(io.BytesIO(b.getvalue()))
    arr = ds.pixel_array
    if arr.ndim == 2:
        arr = arr[None]
    uids = [s.SOPInstanceUID for s in sources]
    frames = []
    for i, pf in enumerate(ds.PerFrameFunctionalGroupsSequence):
        src = pf.DerivationImageSequence[0].SourceImageSequence[0]
        key = uids.index(src.ReferencedSOPInstanceUID) + 1 if o['src'] == 'ct' else int(src.ReferencedFrameNumber)
        sn = 0 if o['ty'] == 'LABELMAP' else int(pf.SegmentIdentificationSequence[0].ReferencedSegmentNumber)
        frames.append((key, sn, [int(v) for v in np.asarray(arr[i]).ravel()]))
    return sorted(frames), int(ds.BitsStored), int(ds.get('PixelPaddingValue', 0))


def stored_state(seg, o, sources):
    """[stored pixel values of every predicted frame as the object holds them NOW (seg.pixel_array: the cached
    decoded array if there is one, else decoded from PixelData), PixelData still decodes to the prediction]"""
    import numpy as np
    arr = np.asarray(seg.pixel_array)
    if int(seg.number_of_frames) == 1:
        arr = arr[None]
    uids = [s.SOPInstanceUID for s in sources]
    found = {}
    for i, pf in enumerate(seg.PerFrameFunctionalGroupsSequence):
        src = pf.DerivationImageSequence[0].SourceImageSequence[0]
        key = uids.index(src.ReferencedSOPInstanceUID) + 1 if o['src'] == 'ct' else int(src.ReferencedFrameNumber)
        sn = 0 if o['ty'] == 'LABELMAP' else int(pf.SegmentIdentificationSequence[0].ReferencedSegmentNumber)
        found[(key, sn)] = [int(v) for v in arr[i].ravel()]
    state = [found.get((p, sn), []) for (p, sn, px) in predicted_frames(o)]
    pd_ok = True
    if open_mode(o) != 'lazy':          # a lazily read object holds no PixelData (frames stay in the read-only file)
        pd_ok = stored_abstract(seg, o, sources)[0] == sorted(predicted_frames(o))
    return [state, pd_ok]


def _dim_translation(seg, o):
    """plane number -> tuple of dimension index values (from the stored frames),
    and the pointers used."""
    from pydicom.tag import Tag
    ptr_tags = [int(it.DimensionIndexPointer) for it in seg.DimensionIndexSequence]
    want = plane_tags(o)
    pos = [ptr_tags.index(t) for t in want]
    uids = None
    table = {}
    seg_tag = int(Tag('ReferencedSegmentNumber'))
    segix = {}
    for pf in seg.PerFrameFunctionalGroupsSequence:
        src = pf.DerivationImageSequence[0].SourceImageSequence[0]
        if o['src'] == 'ct':
            if uids is None:
                uids = o['_uids']
            key = uids.index(src.ReferencedSOPInstanceUID) + 1
        else:
            key = int(src.ReferencedFrameNumber)
        div = pf.FrameContentSequence[0].DimensionIndexValues
        div = [div] if isinstance(div, int) else list(div)
        table[key] = tuple(int(div[k]) for k in pos)
        if seg_tag in ptr_tags:
            sn = int(pf.SegmentIdentificationSequence[0].ReferencedSegmentNumber)
            segix.setdefault(sn, set()).add(int(div[ptr_tags.index(seg_tag)]))
    o['_segix'] = segix
    return want, table


def actual_dim_table(seg, o):
    """(names of the plane dimensions in DimensionIndexSequence order, {plane: {name: index value}}) as the
    object carries them"""
    from pydicom.datadict import keyword_for_tag
    kw2name = {v: k for k, v in DIM_KW.items()}
    ptr_kw = [keyword_for_tag(int(it.DimensionIndexPointer)) for it in seg.DimensionIndexSequence]
    dims = [kw2name.get(k, k) for k in ptr_kw if k != 'ReferencedSegmentNumber']
    table = {}
    for pf in seg.PerFrameFunctionalGroupsSequence:
        src = pf.DerivationImageSequence[0].SourceImageSequence[0]
        key = o['_uids'].index(src.ReferencedSOPInstanceUID) + 1 if o['src'] == 'ct' else int(src.ReferencedFrameNumber)
        div = pf.FrameContentSequence[0].DimensionIndexValues
        div = [int(div)] if isinstance(div, int) else [int(v) for v in div]
        ix = {kw2name.get(k, k): v for k, v in zip(ptr_kw, div) if k != 'ReferencedSegmentNumber'}
        if table.setdefault(key, ix) != ix:
            return dims, {'inconsistent plane': key}
    return dims, table


def do_read(seg, o, sources, r, dimtab):
    import numpy as np
    import highdicom as hd
    kw = dict(segment_numbers=None if r.get('default_req') else list(r['req']),
              combine_segments=r['combine'], relabel=r['relabel'],
              rescale_fractional=r['rescale'], skip_overlap_checks=r['skip'],
              dtype=None if r['dtype'] is None else np.dtype(r['dtype']))
    e = r['entry']
    if e == 'instance':
        uids = [s.SOPInstanceUID for s in sources]
        req_uids = [uids[p - 1] if 1 <= p <= len(uids) else '1.2.3.4.%d' % (1000 + p) for p in r['planes']]
        return seg.get_pixels_by_source_instance(req_uids, assert_missing_frames_are_empty=r['am'], **kw)
    if e == 'frame':
        return seg.get_pixels_by_source_frame(sources[0].SOPInstanceUID, list(r['planes']),
                                              assert_missing_frames_are_empty=r['am'], **kw)
    if e == 'dimidx' and 'ptrs' in r:
        rows = ptr_rows(o, r)
        return seg.get_pixels_by_dimension_index_values(
            rows, dimension_index_pointers=None if r['ptrs'] is None else [dim_tag(nm) for nm in r['ptrs']],
            assert_missing_frames_are_empty=r['am'], **kw)
    if e == 'dimidx':
        want, table = dimtab
        rows = dim_rows(o, r['planes'], table, len(want))
        ptrs = want if (o['src'] == 'sm' or len(r['planes']) % 2 == 0) else None
        return seg.get_pixels_by_dimension_index_values(rows, dimension_index_pointers=ptrs,
                                                        assert_missing_frames_are_empty=r['am'], **kw)
    if e == 'volume':
        return seg.get_volume(allow_missing_positions=r['am'], **kw).array
    if e == 'tpm':
        return seg.get_total_pixel_matrix(**kw)
    raise ValueError(e)


def cut_tiles(a, o):
    """(R, C[, n]) total pixel matrix -> (tiles, th, tw[, n]), zero padded."""
    import numpy as np
    R, C, th, tw = o['R'], o['C'], o['rows'], o['cols']
    nr, nc = -(-R // th), -(-C // tw)
    if a.shape[:2] != (R, C):
        return None
    out = np.zeros((nr * nc, th, tw) + a.shape[2:], a.dtype)
    for i in range(nr):
        for j in range(nc):
            t = a[i * th:(i + 1) * th, j * tw:(j + 1) * tw]
            out[i * nc + j, :t.shape[0], :t.shape[1]] = t
    return out


def canon(out, r, npix, maxfrac, ty, tiler=None):
    import numpy as np
    if isinstance(out, Err):
        return out
    a = np.asarray(out)
    dt = a.dtype.name
    if tiler is not None:
        if r['entry'] == 'volume':
            if a.shape[0] != 1:
                return ['bad-shape', list(a.shape)]
            a = a[0]
        a = tiler(a)
        if a is None:
            return ['bad-shape', list(np.asarray(out).shape)]
    if r['combine']:
        if a.ndim != 3:
            return ['bad-shape', list(a.shape)]
        a = a.reshape(a.shape[0], -1)
    else:
        if a.ndim != 4:
            return ['bad-shape', list(a.shape)]
        a = np.moveaxis(a, 3, 1).reshape(a.shape[0], a.shape[3], -1)
    rescaled = r['rescale'] and ty == 'FRACTIONAL' and not r['combine']

    def cv(x):
        if a.dtype.kind in 'iub':
            return int(x)
        x = float(x)
        if rescaled:
            n = round(x * maxfrac)
            eps = float(np.finfo(a.dtype).eps)
            if abs(x - n / maxfrac) <= 2 * eps * max(1.0, abs(x)):
                return F(n, maxfrac)
            return x
        return int(x) if x == int(x) else x
    flat = [cv(x) for x in a.ravel().tolist()]
    it = iter(flat)

    def rebuild(shape):
        if len(shape) == 1:
            return [next(it) for _ in range(shape[0])]
        return [rebuild(shape[1:]) for _ in range(shape[0])]
    return [dt, rebuild(a.shape)]


def run_impl(c):
    import logging
    import warnings
    logging.disable(logging.CRITICAL)
    warnings.filterwarnings('ignore')
    k = c['kind']
    if k in ('search', 'tracking'):
        return run_search(c)
    if k == 'describe':
        return run_describe(c)
    if k == 'ctor':
        return run_ctor(c)
    if k == 'fixture':
        import highdicom as hd
        fa = fixture_abstract(c['fixture'])
        seg = hd.seg.segread(os.path.join(common.REPO, 'data', 'test_files', c['fixture']),
                             lazy_frame_retrieval=bool(c.get('lazy')))
        outs = []
        for r in c['reads']:
            def f(r=r):
                import numpy as np
                kw = dict(segment_numbers=list(r['req']), combine_segments=r['combine'], relabel=r['relabel'],
                          rescale_fractional=r['rescale'], skip_overlap_checks=r['skip'],
                          dtype=None if r['dtype'] is None else np.dtype(r['dtype']),
                          assert_missing_frames_are_empty=r['am'])
                if r['entry'] == 'dimidx':
                    return seg.get_pixels_by_dimension_index_values(
                        case_rows(c, r),
                        dimension_index_pointers=None if r['ptrs'] is None else [dim_tag(nm) for nm in r['ptrs']],
                        **kw)
                kw['ignore_spatial_locations'] = True
                if fa['by_frame']:
                    return seg.get_pixels_by_source_frame(fa['src_uid'], list(r['planes']), **kw)
                return seg.get_pixels_by_source_instance([fa['uids'][p - 1] for p in r['planes']], **kw)
            outs.append(canon(catch(f), r, fa['npix'], fa['maxfrac'], fa['ty']))
        return outs
    import numpy as np
    o = c['obj']
    seg, sources, raw = build(o)
    got = stored_abstract(raw if raw is not None else seg, o, sources)
    want = (sorted(predicted_frames(o)), 8 if o['ty'] == 'FRACTIONAL' else 1 if o['ty'] == 'BINARY'
            else (8 if max(o['segs']) < 256 else 16), 0)
    if got != want:
        return ['stored-object-differs-from-prediction', [list(x) for x in got[0]][:6], [list(x) for x in want[0]][:6],
                got[1:], want[1:]]
    o2 = dict(o, _uids=[s.SOPInstanceUID for s in sources])
    dimtab = None
    if o.get('dimenc') or any(r['entry'] == 'dimidx' for r in c['reads']):
        dimtab = _dim_translation(seg, o2)
    if o.get('dimenc'):
        # the object really carries the re-encoded index values
        ptab, stab = dim_prediction(o)
        got_s = {sn: sorted(v) for sn, v in o2['_segix'].items()}
        want_s = {sn: [v] for sn, v in stab.items() if sn != 0}
        if dimtab[1] != ptab or got_s != want_s:
            return ['stored-object-differs-from-prediction', sorted(dimtab[1].items()), sorted(ptab.items()),
                    sorted(got_s.items()), sorted(want_s.items())]
    if any('ptrs' in r for r in c['reads']):
        # the index values along ALL plane dimensions that the model and the oracle are given are the ones the
        # object carries
        got_full = actual_dim_table(seg, o2)
        want_full = (obj_dims(o), full_dim_prediction(o))
        if got_full != want_full:
            return ['stored-object-differs-from-prediction', got_full[0], sorted(got_full[1].items()),
                    want_full[0], sorted(want_full[1].items())]
    if o.get('warm'):
        seg.pixel_array             # the caller looks at the decoded pixel array: it is cached from now on
    outs = []
    tiler = (lambda a: cut_tiles(a, o)) if o['src'] == 'sm' else None
    for r in c['reads']:
        if r.get('touch'):
            seg.pixel_array
        res = catch(do_read, seg, o, sources, r, dimtab)
        use_tiler = tiler if r['entry'] in ('tpm', 'volume') else None
        outs.append(canon(res, r, o['rows'] * o['cols'], o['maxfrac'], o['ty'], use_tiler))
        if r.get('scribble') and isinstance(res, np.ndarray) and res.flags.writeable:
            res[...] = 3            # the result belongs to the caller: whatever he does to it concerns nobody else
    if c.get('observe_state'):
        outs.append(stored_state(seg, o, sources))
    return outs


def run_search(c):
    import numpy as np
    import highdicom as hd
    import synth
    cds = _codes()
    S = len(c['segs'])
    src = synth.ct_series(1, 2, 2, normal_step=(0.0, 0.0, 5.0))
    descs = []
    for d in c['descs']:
        descs.append(synth.seg_description(
            d['num'], label=LABELS[d['label']], category=cds[d['cat']], ptype=cds[d['type']],
            algorithm_type=ALGS[d['alg']],
            tracking_uid=None if d['tuid'] is None else TUIDS[d['tuid']],
            tracking_id=None if d['tid'] is None else TIDS[d['tid']]))
    if c['ty'] == 'BINARY':
        arr = np.zeros((1, 2, 2, S), np.uint8)
        arr[0, 0, 0, :] = 1
    else:
        arr = np.zeros((1, 2, 2), np.uint8 if max(c['segs']) < 256 else np.uint16)
        arr[0, 0, 0] = c['segs'][0]
    seg = synth.make_seg(src, arr, c['ty'], c['segs'], descriptions=descs)
    if c['file']:
        seg = synth.write_read(seg, hd.seg.segread)
    outs = []
    for q in c['queries']:
        kw = {}
        if q['cat'] is not None:
            kw['segmented_property_category'] = cds[q['cat']]
        if q['type'] is not None:
            kw['segmented_property_type'] = cds[q['type']]
        if q['alg'] is not None:
            kw['algorithm_type'] = ALGS[q['alg']] if q['alg'] < 3 else 'BOGUS'
        if c['kind'] == 'search':
            if q['label'] is not None:
                kw['segment_label'] = LABELS[q['label']]
            if q['tuid'] is not None:
                kw['tracking_uid'] = TUIDS[q['tuid']]
            if q['tid'] is not None:
                kw['tracking_id'] = TIDS[q['tid']]

            def f(kw=kw):
                return [[int(x) for x in seg.get_segment_numbers(**kw)], [int(x) for x in seg.segment_numbers],
                        int(seg.number_of_segments)]
        else:
            def f(kw=kw):
                prs = seg.get_tracking_ids(**kw)
                return sorted([TIDS.index(str(i)), TUIDS.index(str(u))] for i, u in prs)
        outs.append(catch(f))
    return outs


def _build_described(c):
    import numpy as np
    import highdicom as hd
    import synth
    cds = _codes()
    S = len(c['segs'])
    src = synth.ct_series(1, 2, 2, normal_step=(0.0, 0.0, 5.0))
    descs = []
    for d in c['descs']:
        descs.append(synth.seg_description(
            d['num'], label=LABELS[d['label']], category=cds[d['cat']], ptype=cds[d['type']],
            algorithm_type=ALGS[d['alg']],
            tracking_uid=None if d['tuid'] is None else TUIDS[d['tuid']],
            tracking_id=None if d['tid'] is None else TIDS[d['tid']]))
    if c['ty'] == 'BINARY':
        arr = np.zeros((1, 2, 2, S), np.uint8)
        arr[0, 0, 0, :] = 1
    else:
        arr = np.zeros((1, 2, 2), np.uint8 if max(c['segs']) < 256 else np.uint16)
        arr[0, 0, 0] = c['segs'][0]
    seg = synth.make_seg(src, arr, c['ty'], c['segs'], descriptions=descs)
    if c['file']:
        seg = synth.write_read(seg, hd.seg.segread)
    return seg, cds


def run_describe(c):
    seg, cds = _build_described(c)

    def code_index(x):
        for i, cd in enumerate(cds):
            if x == cd:
                return i
        return -1

    def one(n):
        d = seg.get_segment_description(n)
        tu, ti = d.tracking_uid, d.tracking_id
        return [int(d.segment_number), LABELS.index(str(d.segment_label)), code_index(d.segmented_property_category),
                code_index(d.segmented_property_type), ALGS.index(d.algorithm_type.value if hasattr(d.algorithm_type, 'value')
                                                                  else str(d.algorithm_type)),
                None if tu is None else TUIDS.index(str(tu)), None if ti is None else TIDS.index(str(ti))]
    return [[catch(one, n) for n in c['numbers']],
            catch(lambda: [code_index(x) for x in seg.segmented_property_categories]),
            catch(lambda: [code_index(x) for x in seg.segmented_property_types])]


def run_ctor(c):
    import numpy as np
    import highdicom as hd
    from highdicom.seg import Segmentation, SegmentationTypeValues
    outs = []
    for sub in c['subs']:
        segs = sub['segs']
        dt = np.dtype(np.uint8 if max(segs) < 256 else np.uint16)      # what __init__ passes for LABELMAP
        if 'px3' in sub:
            arr = np.array(sub['px3'], dtype=sub['in_dtype']).reshape(sub['shape'])
        else:
            arr = np.array(sub['px'], dtype=sub['in_dtype']).reshape(tuple(sub['shape']) + (len(sub['px'][0]),))

        def f(arr=arr, segs=segs, dt=dt):
            out, ov = Segmentation._check_and_cast_pixel_array(arr, np.array(segs), SegmentationTypeValues.LABELMAP, dt)
            if out.shape != arr.shape[:3]:
                return ['bad-shape', list(out.shape)]
            return [int(v) for v in out.ravel().tolist()]
        outs.append(catch(f))
    return outs


# ----------------------------------------------------------------------------
# model side
# ----------------------------------------------------------------------------
def _bool(b):
    return 'true' if b else 'false'


def _opt(x):
    return 'None' if x is None else f'(Some {zlit(x)})'


ENTRY_COQ = {'instance': 'EInstance', 'frame': 'EFrame', 'dimidx': 'EDimIdx', 'volume': 'EVolume', 'tpm': 'ETpm'}


def stored_term(ty, segs, bits, maxfrac, npix, bg, frames, known):
    fr = '; '.join(f'mkFrame {zlit(k)} {zlit(s)} {zl(px)}' for k, s, px in frames)
    return f'(mkStored {ty} {zl(segs)} {bits} {maxfrac} {npix} {bg} [{fr}] {zl(known)})'


def read_term(r, tiled_volume=False, ix=False):
    e = ENTRY_COQ[r['entry']]
    if tiled_volume and r['entry'] == 'volume':
        e = 'ETpm'           # get_volume of a tiled image delegates to get_total_pixel_matrix
    dt = 'None' if r['dtype'] is None else f"(Some {DT_COQ[r['dtype']]})"
    head = 'run_read_default' if r.get('default_req') else 'run_read'
    rq = '' if r.get('default_req') else zl(r['req']) + ' '
    if ix:
        assert not r.get('default_req')
        head, rq = 'run_read_ix', zl(r['req']) + ' '
        return (f"{head} {e} {_bool(r['am'])} st xs {zl(r['planes'])} {rq}"
                f"(mkOpts {_bool(r['combine'])} {_bool(r['relabel'])} {_bool(r['skip'])} {_bool(r['rescale'])} {dt})")
    return (f"{head} {e} {_bool(r['am'])} st {zl(r['planes'])} {rq}"
            f"(mkOpts {_bool(r['combine'])} {_bool(r['relabel'])} {_bool(r['skip'])} {_bool(r['rescale'])} {dt})")


def zll_(ll):
    return '[' + '; '.join(zl(x) for x in ll) + ']'


def dfs_term(c):
    """the FrameLUT rows with their index values along all plane dimensions (model: list dframe)"""
    dims, tab = frame_table(c)
    return '[' + '; '.join(f'mkDf (mkFrame {zlit(k)} {zlit(s_)} {zl(px)}) {zl([ix[nm] for nm in dims])}'
                           for k, s_, px, ix in tab) + ']'


def dim_read_term(c, r):
    """model term of a read by dimension index values with explicit pointers (uses `st` and `dfs`)"""
    dims, _ = frame_table(c)
    ptrs = 'None' if r['ptrs'] is None else f"(Some {zl(ptr_positions(dims, r['ptrs']))})"
    dt = 'None' if r['dtype'] is None else f"(Some {DT_COQ[r['dtype']]})"
    return (f"run_read_dim {_bool(r['am'])} st {len(dims)} dfs {ptrs} {zll_(case_rows(c, r))} {zl(r['req'])} "
            f"(mkOpts {_bool(r['combine'])} {_bool(r['relabel'])} {_bool(r['skip'])} {_bool(r['rescale'])} {dt})")


def with_dfs(c, body):
    if any('ptrs' in r for r in c['reads']):
        return 'let dfs := ' + dfs_term(c) + ' in ' + body
    return body


def coq_term(c):
    k = c['kind']
    if k == 'ctor':
        terms = []
        for sub in c['subs']:
            d = '(DU 8)' if max(sub['segs']) < 256 else '(DU 16)'
            if 'px3' in sub:
                terms.append(f"run_ctor3 {zl(sub['segs'])} {d} {zl(sub['px3'])}")
            else:
                terms.append(f"run_ctor4 {zl(sub['segs'])} {d} {zll_(sub['px'])}")
        return '(VL [' + '; '.join(terms) + '])'
    if k == 'describe':
        bg = 'None'
        ds = []
        if c['ty'] == 'LABELMAP':
            bg = '(Some 0)'
            ds.append('mkDesc 0 99 99 99 0 None None')
        for d in c['descs']:
            ds.append(f"mkDesc {d['num']} {d['label']} {d['cat']} {d['type']} {d['alg']} {_opt(d['tuid'])} {_opt(d['tid'])}")
        return '(run_describe [' + '; '.join(ds) + f"] {bg} {zl(c['numbers'])})"
    if k in ('search', 'tracking'):
        bg = 'None'
        ds = []
        if c['ty'] == 'LABELMAP':
            bg = '(Some 0)'
            ds.append('mkDesc 0 99 99 99 0 None None')
        for d in c['descs']:
            ds.append(f"mkDesc {d['num']} {d['label']} {d['cat']} {d['type']} {d['alg']} {_opt(d['tuid'])} {_opt(d['tid'])}")
        terms = []
        for q in c['queries']:
            if q['alg'] is not None and q['alg'] >= 3:
                terms.append('VErr "ValueError"')
                continue
            qq = (f"(mkQuery {_opt(q['label'])} {_opt(q['cat'])} {_opt(q['type'])} {_opt(q['alg'])} "
                  f"{_opt(q['tuid'])} {_opt(q['tid'])})")
            terms.append(f'run_search ds {bg} {qq}' if k == 'search' else f'run_tracking ds {qq}')
        return '(let ds := [' + '; '.join(ds) + '] in VL [' + '; '.join(terms) + '])'
    if k == 'fixture':
        fa = fixture_abstract(c['fixture'])
        known = list(range(1, len(fa['uids']) + 1))
        st = stored_term(fa['ty'], fa['segs'], fa['bits'], fa['maxfrac'], fa['npix'], fa['bg'], fa['frames'], known)
        return ('(let st := ' + st + ' in ' + with_dfs(c, 'VL [' + '; '.join(
            (dim_read_term(c, r) if 'ptrs' in r else read_term(r)) for r in c['reads']) + ']') + ')')
    o = c['obj']
    bits = 8 if o['ty'] == 'FRACTIONAL' else 1 if o['ty'] == 'BINARY' else (8 if max(o['segs']) < 256 else 16)
    known = list(range(1, o['P'] + 1)) if o['src'] == 'ct' else []
    frames = predicted_frames(o)
    tiled = o['src'] == 'sm'
    if o.get('dimenc'):
        # FrameLUT rows with their index columns; reads by dimension index values are keyed by index values
        ptab, stab = dim_prediction(o)
        st = stored_term(o['ty'], o['segs'], bits, o['maxfrac'], o['rows'] * o['cols'], 0, [], known)
        xs = '; '.join(f'mkIx (mkFrame {zlit(k)} {zlit(s)} {zl(px)}) {zlit(dim_code(ptab[k]))} {zlit(stab[s])}'
                       for k, s, px in frames)
        terms = []
        for r in c['reads']:
            rr = r
            if 'ptrs' in r:
                terms.append(dim_read_term(c, r))
                continue
            if r['entry'] == 'dimidx':
                rr = dict(r, planes=[dim_code(row) for row in dim_rows(o, r['planes'], ptab, len(plane_tags(o)))])
            terms.append(read_term(rr, tiled_volume=tiled, ix=True))
        return ('(let st := ' + st + ' in let xs := [' + xs + '] in ' +
                with_dfs(c, 'VL [' + '; '.join(terms) + ']') + ')')
    st = stored_term(o['ty'], o['segs'], bits, o['maxfrac'], o['rows'] * o['cols'], 0, frames, known)
    terms = [(dim_read_term(c, r) if 'ptrs' in r else read_term(r, tiled_volume=tiled)) for r in c['reads']]
    if c.get('observe_state'):
        terms.append('VL [run_stored_state st; VB true]')
    return '(let st := ' + st + ' in ' + with_dfs(c, 'VL [' + '; '.join(terms) + ']') + ')'


# ----------------------------------------------------------------------------
# independent oracle (numpy-free arithmetic on the ORIGINAL masks)
# ----------------------------------------------------------------------------
def _plane_values(o, frames_by_key, key, seg):
    """stored values of (plane, segment); zeros when nothing is stored"""
    return frames_by_key.get((key, seg))


def check_read(r, ty, segs, maxfrac, npix, mask, known_keys, max_ref, present, label=''):
    """Property check of one read.  mask(key, seg) -> list of stored values (zeros if absent).
    Returns (message | None)."""
    out = r['_out']
    req = r['req']
    combine, relabel, skip, rescale = r['combine'], r['relabel'], r['skip'], r['rescale']
    e = r['entry']
    keys = r['planes']
    reasons = []      # legitimate reasons for a refusal
    must = []         # reasons that make a refusal mandatory
    if not req:
        must.append('ValueError')
    if any(s not in segs for s in req):
        must.append('ValueError')
    if e in ('instance', 'frame', 'dimidx') and not keys:
        must.append('ValueError')
    if e == 'frame' and any(kk <= 0 for kk in keys):
        must.append('ValueError')
    if not r['am']:
        if e == 'instance' and any(kk not in known_keys for kk in keys):
            must.append('KeyError')
        if e == 'frame' and any(kk > max_ref for kk in keys):
            must.append('ValueError')
        if e == 'dimidx' and any(kk not in present for kk in keys):
            must.append('ValueError')
        if e == 'volume' and r.get('_strict_volume') and any(kk not in present for kk in keys):
            must.append('RuntimeError')
    must += r.get('_extra_must', [])
    dt = r['dtype']
    if dt == 'complex64':
        must.append('ValueError')
    ok_req = bool(req) and all(s in segs for s in req)
    rescaled = rescale and ty == 'FRACTIONAL' and not combine
    if ok_req:
        if combine and ty == 'FRACTIONAL' and not rescale:
            must.append('ValueError')
        if dt in DT_MAX and declared_max(ty, maxfrac, req, combine, relabel, rescale) > DT_MAX[dt]:
            must.append('ValueError')     # the dtype cannot hold every possible output value exactly
        if rescaled and dt is not None and not dt.startswith('float'):
            must.append('ValueError')
    if must and not isinstance(out, Err):
        return f'{label}read accepted although it must be refused ({must[0]})'
    if must:
        if out.kind not in must:
            return f'{label}refused with {out.kind}, expected one of {sorted(set(must))}'
        return None
    # ---- reference result from the masks
    cols = {(kk, s): mask(kk, s) for kk in set(keys) for s in set(req)}
    binm = {ks: [1 if v > 0 else 0 for v in px] for ks, px in cols.items()}
    labels = {s: (i + 1 if relabel else s) for i, s in enumerate(req)}
    if combine:
        nonbinary = ty == 'FRACTIONAL' and any(v not in (0, maxfrac) for px in cols.values() for v in px)
        overlap = any(sum(binm[(kk, s)][p] for s in req) > 1 for kk in keys for p in range(npix))
        exp = [[max([labels[s] for s in req if binm[(kk, s)][p]] or [0]) for p in range(npix)] for kk in keys]
        if nonbinary:
            reasons.append('ValueError')
        if overlap and not skip:
            if not isinstance(out, Err):
                return f'{label}overlapping segments {req} were combined without skip_overlap_checks'
            if out.kind not in ('RuntimeError',) + tuple(reasons):
                return f'{label}overlap refused with {out.kind}'
            return None
        if nonbinary:
            if not isinstance(out, Err) or out.kind != 'ValueError':
                return f'{label}non-binary FRACTIONAL frames were combined: {out}'
            return None
    else:
        exp = [[[(F(v, maxfrac) if rescaled else v) for v in cols[(kk, s)]] for s in req] for kk in keys]
    if isinstance(out, Err):
        return f'{label}spurious refusal {out.kind} (req {req}, planes {keys}, combine {combine}, dtype {dt})'
    if out[0] == 'bad-shape':
        return f'{label}result has shape {out[1]}'
    if dt is not None and out[0] != dt:
        return f'{label}result dtype {out[0]} instead of requested {dt}'
    if out[1] != exp:
        return (f'{label}wrong pixels (req {req}, planes {keys}, combine {combine}, relabel {relabel}, '
                f'dtype {dt}): got {str(out[1])[:300]} expected {str(exp)[:300]}')
    return None


def resolve_pointer_read(c, r, ty, npix, mask):
    """What a read by dimension index values with explicit pointers addresses, worked out from the index values
    the stored frames carry (frame_table: predicted and verified for synthetic objects, read with pydicom for the
    shipped files).  Returns (keys: one tuple of values per requested row, refusals that are mandatory, set of
    value tuples that address a stored frame, mask(key, segment))."""
    dims, tab = frame_table(c)
    names = list(dims) if r['ptrs'] is None else list(r['ptrs'])
    must = []
    if r['ptrs'] is not None:
        if not names:
            must.append('ValueError')
        if 'seg' in names:
            must.append('ValueError')            # segments are selected with segment_numbers
        if any(nm != 'seg' and nm not in dims for nm in names):
            must.append('KeyError')              # not a dimension of this object
    rows = case_rows(c, r)
    if any(len(row) != len(names) for row in rows):
        must.append('ValueError')
    if must:
        return [tuple(row) for row in rows], must, set(), mask
    planes_of = {}
    slots = {}
    for k, s_, px, ix in tab:
        pr = tuple(ix[nm] for nm in names)
        planes_of.setdefault(pr, set()).add(k)
        slot = pr if ty == 'LABELMAP' else (pr, s_)
        slots[slot] = slots.get(slot, 0) + 1
    if any(n > 1 for n in slots.values()):
        must.append('RuntimeError')              # the chosen dimensions do not identify the frames uniquely

    def mask_rows(key, s_):
        vals = [0] * npix
        for k in sorted(planes_of.get(key, ())):
            vals = [max(a, b) for a, b in zip(vals, mask(k, s_))]
        return vals
    return [tuple(row) for row in rows], must, set(planes_of), mask_rows


def oracle_describe(c, out):
    by = {d['num']: d for d in c['descs']}
    for n, res in zip(c['numbers'], out[0]):
        if n in by:
            d = by[n]
            want = [n, d['label'], d['cat'], d['type'], d['alg'], d['tuid'], d['tid']]
            if isinstance(res, Err) or list(res) != want:
                return f'get_segment_description({n}) = {res}, described as {want}'
        elif not (isinstance(res, Err) and res.kind == 'IndexError'):
            return f'get_segment_description({n}) of an undescribed number gave {res}'
    for name, key, res in (('categories', 'cat', out[1]), ('types', 'type', out[2])):
        want = []
        for d in c['descs']:
            if d[key] not in want:
                want.append(d[key])
        if isinstance(res, Err) or list(res) != want:
            return f'segmented_property_{name} = {res}, expected {want}'
    return None


def oracle_ctor(c, out):
    for sub, res in zip(c['subs'], out):
        segs = sub['segs']
        if 'px3' in sub:
            bad = any(v != 0 and v not in segs for v in sub['px3'])
            want = list(sub['px3'])
        else:
            px = sub['px']
            bad = len(px[0]) != len(segs) or any(v > 1 for p in px for v in p) or any(sum(p) > 1 for p in px)
            want = None if bad else [next((segs[k] for k, v in enumerate(p) if v), 0) for p in px]
        if bad:
            if not (isinstance(res, Err) and res.kind == 'ValueError'):
                return f'construction input {sub} must be refused with ValueError, got {str(res)[:200]}'
        elif isinstance(res, Err) or list(res) != want:
            return f'label map built from {sub} is {str(res)[:200]}, expected {want}'
    return None


def oracle(c, out):
    k = c['kind']
    if k in ('search', 'tracking'):
        return oracle_search(c, out)
    if k == 'describe':
        return oracle_describe(c, out)
    if k == 'ctor':
        return oracle_ctor(c, out)
    if isinstance(out, list) and out and out[0] == 'stored-object-differs-from-prediction':
        return 'stored object differs from the prediction made from the input masks: ' + str(out[1:])[:400]
    if k == 'fixture':
        fa = fixture_abstract(c['fixture'])
        ty, segs, maxfrac, npix = fa['ty'], fa['segs'], fa['maxfrac'], fa['npix']
        fr = fa['frames']
        known = set(range(1, len(fa['uids']) + 1))
    else:
        o = c['obj']
        ty, segs, maxfrac, npix = o['ty'], o['segs'], o['maxfrac'], o['rows'] * o['cols']
        fr = None
        known = set(range(1, o['P'] + 1))
    if fr is not None:
        present = {f[0] for f in fr}
        max_ref = max(present)

        def mask(key, s):
            if ty == 'LABELMAP':
                for f in fr:
                    if f[0] == key:
                        return [1 if v == s else 0 for v in f[2]]
                return [0] * npix
            for f in fr:
                if f[0] == key and f[1] == s:
                    return f[2]
            return [0] * npix
    else:
        present = set(present_planes(o))
        max_ref = max(present)

        def mask(key, s):
            if 1 <= key <= o['P'] and s in segs:
                return o['pix'][key - 1][segs.index(s)]
            return [0] * npix
    if k == 'dupframe':
        for i, (r, res) in enumerate(zip(c['reads'], out)):
            if not isinstance(res, Err):
                return (f'read {i} ({r["entry"]}) of an object in which two frames claim the same (plane, segment) '
                        f'{c["obj"]["dup"]} was answered instead of refused')
        return None
    state_msg = None
    if c.get('observe_state'):
        if len(out) != len(c['reads']) + 1:
            return 'no stored-state observation'
        state, pd_ok = out[-1]
        for (p, sn, px), got in zip(predicted_frames(o), state):
            if list(got) != list(px) and not state_msg:
                state_msg = (f'after the reads the object holds {got} for the frame of plane {p}, segment {sn}; it '
                             f'was stored as {px} (reading changed the object)')
        if not pd_ok and not state_msg:
            state_msg = 'after the reads the PixelData of the object no longer decodes to the stored values'
    hist = ''
    if k == 'history':
        hist = f" [object {open_mode(c['obj'])}, pixel_array viewed first: {bool(c['obj'].get('warm'))}]"
    for i, (r, res) in enumerate(zip(c['reads'], out)):
        if hist:
            before = [('combined' if q['combine'] else 'stacked') + (' +overwritten' if q.get('scribble') else '')
                      for q in c['reads'][:i]]
            hist_i = hist + f' after {before}'
        rr = dict(r, _out=res, _strict_volume=(k != 'fixture' and c['obj']['src'] == 'ct'))
        if 'ptrs' in r:
            keys_r, must_r, present_r, mask_r = resolve_pointer_read(c, r, ty, npix, mask)
            rr.update(planes=keys_r, _extra_must=must_r)
            m = check_read(rr, ty, segs, maxfrac, npix, mask_r, known, max_ref, present_r,
                           label=f'read {i} (dimidx, dimension_index_pointers {r["ptrs"]}, values '
                                 f'{case_rows(c, r)}, assert_missing_frames_are_empty={r["am"]}): ')
            if m:
                m += (' [pointers of the earlier reads by dimension index values on this object: '
                      f'{[q["ptrs"] for q in c["reads"][:i] if "ptrs" in q]}]')
        else:
            m = check_read(rr, ty, segs, maxfrac, npix, mask, known, max_ref, present,
                           label=f'read {i} ({r["entry"]}): ')
        if m:
            if k == 'foreign':
                m += f" [DimensionIndexValues re-encoded: {c['obj']['dimenc']}]"
            return m + (hist_i if hist else '')
    return state_msg


def oracle_search(c, out):
    descs = c['descs']
    for q, res in zip(c['queries'], out):
        if q['alg'] is not None and q['alg'] >= 3:
            if not (isinstance(res, Err) and res.kind == 'ValueError'):
                return f'unknown algorithm type accepted: {res}'
            continue
        if isinstance(res, Err):
            return f'search raised {res.kind} for {q}'
        if c['kind'] == 'search':
            want = [d['num'] for d in descs
                    if all(q[n] is None or d[n] == q[n] for n in ('label', 'cat', 'type', 'alg', 'tuid', 'tid'))]
            if res[0] != want:
                return f'get_segment_numbers({q}) = {res[0]}, matching non-background segments are {want}'
            if res[1] != [d['num'] for d in descs]:
                return f'segment_numbers = {res[1]}'
            if res[2] != len(descs):
                return f'number_of_segments = {res[2]} for {len(descs)} non-background segments'
        else:
            want = sorted({(d['tid'], d['tuid']) for d in descs
                           if d['tid'] is not None and d['tuid'] is not None and
                           all(q[n] is None or d[n] == q[n] for n in ('cat', 'type', 'alg'))})
            if [tuple(x) for x in res] != want:
                return f'get_tracking_ids({q}) = {res}, expected {want}'
    return None


def nontrivial(c, out):
    if c['kind'] in ('search', 'tracking'):
        return any(isinstance(r, Err) or (r and r[0]) for r in out)
    if c['kind'] == 'describe':
        return bool(out and out[0])
    if c['kind'] == 'ctor':
        return any(isinstance(r, Err) or any(r) for r in out)

    def nz(x):
        if isinstance(x, list):
            return any(nz(y) for y in x)
        return x != 0
    return any(isinstance(r, Err) or nz(r[1]) for r in out[:len(c['reads'])])


def shrink(c):
    if 'reads' in c and len(c['reads']) > 1:
        for i in range(len(c['reads'])):
            yield dict(c, reads=[c['reads'][i]])
    if 'reads' in c and len(c['reads']) > 2:
        for i in reversed(range(len(c['reads']))):
            yield dict(c, reads=c['reads'][:i] + c['reads'][i + 1:])
    if 'subs' in c and len(c['subs']) > 1:
        for i in range(len(c['subs'])):
            yield dict(c, subs=[c['subs'][i]])
    if 'numbers' in c and len(c['numbers']) > 1:
        for i in range(len(c['numbers'])):
            yield dict(c, numbers=[c['numbers'][i]])
    if 'queries' in c and len(c['queries']) > 1:
        for i in range(len(c['queries'])):
            yield dict(c, queries=[c['queries'][i]])
    if 'reads' in c and len(c['reads']) == 1:
        r = c['reads'][0]
        if len(r['planes']) > 1 and r['entry'] in ('instance', 'frame', 'dimidx'):
            for i in range(len(r['planes'])):
                yield dict(c, reads=[dict(r, planes=r['planes'][:i] + r['planes'][i + 1:])])
        if len(r['req']) > 1 and not r.get('default_req'):
            for i in range(len(r['req'])):
                yield dict(c, reads=[dict(r, req=r['req'][:i] + r['req'][i + 1:])])
    if 'reads' in c and 2 <= len(c['reads']) <= 3:
        # a failure that needs a history: make the individual reads smaller
        for j, r in enumerate(c['reads']):
            for key in ('planes', 'rows'):
                if len(r.get(key, [])) > 1 and r['entry'] in ('instance', 'frame', 'dimidx'):
                    for i in range(len(r[key])):
                        rs = list(c['reads'])
                        rs[j] = dict(r, **{key: r[key][:i] + r[key][i + 1:]})
                        yield dict(c, reads=rs)


def extra_obligations(work):
    # T-int: the integer helpers this model mirrors, re-translated from the current source
    import translate_int
    return translate_int.obligations(work, translate_int.FOR['C02'])


if __name__ == '__main__':
    sys.exit(common.main(sys.modules[__name__]))
