"""T-conv (DESIGN 2.2 / 5-C20): fail-closed translator from the converter
classmethods of highdicom (from_dataset / from_sequence / extract_from_dataset
and the private in-place helpers _from_dataset_*) to terms of the effect
language of coq/theories/C20_Model.v.

    python translate_c20.py [--repo /repo] [--out FILE.v] [--list]

Everything outside the grammar below raises Untranslatable (=> broken
obligation).  Trusted knowledge of the translator (listed in the claims):

  READERS       functions that only read their arguments (may raise)
  constructors  `Cls(...)`, `cls(...)`: allocate; store references to their
                arguments but do not modify them
  PURE_METHODS  methods of tracked objects that only read
  INPLACE_METHODS  methods that rewrite their receiver's graph in place
  TRUSTED_FRESH paths that denote an object allocated by a constructor
  a syntactic must-alias: after `x.attr = <fresh>` the expression `x.attr`
  denotes that fresh object until the next heap-changing statement that is
  not a store into that very object.
"""
import ast
import copy as _copy
import glob
import os
import sys

CONV_NAMES = ('from_dataset', 'from_sequence', 'extract_from_dataset')
READERS_PURE = {'check_required_attributes', '_check_little_endian', '_assert_value_type',
                'isinstance', 'hasattr', 'len', 'str', 'int', 'repr', 'bool', 'type'}
READERS_DERIVED = {'get_coded_name', '_parse_palette_color_lut_attributes',
                   'list', 'tuple', 'zip', 'enumerate', 'sorted', 'reversed'}
FOLDS = {'all', 'any', 'sum'}
PURE_METHODS = {'find', 'get', 'keys', 'values', 'items', 'index'}
PURE_RECEIVER_METHODS = {'title', 'join', 'format', 'lower', 'upper', '_check_dataset'}
INPLACE_METHODS = {'_build_luts'}
GROW_METHODS = {'append', 'extend'}
INPLACE_NAME = '@inplace'
# (converter, source text of the expression) -> why it denotes a converter-allocated object
TRUSTED_FRESH = {
    ('Measurement.from_sequence', 'measurement[0]'):
        'the NumContentItem built inside Measurement.__init__ (cls(...) two lines above)',
}


# ---- constructor bodies (__init__): additional trusted knowledge -------------
# builtins / helpers that only read their arguments (result: new, or part of an argument)
CTOR_READERS = {'float', 'max', 'min', 'abs', 'round', 'range', 'set', 'dict', 'frozenset', 'print', 'iter', 'next',
                'callable', 'issubclass', 'id', 'hash', 'ord', 'chr', 'divmod', 'pow', 'map', 'filter', 'bytes',
                'bytearray', 'is_attribute_in_iod', 'tag_for_keyword', 'keyword_for_tag', 'Decimal', 'DA', 'TM', 'DT',
                'DSfloat', 'IS', 'UID', 'PersonName', 'does_iod_have_pixel_data', 'is_tiled_image'}
# read-only methods of str / Enum / datetime / numpy values
CTOR_PURE_METHODS = {'astype', 'flatten', 'tolist', 'reshape', 'copy', 'ravel', 'max', 'min', 'any', 'all', 'tobytes',
                     'item', 'squeeze', 'sum', 'strip', 'upper', 'lower', 'startswith', 'endswith', 'split', 'replace',
                     'isoformat', 'strftime', 'date', 'time', 'transpose', 'round', 'encode', 'decode', 'is_integer',
                     'count', 'isdigit', 'total_seconds', 'title', 'join', 'format', 'mean', 'argmax', 'nonzero',
                     'rstrip', 'lstrip', 'zfill', 'newbyteorder', 'most_common', 'isalnum', 'isupper', 'dot', 'view', 'elements', 'to_json_dict'}
# modules whose functions read their arguments (except the writers below and any call with out=)
CTOR_MODULES = {'np', 'numpy', 'datetime', 'warnings', 'logging', 'logger', 're', 'math', 'itertools', 'os', 'struct'}
# classmethods that build a value from their argument (or return the argument itself)
CTOR_CLASS_READERS = {'from_code'}
# functions that write into the objects they are given (every tracked argument counts as written)
CTOR_ARG_WRITERS = {'write_file_meta_info'}
CTOR_MODULE_WRITERS = {'put', 'place', 'copyto', 'putmask', 'fill_diagonal', 'shuffle', 'put_along_axis', 'setflags',
                       'resize', 'sort', 'partition', 'byteswap'}


# constructors whose body is inside the fragment AND accepted by ok_ctor on the reference tree: each is an
# obligation of every run (it must stay translatable and accepted); the other __init__ bodies are not covered
EXPECTED_CTORS = [
    'AlgorithmIdentification', 'AlgorithmIdentificationSequence', 'BlendingDisplay', 'BlendingDisplayInput',
    'CIELabColor', 'CodeContentItem', 'CodedConcept', 'CodingSchemeIdentificationItem',
    'CodingSchemeResourceItem', 'CompositeContentItem', 'Comprehensive3DSR', 'ContainerContentItem',
    'ContentCreatorIdentificationCodeSequence', 'ContentItem', 'CoordinatesForMeasurement',
    'CoordinatesForMeasurement3D', 'DateContentItem', 'DateTimeContentItem',
    'DeviceObserverIdentifyingAttributes', 'FindingSite', 'GraphicGroup', 'GraphicLayer', 'GraphicObject',
    'Image', 'ImageContentItem', 'ImageFileReader', 'ImageLibraryEntry', 'ImageRegion', 'ImageRegion3D',
    'IssuerOfIdentifier', 'KeyObjectSelection', 'LUT', 'LanguageOfContentItemAndDescendants',
    'LongitudinalTemporalOffsetFromEvent', 'Measurement', 'MeasurementProperties',
    'MeasurementStatisticalProperties', 'ModalityLUT', 'NormalRangeProperties', 'ObservationContext',
    'ObserverContext', 'PaletteColorLUT', 'PaletteColorLUTTransformation',
    'PersonObserverIdentifyingAttributes', 'PixelMeasuresSequence', 'PlaneOrientationSequence',
    'PlanePositionSequence', 'PnameContentItem', 'PresentationLUT', 'PresentationLUTTransformation',
    'QualitativeEvaluation', 'RealWorldValueMap', 'RealWorldValueMapping', 'ReferencedSegment',
    'ReferencedSegmentationFrame', 'ScoordContentItem', 'SegmentDescription', 'SoftcopyVOILUTTransformation',
    'SourceImageForMeasurement', 'SourceImageForMeasurementGroup', 'SourceImageForRegion',
    'SourceImageForSegmentation', 'SourceSeriesForSegmentation', 'SpecimenCollection', 'SpecimenDescription',
    'SpecimenPreparationStep', 'SpecimenProcessing', 'SpecimenSampling', 'SpecimenStaining', 'SubjectContext',
    'SubjectContextDevice', 'SubjectContextFetus', 'SubjectContextSpecimen', 'TcoordContentItem', 'Template',
    'TextContentItem', 'TextObject', 'TimeContentItem', 'TimePointContext', 'TrackingIdentifier',
    'UIDRefContentItem', 'VOILUT', 'VolumeGeometry', 'VolumeSurface', 'VolumeToVolumeTransformer',
    '_MeasurementsAndQualitativeEvaluations', '_ReferencedSOPInstance', '_SQLTableDefinition',
]


class Untranslatable(Exception):
    pass


def is_conv_name(n):
    return n in CONV_NAMES or n.startswith('_from_dataset') or n.startswith('_from_sequence')


# --------------------------------------------------------------------------
class Index:
    """All classes of the package: bases and converter methods."""

    def __init__(self, repo):
        self.root = os.path.join(repo, 'src', 'highdicom')
        self.classes = {}      # name -> dict(bases, methods{name: FunctionDef}, file)
        self.dup = set()
        self.item_classes = None
        for p in sorted(glob.glob(self.root + '/**/*.py', recursive=True)):
            tree = ast.parse(open(p).read())
            rel = os.path.relpath(p, self.root)
            for node in ast.walk(tree):
                if isinstance(node, ast.ClassDef):
                    meths = {f.name: f for f in node.body if isinstance(f, ast.FunctionDef)}
                    bases = [b.id if isinstance(b, ast.Name) else b.attr if isinstance(b, ast.Attribute) else None
                             for b in node.bases]
                    if node.name in self.classes:
                        self.dup.add(node.name)
                    self.classes[node.name] = dict(bases=bases, methods=meths, file=rel, node=node)
                if isinstance(node, ast.FunctionDef) and node.name == '_get_content_item_class':
                    # literal dict ValueTypeValues.X: XContentItem
                    for d in ast.walk(node):
                        if isinstance(d, ast.Dict):
                            vals = [v.id for v in d.values if isinstance(v, ast.Name)]
                            if len(vals) == len(d.values) and vals:
                                self.item_classes = vals

    def converters(self):
        out = []
        for cname, c in sorted(self.classes.items(), key=lambda kv: (kv[1]['file'], kv[1]['node'].lineno)):
            for m, f in c['methods'].items():
                if is_conv_name(m):
                    out.append((cname, m, f, c['file']))
        return out

    def resolve(self, cls, meth, start_at_bases=False):
        """Owner class of cls.meth following the bases depth-first."""
        seen = set()

        def walk(c, skip_self):
            if c in seen or c not in self.classes:
                return None
            seen.add(c)
            if not skip_self and meth in self.classes[c]['methods']:
                return c
            for b in self.classes[c]['bases']:
                r = walk(b, False)
                if r:
                    return r
            return None
        return walk(cls, start_at_bases)


def signature(f):
    args = [a.arg for a in f.args.args]
    defaults = dict(zip(args[len(args) - len(f.args.defaults):], f.args.defaults))
    return args, defaults


# --------------------------------------------------------------------------
class Tr:
    """Translation of one converter body."""

    def __init__(self, index, cls, meth, f):
        self.ix, self.cls, self.meth, self.f = index, cls, meth, f
        self.qual = f'{cls}.{meth}'
        args, _ = signature(f)
        if not any(isinstance(d, ast.Name) and d.id == 'classmethod' for d in f.decorator_list):
            raise Untranslatable('not a classmethod')
        if len(args) < 2 or args[0] != 'cls':
            raise Untranslatable('unexpected signature')
        self.has_copy = 'copy' in args
        self.argname = args[1]
        self.params = set(args[2:]) | {'cls'}
        self.vars = {self.argname: 0}
        self.names = {0: self.argname}
        self.n = 1
        self.classvars = {}
        self.kind = {}           # var -> 'new' | 'call:<callee>' | other   (last definition)
        self.pathalias = {}      # (root python name, attr) -> var
        self.in_test = 0
        self.trusted_used = []
        self.callees = set()

    # ---- variables ---------------------------------------------------------
    def var(self, name):
        if name not in self.vars:
            self.vars[name] = self.n
            self.names[self.n] = name
            self.n += 1
        return self.vars[name]

    def tmp(self):
        v = self.n
        self.names[v] = f't{v}'
        self.n += 1
        return v

    def emit(self, out, s):
        k = s[0]
        if self.in_test and k in ('CallConv', 'SetAttr', 'SetClass', 'Deepcopy'):
            raise Untranslatable(f'side effect {k} inside a condition')
        if k in ('SetClass', 'CallConv', 'Deepcopy') or (k == 'SetAttr' and s[1] not in self.pathalias.values()):
            if not (k == 'CallConv' and False):
                self.pathalias = {}
        if k in ('Alias', 'PathInto', 'New', 'Deepcopy', 'CallConv'):
            # rebinding a variable invalidates aliases rooted at its name
            nm = self.names.get(s[1])
            self.pathalias = {kk: v for kk, v in self.pathalias.items() if kk[0] != nm and v != s[1]}
        out.append(s)

    def as_var(self, out, r):
        if r[0] == 'var':
            return r[1]
        t = self.tmp()
        self.emit(out, ('New', t, []))
        return t

    def vs(self, rs):
        return [r[1] for r in rs if r[0] == 'var']

    ctor = False

    def derived(self, out, vs):
        """Result of a read-only call over tracked objects: a new object that may
        hold references to them, or (list(x), x.get(k), numpy functions returning views
        or their very argument) some object reachable from one of them."""
        t = self.tmp()
        alts = [[('New', t, list(vs))]] + [[('PathInto', t, v)] for v in vs]
        node = alts[-1]
        for a in reversed(alts[:-1]):
            node = [('Choice', a, node)]
        out.extend(node)
        self.kind[t] = 'new' if len(alts) == 1 else 'derived'
        return ('var', t)

    # ---- expressions -------------------------------------------------------
    def ev(self, out, e):
        """-> ('pure',) | ('var', id) | ('classes', [names])"""
        if isinstance(e, ast.Constant):
            return ('pure',)
        if isinstance(e, ast.JoinedStr):
            for v in e.values:
                if isinstance(v, ast.FormattedValue):
                    self.ev(out, v.value)
            return ('pure',)
        if isinstance(e, ast.Name):
            if e.id in self.classvars:
                return ('classes', self.classvars[e.id])
            if e.id in self.vars:
                return ('var', self.vars[e.id])
            if e.id in self.ix.classes and e.id not in self.params:
                return ('classes', [e.id])
            return ('pure',)
        if isinstance(e, (ast.Attribute, ast.Subscript)):
            if isinstance(e, ast.Subscript):
                s = self.ev(out, e.slice)
                if s[0] == 'var' and self.kind.get(s[1]) not in ('new', 'path'):
                    pass
            key = (self.qual, ast.unparse(e))
            base = self.ev(out, e.value)
            if base[0] != 'var':
                return ('pure',)
            if key in TRUSTED_FRESH:
                # only valid right after the constructor call that builds the root
                if self.kind.get(base[1]) != 'new':
                    raise Untranslatable(f'trusted path {key[1]} but its root is not a constructor result')
                t = self.tmp()
                self.emit(out, ('New', t, []))
                self.kind[t] = 'new'
                self.trusted_used.append(key)
                return ('var', t)
            if isinstance(e, ast.Attribute) and isinstance(e.value, ast.Name) and \
                    (e.value.id, e.attr) in self.pathalias:
                return ('var', self.pathalias[(e.value.id, e.attr)])
            t = self.tmp()
            self.emit(out, ('PathInto', t, base[1]))
            self.kind[t] = 'path'
            return ('var', t)
        if isinstance(e, (ast.Compare, ast.BoolOp, ast.UnaryOp)):
            kids = [e.left] + e.comparators if isinstance(e, ast.Compare) else \
                e.values if isinstance(e, ast.BoolOp) else [e.operand]
            self.in_test += 1
            try:
                for k in kids:
                    self.ev(out, k)
            finally:
                self.in_test -= 1
            return ('pure',)
        if isinstance(e, ast.BinOp):
            rs = [self.ev(out, e.left), self.ev(out, e.right)]
            if self.vs(rs):
                t = self.tmp()
                self.emit(out, ('New', t, self.vs(rs)))
                self.kind[t] = 'new'
                return ('var', t)
            return ('pure',)
        if isinstance(e, (ast.List, ast.Tuple, ast.Set)):
            rs = [self.ev(out, x) for x in e.elts]
            if isinstance(e, ast.Tuple) and not self.vs(rs):
                return ('pure',)
            t = self.tmp()
            self.emit(out, ('New', t, self.vs(rs)))
            self.kind[t] = 'new'
            return ('var', t)
        if isinstance(e, ast.Dict):
            rs = [self.ev(out, x) for x in list(e.keys) + list(e.values) if x is not None]
            t = self.tmp()
            self.emit(out, ('New', t, self.vs(rs)))
            self.kind[t] = 'new'
            return ('var', t)
        if isinstance(e, (ast.ListComp, ast.GeneratorExp)) or (self.ctor and isinstance(e, ast.SetComp)):
            acc = self.tmp()
            self.emit(out, ('New', acc, []))
            self.kind[acc] = 'new'
            self.comprehension(out, e.generators, e.elt, acc)
            return ('var', acc)
        if isinstance(e, ast.Call):
            return self.call(out, e)
        if isinstance(e, ast.Slice):
            for x in (e.lower, e.upper, e.step):
                if x is not None:
                    self.ev(out, x)
            return ('pure',)
        if isinstance(e, ast.IfExp) and self.ctor:
            self.in_test += 1
            try:
                self.ev(out, e.test)
            finally:
                self.in_test -= 1
            a, b = [], []
            ra, rb = self.ev(a, e.body), self.ev(b, e.orelse)
            if ra[0] == 'classes' or rb[0] == 'classes':
                raise Untranslatable('class-valued conditional expression')
            if ra[0] != 'var' and rb[0] != 'var':
                out.append(('Choice', a, b))
                return ('pure',)
            t = self.tmp()
            a.append(('Alias', t, ra[1]) if ra[0] == 'var' else ('New', t, []))
            b.append(('Alias', t, rb[1]) if rb[0] == 'var' else ('New', t, []))
            self.pathalias = {}
            out.append(('Choice', a, b))
            self.kind[t] = 'derived'
            return ('var', t)
        raise Untranslatable(f'expression {type(e).__name__}: {ast.unparse(e)[:60]}')

    def comprehension(self, out, gens, elt, acc):
        if len(gens) != 1 or gens[0].is_async:
            raise Untranslatable('nested comprehension')
        g = gens[0]
        body = []
        self.bind_iter(out, body, g.target, g.iter)
        for c in g.ifs:
            self.in_test += 1
            try:
                self.ev(body, c)
            finally:
                self.in_test -= 1
        r = self.ev(body, elt)
        if acc is not None:
            self.emit(body, ('SetAttr', acc, self.vs([r])))
        self.emit(out, ('Star', body))

    def bind_iter(self, out, body, target, it):
        """for target in it: bind the loop variable(s) at the head of body."""
        srcs = None
        if isinstance(it, ast.Call) and isinstance(it.func, ast.Name) and it.func.id in ('enumerate', 'zip'):
            rs = [self.ev(out, a) for a in it.args]
            if it.func.id == 'enumerate':
                srcs = [('pure',), rs[0]]
            else:
                srcs = rs
            if not isinstance(target, ast.Tuple) or len(target.elts) != len(srcs):
                raise Untranslatable('loop target does not match enumerate/zip')
            pairs = list(zip(target.elts, srcs))
        else:
            r = self.ev(out, it)
            if isinstance(target, ast.Tuple):
                pairs = [(t, r) for t in target.elts]
            else:
                pairs = [(target, r)]
        for t, r in pairs:
            if not isinstance(t, ast.Name):
                raise Untranslatable('loop target is not a name')
            v = self.var(t.id)
            self.classvars.pop(t.id, None)
            if r[0] == 'var':
                self.emit(body, ('PathInto', v, r[1]))
                self.kind[v] = 'path'
            else:
                self.emit(body, ('New', v, []))
                self.kind[v] = 'pure'

    def conv_call(self, out, e, owners, meth):
        if not e.args:
            raise Untranslatable('converter call without positional argument')
        a0 = self.as_var(out, self.ev(out, e.args[0]))
        for a in e.args[1:]:
            if self.ev(out, a)[0] == 'var':
                raise Untranslatable('object passed as extra converter argument')
        flag_kw = None
        for k in e.keywords:
            if k.arg == 'copy':
                flag_kw = k.value
            elif k.arg is None or self.ev(out, k.value)[0] == 'var':
                raise Untranslatable('object passed as converter keyword')
        t = self.tmp()
        alts = []
        for owner in owners:
            f = self.ix.classes[owner]['methods'][meth]
            args, defaults = signature(f)
            name = f'{owner}.{meth}'
            if 'copy' in args:
                v = flag_kw if flag_kw is not None else defaults.get('copy')
                if v is None:
                    raise Untranslatable(f'{name}: copy has no default and is not passed')
                if isinstance(v, ast.Name) and v.id == 'copy' and flag_kw is not None:
                    if not self.has_copy:
                        raise Untranslatable('copy=copy in a converter without copy parameter')
                    fl = 'FParam'
                elif isinstance(v, ast.Constant) and v.value is True:
                    fl = 'FTrue'
                elif isinstance(v, ast.Constant) and v.value is False:
                    fl = 'FFalse'
                else:
                    raise Untranslatable(f'copy={ast.unparse(v)}')
            else:
                if flag_kw is not None:
                    raise Untranslatable(f'{name} takes no copy argument')
                fl = 'FTrue'
            self.callees.add(name)
            alts.append(('CallConv', t, name, a0, fl))
        s = alts[-1]
        for a in reversed(alts[:-1]):
            s = ('Choice', [a], [s])
        self.emit(out, alts[0])     # bookkeeping (aliases) once
        out.pop()
        out.append(s)
        self.kind[t] = 'call:' + ','.join(sorted(a[2] for a in alts))
        return ('var', t)

    def call(self, out, e):
        fn = e.func
        allargs = list(e.args) + [k.value for k in e.keywords]
        if isinstance(fn, ast.Name):
            n = fn.id
            if n == 'deepcopy':
                if len(e.args) != 1 or e.keywords:
                    raise Untranslatable('deepcopy arity')
                y = self.as_var(out, self.ev(out, e.args[0]))
                t = self.tmp()
                self.emit(out, ('Deepcopy', t, y))
                self.kind[t] = 'copy'
                return ('var', t)
            if n == 'cast':
                return self.ev(out, e.args[1])
            if n == 'getattr':
                b = self.ev(out, e.args[0])
                for a in e.args[1:]:
                    self.ev(out, a)
                if b[0] != 'var':
                    return ('pure',)
                t = self.tmp()
                self.emit(out, ('PathInto', t, b[1]))
                self.kind[t] = 'path'
                return ('var', t)
            if n == 'setattr':
                b = self.ev(out, e.args[0])
                self.ev(out, e.args[1])
                r = self.ev(out, e.args[2])
                if b[0] != 'var':
                    raise Untranslatable('setattr on untracked object')
                self.emit(out, ('SetAttr', b[1], self.vs([r])))
                return ('pure',)
            if n == '_get_content_item_class':
                if not self.ix.item_classes:
                    raise Untranslatable('_get_content_item_class table not found')
                for a in allargs:
                    self.ev(out, a)
                self.emit(out, ('Check',))
                return ('classes', list(self.ix.item_classes))
            if n in FOLDS:
                if len(e.args) == 1 and isinstance(e.args[0], (ast.GeneratorExp, ast.ListComp)):
                    self.in_test += 1
                    try:
                        self.comprehension(out, e.args[0].generators, e.args[0].elt, None)
                    finally:
                        self.in_test -= 1
                else:
                    for a in allargs:
                        self.ev(out, a)
                return ('pure',)
            if n in READERS_PURE or n in READERS_DERIVED:
                rs = [self.ev(out, a) for a in allargs]
                self.emit(out, ('Check',))
                if n in READERS_DERIVED and self.vs(rs):
                    return self.derived(out, self.vs(rs))
                return ('pure',)
            if n == 'cls' or (n[:1].isupper() and n not in self.vars):
                # constructor: allocates, keeps references to its arguments
                rs = []
                for a in e.args:
                    rs.append(self.ev(out, a.value if isinstance(a, ast.Starred) else a))
                for k in e.keywords:
                    rs.append(self.ev(out, k.value))
                self.emit(out, ('Check',))
                t = self.tmp()
                self.emit(out, ('New', t, self.vs(rs)))
                self.kind[t] = 'new'
                return ('var', t)
            if self.ctor and n in CTOR_ARG_WRITERS:
                rs = [self.ev(out, a) for a in allargs]
                for v in self.vs(rs):
                    self.emit(out, ('SetAttr', v, []))
                self.emit(out, ('Check',))
                return ('pure',)
            if self.ctor and (n in CTOR_READERS or n.startswith('_check_') or n.startswith('check_')):
                rs = [self.ev(out, a.value if isinstance(a, ast.Starred) else a) for a in allargs]
                self.emit(out, ('Check',))
                if self.vs(rs) and not (n.startswith('_check_') or n.startswith('check_')):
                    return self.derived(out, self.vs(rs))
                return ('pure',)
            raise Untranslatable(f'call of unknown function {n}')
        if isinstance(fn, ast.Attribute):
            m = fn.attr
            recv = fn.value
            if self.ctor and m == '__init__' and isinstance(recv, ast.Call) and \
                    isinstance(recv.func, ast.Name) and recv.func.id == 'super':
                # the base-class constructor fills the object under construction and may keep
                # references to what it is given (constructors do not modify their arguments)
                rs = [self.ev(out, a.value if isinstance(a, ast.Starred) else a) for a in allargs]
                self.emit(out, ('Check',))
                self.emit(out, ('SetAttr', 0, self.vs(rs)))
                return ('pure',)
            if self.ctor and isinstance(recv, ast.Name) and recv.id in CTOR_MODULES and recv.id not in self.vars:
                if m in CTOR_MODULE_WRITERS or any(k.arg == 'out' for k in e.keywords):
                    raise Untranslatable(f'{recv.id}.{m} may write to its argument')
                rs = [self.ev(out, a.value if isinstance(a, ast.Starred) else a) for a in allargs]
                self.emit(out, ('Check',))
                return self.derived(out, self.vs(rs)) if self.vs(rs) else ('pure',)
            if is_conv_name(m):
                if isinstance(recv, ast.Call) and isinstance(recv.func, ast.Name) and recv.func.id == 'super' \
                        and not recv.args:
                    o = self.ix.resolve(self.cls, m, start_at_bases=True)
                    owners = [o] if o else []
                else:
                    r = self.ev(out, recv)
                    if r[0] != 'classes':
                        raise Untranslatable(f'converter called on {ast.unparse(recv)}')
                    owners = [self.ix.resolve(c, m) for c in r[1]]
                if not owners or any(o is None for o in owners):
                    raise Untranslatable(f'cannot resolve {ast.unparse(fn)}')
                if any(o in self.ix.dup for o in owners):
                    raise Untranslatable('ambiguous class name')
                owners = sorted(set(owners), key=owners.index)
                return self.conv_call(out, e, owners, m)
            r = self.ev(out, recv)
            rs = [self.ev(out, a) for a in allargs]
            if self.ctor and r[0] == 'classes' and m in CTOR_CLASS_READERS:
                self.emit(out, ('Check',))
                return self.derived(out, self.vs(rs)) if self.vs(rs) else ('pure',)
            if r[0] == 'var':
                if m in GROW_METHODS or (self.ctor and m == 'add'):
                    self.emit(out, ('SetAttr', r[1], self.vs(rs)))
                    return ('pure',)
                if m in PURE_METHODS or (self.ctor and m in CTOR_PURE_METHODS):
                    self.emit(out, ('Check',))
                    return self.derived(out, [r[1]] + self.vs(rs))
                if m in INPLACE_METHODS:
                    if self.vs(rs):
                        raise Untranslatable('object argument to in-place method')
                    t = self.tmp()
                    self.emit(out, ('CallConv', t, INPLACE_NAME, r[1], 'FFalse'))
                    return ('pure',)
                raise Untranslatable(f'method {m} on tracked object')
            if m in PURE_RECEIVER_METHODS and r[0] in ('pure', 'classes'):
                self.emit(out, ('Check',))
                return ('pure',)
            raise Untranslatable(f'method call {ast.unparse(fn)}')
        raise Untranslatable(f'call {ast.unparse(e)[:60]}')

    # ---- statements ----------------------------------------------------------
    def assign_name(self, out, name, r):
        if r[0] == 'classes':
            self.classvars[name] = list(r[1])
            return
        prev_cls = self.classvars.pop(name, None)
        if prev_cls is not None:
            raise Untranslatable('class variable rebound to a value')
        v = self.var(name)
        if r[0] == 'var':
            self.emit(out, ('Alias', v, r[1]))
            self.kind[v] = self.kind.get(r[1], 'alias')
        else:
            self.emit(out, ('New', v, []))
            self.kind[v] = 'pure'

    def store(self, out, target, r):
        """target (Attribute/Subscript) = r"""
        base = self.ev(out, target.value)
        if isinstance(target, ast.Subscript):
            self.ev(out, target.slice)
        if base[0] != 'var':
            raise Untranslatable(f'store into untracked object {ast.unparse(target)}')
        if isinstance(target, ast.Attribute) and target.attr == '__class__':
            self.emit(out, ('SetClass', base[1]))
            return
        if r[0] == 'classes':
            r = ('pure',)
        self.emit(out, ('SetAttr', base[1], self.vs([r])))
        if isinstance(target, ast.Attribute) and isinstance(target.value, ast.Name):
            key = (target.value.id, target.attr)
            self.pathalias.pop(key, None)
            if r[0] == 'var' and self.kind.get(r[1]) == 'new' and not self.in_loop:
                self.pathalias[key] = r[1]

    in_loop = 0

    def block(self, stmts, tail=False):
        out = []
        for i, s in enumerate(stmts):
            last = tail and i == len(stmts) - 1
            self.stmt(out, s, last)
        return out

    def stmt(self, out, s, last):
        if isinstance(s, ast.Expr):
            if isinstance(s.value, ast.Constant):
                return
            self.ev(out, s.value)
            return
        if isinstance(s, ast.Pass):
            return
        if isinstance(s, (ast.Raise, ast.Assert)):
            self.emit(out, ('Check',))
            return
        if isinstance(s, ast.Return):
            if not last or s.value is None:
                raise Untranslatable('return that is not the last statement')
            self.ret = self.as_var(out, self.ev(out, s.value))
            return
        if isinstance(s, ast.AnnAssign):
            if s.value is None:
                return
            s = ast.Assign(targets=[s.target], value=s.value)
        if isinstance(s, ast.Assign):
            if len(s.targets) != 1:
                raise Untranslatable('chained assignment')
            r = self.ev(out, s.value)
            t = s.targets[0]
            if isinstance(t, ast.Name):
                self.assign_name(out, t.id, r)
            elif isinstance(t, ast.Tuple):
                for el in t.elts:
                    if not isinstance(el, ast.Name):
                        raise Untranslatable('tuple target')
                    v = self.var(el.id)
                    if r[0] == 'var':
                        self.emit(out, ('PathInto', v, r[1]))
                        self.kind[v] = 'path'
                    else:
                        self.emit(out, ('New', v, []))
            elif isinstance(t, (ast.Attribute, ast.Subscript)):
                self.store(out, t, r)
            else:
                raise Untranslatable('assignment target')
            return
        if isinstance(s, ast.If):
            if isinstance(s.test, ast.Name) and s.test.id == 'copy':
                if not self.has_copy:
                    raise Untranslatable('`if copy` without copy parameter')
                saved = dict(self.pathalias)
                a = self.block(s.body)
                self.pathalias = dict(saved)
                b = self.block(s.orelse)
                self.pathalias = {}
                out.append(('IfCopy', a, b))
                return
            self.in_test += 1
            try:
                self.ev(out, s.test)
            finally:
                self.in_test -= 1
            saved = dict(self.pathalias)
            cv = dict(self.classvars)
            a = self.block(s.body)
            pa_a, cv_a = self.pathalias, self.classvars
            self.pathalias, self.classvars = dict(saved), dict(cv)
            b = self.block(s.orelse)
            self.pathalias = {k: v for k, v in self.pathalias.items() if pa_a.get(k) == v}
            merged = {}
            for k in set(cv_a) | set(self.classvars):
                if k in cv_a and k in self.classvars:
                    merged[k] = sorted(set(cv_a[k]) | set(self.classvars[k]))
                elif k in self.vars:
                    raise Untranslatable('name is a class in one branch and a value in the other')
                else:
                    merged[k] = cv_a.get(k) or self.classvars.get(k)
            self.classvars = merged
            # an arm that only validates and then raises never continues: it
            # contributes a Check, not a join partner
            def dead(arm_ast, arm):
                return (arm_ast and isinstance(arm_ast[-1], ast.Raise)
                        and all(x[0] in ('Check', 'PathInto', 'New') for x in arm))
            da, db = dead(s.body, a), dead(s.orelse, b)
            if da and db:
                out.append(('Check',))
            elif da:
                out.append(('Check',))
                out.extend(b)
            elif db:
                out.append(('Check',))
                out.extend(a)
            else:
                out.append(('Choice', a, b))
            return
        if isinstance(s, ast.For):
            if s.orelse:
                raise Untranslatable('for-else')
            # must-aliases used inside the loop have to survive a whole round:
            # translate, and if the body killed some alias, drop it and redo
            for _ in range(3):
                state = {k: _copy.deepcopy(getattr(self, k)) for k in
                         ('vars', 'names', 'n', 'classvars', 'kind', 'pathalias', 'trusted_used', 'callees')}
                n_out = len(out)
                body = []
                self.in_loop += 1
                try:
                    self.bind_iter(out, body, s.target, s.iter)
                    body += self.block(s.body)
                finally:
                    self.in_loop -= 1
                lost = [k for k, v in state['pathalias'].items() if self.pathalias.get(k) != v]
                if not lost:
                    break
                for k, v in state.items():
                    setattr(self, k, v)
                for k in lost:
                    self.pathalias.pop(k, None)
                del out[n_out:]
            else:
                raise Untranslatable('loop aliases do not stabilise')
            out.append(('Star', body))
            return
        if isinstance(s, ast.AugAssign) and self.ctor:
            r = self.ev(out, s.value)
            t = s.target
            if isinstance(t, ast.Name):
                if t.id in self.vars:
                    # in place for arrays and lists, a rebinding for numbers: the stronger reading
                    self.emit(out, ('SetAttr', self.vars[t.id], self.vs([r])))
                return
            if isinstance(t, (ast.Attribute, ast.Subscript)):
                self.store(out, t, r)
                return
            raise Untranslatable('augmented assignment target')
        if isinstance(s, ast.With) and self.ctor:
            for it in s.items:
                r = self.ev(out, it.context_expr)
                if it.optional_vars is not None:
                    if not isinstance(it.optional_vars, ast.Name):
                        raise Untranslatable('with target')
                    self.assign_name(out, it.optional_vars.id, r)
            out.extend(self.block(s.body))
            return
        if isinstance(s, ast.Try):
            if s.orelse or s.finalbody:
                raise Untranslatable('try-else/finally')
            # any prefix of the body, then possibly a handler
            for st in s.body:
                one = self.block([st])
                out.append(('Choice', one, []))
            self.pathalias = {}
            hs = []
            for h in s.handlers:
                hs.append(self.block(h.body))
                self.pathalias = {}
            alt = []
            for hb in hs:
                alt = [('Choice', hb, alt)]
            out += alt
            return
        raise Untranslatable(f'statement {type(s).__name__}')

    def run(self):
        body = list(self.f.body)
        if body and isinstance(body[0], ast.Expr) and isinstance(body[0].value, ast.Constant):
            body = body[1:]
        if not body or not isinstance(body[-1], ast.Return):
            raise Untranslatable('body does not end with return')
        self.ret = None
        self.body = self.block(body, tail=True)
        return self


class TrInit(Tr):
    """Translation of one constructor body: variable 0 = self (the object under
    construction), every parameter a tracked variable of unknown ownership."""
    ctor = True

    def __init__(self, index, cls, f):
        self.ix, self.cls, self.meth, self.f = index, cls, '__init__', f
        self.qual = f'{cls}.__init__'
        a = f.args
        names = [x.arg for x in a.posonlyargs + a.args] + ([a.vararg.arg] if a.vararg else []) + \
            [x.arg for x in a.kwonlyargs] + ([a.kwarg.arg] if a.kwarg else [])
        if not names or names[0] != 'self' or f.decorator_list:
            raise Untranslatable('unexpected constructor signature')
        self.has_copy = False
        self.argname = 'self'
        self.params = set()
        self.vars = {n: i for i, n in enumerate(names)}
        self.names = {i: n for i, n in enumerate(names)}
        self.n = len(names)
        self.classvars = {}
        self.kind = {}
        self.pathalias = {}
        self.in_test = 0
        self.trusted_used = []
        self.callees = set()

    def run(self):
        body = list(self.f.body)
        if body and isinstance(body[0], ast.Expr) and isinstance(body[0].value, ast.Constant):
            body = body[1:]
        self.ret = 0
        self.body = self.block(body)
        return self


def translate_ctors(repo, known_convs):
    """-> (translated constructor bodies, {qualname: why not})"""
    ix = Index(repo)
    done, fails = [], {}
    for cname, c in sorted(ix.classes.items(), key=lambda kv: (kv[1]['file'], kv[1]['node'].lineno)):
        f = c['methods'].get('__init__')
        if f is None:
            continue
        q = f'{cname}.__init__'
        try:
            if cname in ix.dup:
                raise Untranslatable('class name defined twice')
            t = TrInit(ix, cname, f).run()
            missing = [x for x in sorted(t.callees) if x not in known_convs]
            if missing:
                raise Untranslatable('calls untranslated converter ' + ', '.join(missing))
        except Untranslatable as ex:
            fails[q] = f"{c['file']}:{f.lineno}: {ex}"
            continue
        done.append(dict(qual=q, file=c['file'], line=f.lineno, tr=t, body=t.body))
    return done, fails


def emit_ctors(ctors, fails):
    L = ['', '(* ---- constructor bodies (__init__): ok_ctor = no write to any parameter ---- *)']
    for c in ctors:
        names = ', '.join(f'{v}={n}' for v, n in sorted(c['tr'].names.items()) if not n.startswith('t'))
        L.append(f"(* {c['file']}:{c['line']}  {c['qual']}   vars: {names} *)")
        L.append(f"Definition {ctor_ident(c['qual'])} : stmt := seqs [")
        L.append(render_block(c['body'], 4) + '].')
        L.append('')
    L.append('Definition ctor_table : list (string * stmt) := [')
    L.append(';\n'.join(f"  (\"{c['qual']}\", {ctor_ident(c['qual'])})" for c in ctors) + '].')
    L.append('Eval vm_compute in (map (fun p => (fst p, ok_ctor conv_modes (snd p))) ctor_table).')
    return '\n'.join(L) + '\n'


def ctor_ident(q):
    return 'ctor_' + ''.join(ch if ch.isalnum() else '_' for ch in q)


# --------------------------------------------------------------------------
def render(s, ind=4):
    pad = ' ' * ind
    k = s[0]
    if k == 'Check':
        return pad + 'Check'
    if k in ('Alias', 'PathInto', 'Deepcopy'):
        return f'{pad}{k} {s[1]} {s[2]}'
    if k == 'SetClass':
        return f'{pad}SetClass {s[1]}'
    if k in ('New', 'SetAttr'):
        return f'{pad}{k} {s[1]} [' + '; '.join(str(y) for y in s[2]) + ']'
    if k == 'CallConv':
        return f'{pad}CallConv {s[1]} "{s[2]}" {s[3]} {s[4]}'
    if k == 'Star':
        return f'{pad}Star (seqs [\n' + render_block(s[1], ind + 2) + '])'
    if k in ('IfCopy', 'Choice'):
        return (f'{pad}{k} (seqs [\n' + render_block(s[1], ind + 2) + '])\n' +
                f'{pad}  (seqs [\n' + render_block(s[2], ind + 2) + '])')
    raise ValueError(k)


def render_block(b, ind):
    return ';\n'.join(render(s, ind) for s in b) if b else ' ' * ind + 'Skip'


def coq_ident(q):
    return 'conv_' + ''.join(ch if ch.isalnum() else '_' for ch in q)


def translate(repo):
    """-> (converters, failures); converter = dict(qual, file, line, mode, body, ret, ...)"""
    ix = Index(repo)
    convs, fails = [], []
    for cls, meth, f, file in ix.converters():
        q = f'{cls}.{meth}'
        try:
            if cls in ix.dup:
                raise Untranslatable('class name defined twice')
            t = Tr(ix, cls, meth, f).run()
        except Untranslatable as ex:
            fails.append(dict(qual=q, file=file, line=f.lineno, why=str(ex)))
            continue
        convs.append(dict(qual=q, file=file, line=f.lineno, tr=t, body=t.body, ret=t.ret,
                          has_copy=t.has_copy, private=meth.startswith('_'), meth=meth,
                          callees=sorted(t.callees), trusted=t.trusted_used))
    known = {c['qual'] for c in convs}
    for c in convs:
        missing = [x for x in c['callees'] if x not in known]
        if missing:
            fails.append(dict(qual=c['qual'], file=c['file'], line=c['line'],
                              why='calls untranslated converter ' + ', '.join(missing)))
    bad = {f['qual'] for f in fails}
    convs = [c for c in convs if c['qual'] not in bad]
    # modes: MWrap = from_sequence with copy whose result is a new container
    for c in convs:
        c['mode'] = ('MInPlace' if c['private'] else 'MNoCopy') if not c['has_copy'] else 'MStd'
    changed = True
    while changed:
        changed = False
        for c in convs:
            if c['mode'] != 'MStd' or c['meth'] != 'from_sequence':
                continue
            k = c['tr'].kind.get(c['ret'], '')
            wrap = k == 'new' or (k.startswith('call:') and all(
                any(d['qual'] == q and d['mode'] == 'MWrap' for d in convs) for q in k[5:].split(',')))
            if wrap:
                c['mode'] = 'MWrap'
                changed = True
    return convs, fails


def emit_coq(convs, fails, repo):
    L = ['(* GENERATED by harness/translate_c20.py from %s/src/highdicom - do not edit.' % repo,
         '   One term per converter classmethod; checked by C20_Model.ok. *)',
         'From Coq Require Import String List Bool.',
         'From HD Require Import Base.Val C20_Model.',
         'Import ListNotations.',
         'Close Scope Z_scope.', 'Open Scope nat_scope.', 'Open Scope string_scope.', '']
    for f in fails:
        L.append(f"(* UNTRANSLATABLE {f['qual']} ({f['file']}:{f['line']}): {f['why']} *)".replace('*)', '* )')[:-3] + '*)')
    for c in convs:
        names = ', '.join(f'{v}={n}' for v, n in sorted(c['tr'].names.items()) if not n.startswith('t'))
        L.append(f"(* {c['file']}:{c['line']}  {c['qual']}   vars: {names} *)")
        for key in c['trusted']:
            L.append(f"(* TRUSTED fresh path {key[1]}: {TRUSTED_FRESH[key]} *)".replace('(...)', '...'))
        L.append(f"Definition {coq_ident(c['qual'])} : conv := {{| cname := \"{c['qual']}\"; cret := {c['ret']}; cbody := seqs [")
        L.append(render_block(c['body'], 4) + '] |}.')
        L.append('')
    L.append(f'Definition conv_inplace : conv := {{| cname := "{INPLACE_NAME}"; cret := 0; cbody := Skip |}}.')
    L.append('Definition conv_table : table := [')
    L.append(';\n'.join(f"  ({coq_ident(c['qual'])}, {c['mode']})" for c in convs) +
             (';\n' if convs else '') + '  (conv_inplace, MInPlace)].')
    L.append('Definition conv_summaries := Eval vm_compute in summaries conv_table.')
    L.append('Definition conv_modes : modes := tlookup conv_summaries.')
    L.append('Eval vm_compute in (map (fun p => (cname (fst p), ok conv_modes (fst p))) conv_table).')
    L.append('Eval vm_compute in (map (fun p => (fst p, sclean (snd p))) conv_summaries).')
    for c in convs:
        L.append(f"Example {coq_ident(c['qual'])}_ok : ok conv_modes {coq_ident(c['qual'])} = true := eq_refl.")
    L.append('Example conv_all_ok : all_ok conv_table = true.')
    L.append('Proof. vm_compute. reflexivity. Qed.')
    return '\n'.join(L) + '\n'


def main():
    repo = os.environ.get('VERIF_REPO', '/repo')
    out = None
    a = sys.argv[1:]
    while a:
        if a[0] == '--repo':
            repo = a[1]
            a = a[2:]
        elif a[0] == '--out':
            out = a[1]
            a = a[2:]
        elif a[0] == '--list':
            convs, fails = translate(repo)
            for c in convs:
                print(f"{c['mode']:9s} {c['qual']}  ({c['file']}:{c['line']})")
            for f in fails:
                print('FAIL', f)
            return 0
        else:
            raise SystemExit(__doc__)
    convs, fails = translate(repo)
    txt = emit_coq(convs, fails, repo)
    if out:
        open(out, 'w').write(txt)
    else:
        sys.stdout.write(txt)
    for f in fails:
        print('UNTRANSLATABLE', f, file=sys.stderr)
    return 1 if fails else 0


if __name__ == '__main__':
    sys.exit(main())
