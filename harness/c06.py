"""C06 - pixel transforms follow the DICOM pipeline and the tri-state flags.

Implementation driven (real code from $VERIF_REPO/src):
  (histories: one object asked several times, with the stored-value cache filled, in the stored dtype - every read
  must equal the stored values through the stages and leave them alone; per-frame transforms x every option of the
  several-frames accessors)
  (tables and input arrays are handed over in drawn numpy memory layouts: byte order, strides, offsets,
  read-only / unaligned buffers - the results must depend on the logical values only)
  hd.Image.from_dataset(...).get_frame / get_frames / get_volume / get_total_pixel_matrix and
  hd.get_volume_from_series  (image.py _CombinedPixelTransform __init__ + __call__, the
  applies_to_all_frames reuse in get_frames / _get_pixels_by_frame), hd.LUT / VOILUT / ModalityLUT objects (lut_data, apply,
  get_scaled_lut_data, get_inverted_lut_data, descriptor), VOILUTTransformation.apply,
  pm.RealWorldValueMapping.apply, pixels.apply_voi_window.
Model: coq/theories/C06_Model.v; theorems: C06_Props.v.
Oracle: the standard's pipeline composed stage by stage with pydicom.pixels
apply_modality_lut / apply_voi_lut / apply_windowing / apply_color_lut and plain numpy
(never the model), plus the property's tri-state rules written out from its text.
"""
import itertools
import math
import os
import sys
import warnings
from fractions import Fraction as F

sys.path.insert(0, os.path.dirname(os.path.abspath(__file__)))
import common
from common import Err, catch, zlit, qlit, zl, coq_string

PROPERTY = 'C06'
PROPS_FILE = 'C06_Props.v'
COQ_IMPORTS = ['C06_Model']
TOL = F(1, 10**9)
ORACLE_PREMISES = [
    'exp: enters the model as an uninterpreted function E (Section variable); theorems about SIGMOID need only '
    'E(a)=E(b) for a==b, and (inversion) E(-t)*E(t)=1, 1+E(t)<>0; the run evaluates E from a table of math.exp values',
    'float64 arithmetic of numpy stays within 1e-9 relative of the exact rational model (float32 outputs: only '
    'accept/reject is compared with the model, values are checked by the oracle to 1e-5)',
    'pydicom element access (MultiValue / scalar, in-memory Dataset, VR of LUTData) behaves as modelled; ICC colour management is '
    'outside the property and not modelled',
]
MODELLED = ('image.py _CombinedPixelTransform.__init__ (flag gate, discovery root/shared/per-frame, selectors, '
            'folding, dtype checks, applies_to_all_frames) and __call__; get_frames / _get_pixels_by_frame (get_volume, '
            'get_total_pixel_matrix) transform reuse; get_volume_from_series; pixels.py selectors, apply_voi_window, apply_lut, '
            '_check_rescale_dtype, palette LUT parsing; content.py LUT (descriptor, lut_data, scaled, inverted, '
            'apply), VOILUTTransformation.apply; pm/content.py RealWorldValueMapping.apply; LUT.__init__ over the memory '
            'layout of the array it is given (nparr: buffer, byte offset, byte stride, item size, byte order); histories of '
            'one image object / one series (PixelData + stored-value cache; reads are fed from the cache and write nothing)')
STRATA = ['mono', 'mono_mf', 'mono_mf_nonuniform', 'mono_vol', 'series', 'series_voi', 'series_attr', 'tpm', 'flags', 'palette', 'lut', 'lut_big', 'lut_err', 'voi_apply', 'rwvm_apply',
          'window', 'malformed', 'lut_layout', 'mono_lut_layout', 'mono_hist', 'series_hist', 'mf_options']
NOT_EXECUTED = ['ICC colour management (no ICC profile in the synthetic images; out of the property)',
                'segmented palette colour LUTs (the code raises RuntimeError: not implemented)',
                'slice / row / column sub-ranges of get_volume and get_total_pixel_matrix (whole stacks and whole '
                'matrices are driven; the spatial arguments belong to C03 / C08 / C11)',
                'float-valued pixel data in histories (FloatPixelData / DoubleFloatPixelData cannot be read through the '
                'image interface: open finding D35); lazily read files; aliasing of a returned frame with the cache when '
                'nothing is applied (not judged: the harness never writes into returned arrays)',
                ]
RULE = ('mono: single-frame images, random modality (rescale integer / dyadic / LUT 8,16 bit), VOI (1-3 windows with '
        'LINEAR / LINEAR_EXACT / SIGMOID, explanations; VOI LUTs), MONOCHROME1/2 + PresentationLUTShape, RWVM linear / '
        'LUT selected by index, label, unit; random tri-state flags, output range, dtype. mono_mf: the same with '
        'parameters shared or per-frame, get_frame(i) and get_frames (all / subset / reversed / repeated frames). '
        'mono_vol: get_volume of a multi-frame stack with shuffled slice positions. series: get_volume_from_series over '
        '2-3 single-frame images (optionally different rescale per slice). series_voi: get_volume_from_series over 2-5 '
        'instances (any input order) whose rescale is IDENTICAL (or absent, or constant over runs of adjacent slices) while '
        'the VOI window differs from slice to slice: every centre / width, one re-windowed slice, only the width, only the '
        'centre, only VOILUTFunction, permuted explanations (string selector), a different number of alternatives (selector '
        '-1), window absent on some slices; windows placed on the rescaled value range so that a wrong window is visible. '
        'series_attr: ONE other transform-relevant attribute differs from slice to slice while all the others are equal: '
        'RescaleSlope, RescaleIntercept, presence of the rescale, VOILUTSequence (data / first value), ModalityLUTSequence, '
        'PhotometricInterpretation, PresentationLUTShape, RealWorldValueMappingSequence, BitsStored; float32 volumes are '
        're-run and value-checked by the oracle. tpm: get_total_pixel_matrix of a tiled 8-bit '
        'monochrome image, parameters in the shared group. mono_mf_nonuniform: per-frame groups that do NOT all carry the '
        'same kinds of parameters (open finding D106), read through get_frame / get_frames / get_volume. flags: all 3^5 x 2 flag vectors on fixed '
        'datasets. palette: 8/16-bit tables, odd/even lengths, any first value. lut*: LUT objects incl. 65536 entries '
        'and padded 8-bit tables. malformed: each guard violated. non-trivial = at least 2 distinct output values or '
        'a rejection; distinct by case hash. MEMORY LAYOUTS: every table handed to hd.LUT / VOILUT / ModalityLUT / '
        'PresentationLUT / PaletteColorLUT (stand-alone, inside images, user VOI LUTs, series) and every input array of '
        'LUT.apply / VOILUTTransformation.apply / RealWorldValueMapping.apply / apply_voi_window is built in a drawn memory '
        'layout: native, explicit little-endian, BIG-ENDIAN, strided (step 2, 3), reversed (negative stride), offset into a '
        'larger buffer, np.frombuffer over immutable bytes (read-only, optionally unaligned), read-only flag. lut_layout: '
        'stand-alone tables in every preset layout (each at least twice per run) + random ones through the four LUT classes, '
        'in memory and after a file round trip; observed: descriptor, the stored LUTData bytes, lut_data, apply; the model is '
        'given the array MEMORY (buffer, offset, stride, item size, byte order). mono_lut_layout: images whose Modality LUT / '
        'VOI LUTs / user VOI LUT were built from non-native arrays (75 % big-endian), read through get_frame / get_frames. '
        'HISTORIES (mono_hist, series_hist): ONE object is asked several times - .pixel_array (fills the stored-value cache '
        'every later read is fed from), get_frame / get_frames / get_volume / get_total_pixel_matrix in the STORED dtype (the '
        'only one in which a transform can work in place on the array it is handed), in other dtypes, get_stored_frame, and '
        '.pixel_array again at the end; transforms drawn from: rescale with slope 1 and intercept k (CT), slope m and k, '
        'identity rescale, nothing to apply, bare / rescaled inversion (MONOCHROME1), real world value map with slope 1, '
        'window, random; parameters at root / shared / per frame (different per frame); single-frame, multi-frame stack and '
        'tiled images; series_hist: hd.get_volume_from_series called two or three times on the SAME datasets (pydicom caches '
        'their pixel_array), the datasets\' pixel_array observed afterwards.  EVERY operation of a history is observed and '
        'judged (each read = stored values through the stages; stored values unchanged).  The input arrays of LUT.apply / '
        'VOILUTTransformation.apply / RealWorldValueMapping.apply / apply_voi_window must be left unchanged.  '
        'mf_options: multi-frame images whose combined transform is NOT shared by all frames (windows per frame, rescale per '
        'frame with shared windows or root VOI LUTs, both per frame, real world value maps per frame - each different in every '
        'frame) read through get_volume, get_total_pixel_matrix (TILED_SPARSE with per-frame groups) and get_frames with ONE '
        'option away from its default so that it changes the values: VOI selector 1 / -1 / explanation (order permuted per '
        'frame) / user window / user LUT / root VOI LUT index, real world value map selector (index, label, unit), output '
        'range, presentation inversion, modality False, VOI False, real world False, output dtype; every focus x every '
        'accessor is drawn in every run')
EXHAUSTIVE = {'quick': False, 'thorough': False}

TRI = [True, False, None]
FN = ['LINEAR', 'LINEAR_EXACT', 'SIGMOID']
MONO_KINDS = ('mono', 'mono_mf', 'flags', 'malformed', 'mono_vol', 'series', 'series_voi', 'series_attr', 'tpm',
              'mono_mf_nonuniform', 'mono_lut_layout', 'mono_hist', 'series_hist', 'mf_options')
DTYPES = ['float64', 'float64', 'float64', 'float32', 'int16', 'uint16', 'int32', 'uint8', 'int64']


# --------------------------------------------------------------------------
# generators
# --------------------------------------------------------------------------
def _q(rng, lo, hi, dens=(1, 1, 2, 4)):
    return str(F(rng.randint(lo, hi), rng.choice(dens)))


def _lut(rng, lo_len=1, expl=None, maxfirst=40, bits=None):
    bits = bits or rng.choice([8, 16])
    n = rng.choice([1, 2, 3, 4, 5, 7, 8, 9, 16, 31])
    n = max(n, lo_len)
    top = 255 if bits == 8 else rng.choice([255, 4095, 65535])
    mode = rng.choice(['rand', 'ramp', 'down'])
    if mode == 'rand':
        data = [rng.randint(0, top) for _ in range(n)]
    elif mode == 'ramp':
        data = [min(top, i * max(1, top // max(1, n - 1))) for i in range(n)]
    else:
        data = [max(0, top - i * max(1, top // max(1, n))) for i in range(n)]
    if n > 1 and len(set(data)) == 1:
        data[-1] = (data[-1] + 1) % (top + 1)
    return {'first': rng.choice([0, 0, 1, 2, rng.randint(0, maxfirst)]), 'data': data, 'bits': bits, 'expl': expl}


def _windows(rng):
    n = rng.choice([1, 1, 2, 3])
    cs = [_q(rng, -200, 600) for _ in range(n)]
    ws = [str(F(rng.randint(3, 900), rng.choice([1, 1, 2]))) for _ in range(n)]
    expl = None
    if rng.random() < 0.5:
        expl = [f'W{i}' for i in range(n)]
        if n == 3 and rng.random() < 0.3:
            expl[2] = expl[0]
    fn = rng.choice([None] + FN)
    return {'centers': cs, 'widths': ws, 'expl': expl, 'fn': fn}


def _rwvms(rng, lo, hi):
    n = rng.choice([1, 1, 2, 3])
    out = []
    for i in range(n):
        r = {'label': f'L{i}', 'unit': rng.choice([0, 1, 2])}
        if rng.random() < 0.5:
            a, b = lo, hi
            if rng.random() < 0.3:
                a, b = lo + rng.randint(0, 3), hi - rng.randint(0, 3)
                if b < a:
                    a, b = lo, hi
            r.update(kind='lin', slope=_q(rng, -8, 8), icpt=_q(rng, -50, 50), first=a, last=b,
                     dbl=rng.random() < 0.3)
        else:
            a = lo + (rng.randint(0, 2) if rng.random() < 0.3 else 0)
            b = hi - (rng.randint(0, 2) if rng.random() < 0.3 else 0)
            if b < a:
                a, b = lo, hi
            if rng.random() < 0.08:
                b = a          # one-entry table (pydicom hands it over as a bare float)
            r.update(kind='lut', first=a, last=b, data=[_q(rng, -100, 100) for _ in range(b - a + 1)])
        out.append(r)
    if n == 3 and rng.random() < 0.3:
        out[2]['label'] = out[0]['label']
    return out


def _empty_level():
    return {'rwvm': None, 'slope': None, 'icpt': None, 'win': None}


def _pixels(rng, n, lo, hi):
    edge = [lo, hi, lo + 1, hi - 1]
    return [rng.choice(edge) if rng.random() < 0.15 else rng.randint(lo, hi) for _ in range(n)]


def _flags(rng, bias=True):
    if bias and rng.random() < 0.7:
        # mostly-valid: voi needs modality not False
        fl = {'rwvm': rng.choice([False, None, None]), 'mod': rng.choice([True, None, None]),
              'voi': rng.choice(TRI), 'pres': rng.random() < 0.7, 'pal': None, 'icc': None}
    else:
        fl = {'rwvm': rng.choice(TRI), 'mod': rng.choice(TRI), 'voi': rng.choice(TRI),
              'pres': rng.random() < 0.5, 'pal': rng.choice([None, None, False]),
              'icc': rng.choice([None, None, False])}
    return fl


def _mono_case(rng, multi):
    signed = rng.random() < 0.4
    alloc = rng.choice([8, 16, 16])
    stored = alloc if rng.random() < 0.6 else rng.randint(alloc // 2 + 1, alloc)
    # small stored range so that LUTs / RWVM tables cover it
    small = rng.random() < 0.6
    if small:
        stored = rng.choice([3, 4, 5]) if not signed else rng.choice([3, 4, 5])
    lo, hi = (-(2 ** (stored - 1)), 2 ** (stored - 1) - 1) if signed else (0, 2 ** stored - 1)
    rows, cols = rng.choice([(1, 1), (1, 2), (2, 2), (2, 3), (3, 2)])
    nframes = rng.choice([2, 3]) if multi else 1
    plo, phi = (lo, hi) if small else (max(lo, -300), min(hi, 700))
    frames = [_pixels(rng, rows * cols, plo, phi) for _ in range(nframes)]
    c = {'kind': 'mono_mf' if multi else 'mono', 'signed': signed, 'alloc': alloc, 'stored': stored,
         'rows': rows, 'cols': cols, 'frames': frames,
         'mono1': rng.random() < 0.4, 'pls': rng.choice([None, None, 'IDENTITY', 'INVERSE']),
         'modlut': None, 'voiluts': None, 'root': _empty_level(),
         'shared': _empty_level() if multi else None,
         'perframe': [_empty_level() for _ in range(nframes)] if multi else None}

    def place(key, make):
        """put a parameter group at root (single frame) or shared / per-frame"""
        if not multi:
            v = make()
            for k, x in v.items():
                c['root'][k] = x
            return
        where = rng.choice(['shared', 'perframe', 'both', 'both'] if rng.random() < 0.3
                           else ['shared', 'perframe', 'perframe'])
        if where in ('shared', 'both'):
            for k, x in make().items():
                c['shared'][k] = x
        if where in ('perframe', 'both'):
            for lv in c['perframe']:
                for k, x in make().items():
                    lv[k] = x

    # modality
    r = rng.random()
    if r < 0.5:
        def mk():
            if rng.random() < 0.6:
                m = str(rng.choice([1, 1, 2, 3, 4, -1, -2]))
                b = str(rng.choice([0, 0, -1024, 10, -3, 7]))
            else:
                m = str(F(rng.choice([1, 3, 5, -3]), rng.choice([2, 4])))
                b = str(F(rng.randint(-40, 40), rng.choice([1, 2, 4])))
            d = {'slope': m, 'icpt': b}
            if rng.random() < 0.1:
                d[rng.choice(['slope', 'icpt'])] = None
            return d
        place('rescale', mk)
    elif r < 0.7 and not signed and not multi:
        c['modlut'] = _lut(rng, bits=rng.choice([8, 16]))
    # VOI
    r = rng.random()
    if r < 0.55:
        place('win', lambda: {'win': _windows(rng)})
    elif r < 0.8:
        n = rng.choice([1, 1, 2, 3])
        c['voiluts'] = [_lut(rng, lo_len=2, expl=(f'V{i}' if rng.random() < 0.7 else None), bits=16) for i in range(n)]
    # RWVM
    if rng.random() < 0.3 and (hi - lo) < 64:
        place('rwvm', lambda: {'rwvm': _rwvms(rng, lo, hi)})
    c['flags'] = _flags(rng)
    # selectors
    c['vsel'] = rng.choice([0, 0, 0, 0, 1, -1, 2, -2, 'W0', 'W1', 'W2', 'V0', 'V1', 'nope'])
    if rng.random() < 0.22 and not signed:
        # VOI LUT folded through an integer rescale: first value chosen so that the folding applies
        m = rng.choice([1, 2, 2, 3, 4, 5])
        b = rng.choice([0, -2, 3, -7, 10])
        for lv in [c['root'], c['shared']] + (c['perframe'] or []):
            if lv:
                lv['slope'] = lv['icpt'] = lv['win'] = None
        tgt = c['root'] if not multi else (c['shared'] if rng.random() < 0.5 else None)
        for lv in ([tgt] if tgt is not None else c['perframe']):
            lv['slope'], lv['icpt'] = str(m), str(b)
        c['modlut'] = None
        nl = rng.choice([1, 1, 2])
        c['voiluts'] = []
        for i in range(nl):
            l = _lut(rng, lo_len=2, expl=f'V{i}', bits=16)
            # folded first value k: also negative or beyond the pixel dtype (must not overflow / wrap)
            k = rng.choice([rng.randint(0, 6), rng.randint(-4, 6), rng.randint(-4, 6), 260, 70000])
            while b + m * k < 0:
                k += 1
            while b + m * k > 65535:
                k //= 2
            l['first'] = b + m * k
            c['voiluts'].append(l)
        c['vsel'] = rng.choice([0, 0, -1, 'V0'])
        c['flags'].update(rwvm=False, mod=rng.choice([None, True]), voi=rng.choice([None, True]),
                          pal=None, icc=None)
    if rng.random() < 0.12:
        if rng.random() < 0.6:
            k = rng.choice([1, 1, 2])
            c['vsel'] = {'userwin': [[_q(rng, -100, 300) for _ in range(k)],
                                     [str(rng.randint(3, 500)) for _ in range(k)]],
                         'fn': rng.choice([None] + FN)}
        else:
            c['vsel'] = {'userlut': [_lut(rng, lo_len=2, bits=16) for _ in range(rng.choice([1, 1, 2]))]}
    r2 = rng.random()
    if r2 < 0.10 and not signed and not multi:
        # modality LUT followed by a VOI LUT (scaled to the output range, inverted by the presentation stage)
        for lv in [c['root']]:
            lv['slope'] = lv['icpt'] = lv['win'] = lv['rwvm'] = None
        c['modlut'] = _lut(rng, lo_len=3, bits=rng.choice([8, 16]))
        c['modlut']['first'] = rng.choice([0, 1, 2])
        c['voiluts'] = [_lut(rng, lo_len=2, expl=f'V{i}', bits=16, maxfirst=20) for i in range(rng.choice([1, 2]))]
        for l in c['voiluts']:
            l['first'] = rng.choice([0, 1, 5, 30, 100])
        c['vsel'] = rng.choice([0, -1, 'V0'])
        c['mono1'] = rng.random() < 0.6
        c['flags'].update(rwvm=False, mod=rng.choice([None, True]), voi=rng.choice([None, True]),
                          pres=rng.random() < 0.8, pal=None, icc=None)
    elif r2 < 0.20:
        # presentation inversion of a bare rescale / bare stored values (signed and unsigned)
        for lv in [c['root'], c['shared']] + (c['perframe'] or []):
            if lv:
                lv['rwvm'] = None
        c['modlut'] = None
        c['mono1'] = True
        c['pls'] = rng.choice([None, None, 'INVERSE'])
        c['flags'].update(rwvm=False, mod=rng.choice([None, None, False]), voi=False, pres=True, pal=None, icc=None)
    rw_focus = False
    if 0.20 <= r2 < 0.27:
        # nothing to apply, integer output dtype: values are cast unchanged and must fit (boundary values)
        for lv in [c['root'], c['shared']] + (c['perframe'] or []):
            if lv:
                lv['rwvm'] = lv['slope'] = lv['icpt'] = lv['win'] = None
        c['modlut'] = c['voiluts'] = None
        c['mono1'], c['pls'] = False, None
        c['flags'].update(rwvm=rng.choice([None, False]), mod=rng.choice([None, False]), voi=False, pal=None, icc=None)
    elif 0.27 <= r2 < 0.36 and (hi - lo) < 64:
        # real world value maps with duplicate labels / units, selected by index, label or unit
        rw_focus = True
        rs = _rwvms(rng, lo, hi) + _rwvms(rng, lo, hi)
        rs = rs[:rng.choice([2, 3, 3])]
        for i, r in enumerate(rs):
            r['label'] = f'L{i}'
        if rng.random() < 0.6:
            rs[-1]['label'] = rs[0]['label']
            rs[-1]['unit'] = rs[0]['unit']
        tgt = [c['root']] if not multi else ([c['shared']] if rng.random() < 0.5 else c['perframe'])
        for lv in [c['root'], c['shared']] + (c['perframe'] or []):
            if lv:
                lv['rwvm'] = None
        for lv in tgt:
            lv['rwvm'] = [dict(r) for r in rs]
        c['flags'].update(rwvm=rng.choice([None, True]), mod=rng.choice([None, False]), voi=rng.choice([False, None]),
                          pal=None, icc=None)
        if c['flags']['mod'] is False and c['flags']['voi'] is None and c['flags']['rwvm'] is not True:
            c['flags']['voi'] = False
    c['rsel'] = rng.choice([0, 0, 0, 1, -1, 2, 'L0', 'L1', 'L2', 'nope', {'code': 0}, {'code': 1}, {'code': 2}])
    c['yrange'] = rng.choice([['0', '1'], ['0', '1'], ['0', '255'], ['-1', '1'], ['1/2', '3/4']])
    if rw_focus:
        c['rsel'] = rng.choice([0, -1, 1, 'L0', 'L0', 'L1', {'code': rs[0]['unit']}, {'code': rs[1]['unit']}])
    c['dtype'] = rng.choice(DTYPES) if r2 >= 0.20 else rng.choice(['float64', 'float64', 'float64', 'float32'])
    if 0.20 <= r2 < 0.27:
        import numpy as np
        c['dtype'] = rng.choice(['uint8', 'int8', 'uint8', 'int8', 'int16', 'uint16'])
        info = np.iinfo(np.dtype(c['dtype']))
        c['alloc'] = c['stored'] = 16
        l16, h16 = (-32768, 32767) if signed else (0, 65535)
        a_, b_ = max(l16, info.min), min(h16, info.max)
        c['frames'] = [[rng.randint(a_, b_) for _ in range(rows * cols)] for _ in range(nframes)]
        for fr in c['frames']:
            fr[rng.randrange(len(fr))] = rng.choice([a_, b_, b_, a_ + 1, b_ - 1])
        if rng.random() < 0.3:
            out = [v for v in (info.min - 1, info.max + 1) if l16 <= v <= h16]
            if out:
                fr = rng.choice(c['frames'])
                fr[rng.randrange(len(fr))] = rng.choice(out)
    c['fi'] = rng.randrange(nframes)
    c['api'] = 'get_frames' if (multi and rng.random() < 0.4) else 'get_frame'
    if rng.random() < 0.3:
        c['prior'] = rng.choice(['pres', 'pres', 'voi', 'dtype', 'yrange', 'frame'])
    if multi and r2 >= 0.36 and rng.random() < 0.3:
        # one stage per-frame (different for every frame), the next stage shared (or the reverse),
        # several frames fetched in ONE call: a transform built for one frame must not be reused
        for lv in [c['shared']] + c['perframe']:
            lv['rwvm'] = lv['slope'] = lv['icpt'] = lv['win'] = None
        c['modlut'] = c['voiluts'] = None
        ms = rng.sample([1, 2, 3, 4, -1, -2], nframes)
        bs = rng.sample([0, -1024, 10, -3, 7, 100], nframes)
        wins = [_windows(rng) for _ in range(nframes)]
        if rng.random() < 0.6:
            for lv, m, b in zip(c['perframe'], ms, bs):
                lv['slope'], lv['icpt'] = str(m), str(b)
            c['shared']['win'] = wins[0]
        else:
            c['shared']['slope'], c['shared']['icpt'] = str(ms[0]), str(bs[0])
            for lv, w in zip(c['perframe'], wins):
                w['expl'] = None
                lv['win'] = w
        c['vsel'] = 0
        c['flags'] = {'rwvm': False, 'mod': rng.choice([None, True]), 'voi': rng.choice([None, True]),
                      'pres': rng.random() < 0.5, 'pal': None, 'icc': None}
        c['dtype'] = 'float64'
        c['api'] = rng.choice(['get_frames', 'get_frames', 'get_frame'])
    return c


def _more_frames(rng, c, n):
    """n frames in the value range of the case's first frame"""
    base = c['frames'][0]
    out = [list(base)]
    while len(out) < n:
        fr = list(base)
        rng.shuffle(fr)
        fr[rng.randrange(len(fr))] = rng.choice(base)
        out.append(fr)
    return out


def _vol_case(rng):
    """get_volume on a multi-frame stack: frames at shuffled, regularly spaced positions"""
    c = _mono_case(rng, True)
    n = len(c['frames'])
    zs = [2.5 * i for i in range(n)]
    rng.shuffle(zs)
    c.update(kind='mono_vol', api='get_volume', zs=zs)
    c.pop('prior', None)
    return c


def _series_case(rng):
    """get_volume_from_series: 2-3 single-frame images; the slices may carry different rescales"""
    c = _mono_case(rng, False)
    n = rng.choice([2, 3])
    c['frames'] = _more_frames(rng, c, n)
    zs = [5.0 * i for i in range(n)]
    rng.shuffle(zs)
    roots = [dict(c['root']) for _ in range(n)]
    if c['root']['slope'] is not None and c['root']['icpt'] is not None and rng.random() < 0.4:
        for r in roots[1:]:
            r['icpt'] = str(F(c['root']['icpt']) + rng.choice([1, -2, 5]))
    c.update(kind='series', api='series', zs=zs, slice_roots=roots)
    c.pop('prior', None)
    return c


def _series_skeleton(rng, unsigned=False):
    """n single-frame instances of one series with NOTHING to apply yet (no rescale, window, LUT, RWVM):
    the callers put parameters on the slices.  Instances are listed in c['frames'] order (= input order
    of the datasets), slice i sits at z = zs[i] (shuffled: the input order is not the spatial order)."""
    while True:
        c = _mono_case(rng, False)
        if not (unsigned and c['signed']):
            break
    n = rng.choice([2, 3, 3, 4, 4, 5])
    c['frames'] = _more_frames(rng, c, n)
    zs = [2.5 * i for i in range(n)]
    rng.shuffle(zs)
    c.update(modlut=None, voiluts=None, root=_empty_level(), vsel=0, rsel=0, api='series', zs=zs,
             mono1=rng.random() < 0.4, pls=rng.choice([None, None, None, 'IDENTITY', 'INVERSE']),
             yrange=rng.choice([['0', '1'], ['0', '1'], ['0', '255'], ['-1', '1'], ['1/2', '3/4']]),
             dtype=rng.choice(['float64'] * 9 + ['float32']),
             flags={'rwvm': rng.choice([False, None]), 'mod': rng.choice([None, None, True]),
                    'voi': rng.choice([True, None, None]), 'pres': rng.random() < 0.7, 'pal': None, 'icc': None})
    c.pop('prior', None)
    return c


def _series_rescale(rng):
    if rng.random() < 0.6:
        return str(rng.choice([1, 1, 2, 3, -1, -2])), str(rng.choice([0, -1024, -100, 10, -3, 7]))
    return str(F(rng.choice([1, 3, 5, -3]), rng.choice([2, 4]))), str(F(rng.randint(-40, 40), rng.choice([1, 2, 4])))


def _value_range(c, m, b):
    vals = [F(m) * x + F(b) for fr in c['frames'] for x in fr]
    return min(vals), max(vals)


def _window_on(rng, lo, hi, k=1, expl=None, fn=None):
    """k window alternatives placed ON the value range [lo, hi] (so that two different windows give
    visibly different values, not two saturated images)"""
    span = max(F(4), hi - lo)
    cs, ws = [], []
    for _ in range(k):
        cs.append(str(lo + span * F(rng.randint(1, 7), 8) + F(rng.randint(0, 1), 2)))
        ws.append(str(max(F(3), span * F(rng.choice([3, 4, 6, 8, 12, 16]), 8)) + F(rng.randint(0, 1), 2)))
    return {'centers': cs, 'widths': ws, 'expl': expl, 'fn': fn}


def _other_window(rng, lo, hi, w, what='both'):
    """a window with the same structure as w but other centres and / or widths"""
    for _ in range(20):
        w2 = _window_on(rng, lo, hi, len(w['centers']), w['expl'], w['fn'])
        if what == 'width':
            w2['centers'] = list(w['centers'])
        elif what == 'center':
            w2['widths'] = list(w['widths'])
        if all(a != b for a, b in zip(w2['centers'], w['centers'])) or \
                all(a != b for a, b in zip(w2['widths'], w['widths'])):
            return w2
    return w2


SERIES_VOI_MODES = ['all', 'all', 'one', 'one', 'fn', 'fn', 'width', 'center', 'expl', 'count', 'presence', 'runs',
                    'runs']


def _series_voi_case(rng, mode=None):
    """get_volume_from_series over instances whose rescale is the same (or changes only between runs of
    adjacent slices) while the VOI WINDOW differs from slice to slice (per-slice auto-windowing, one
    re-windowed slice, another VOILUTFunction ...): every slice must be windowed with the window of its
    own instance"""
    c = _series_skeleton(rng)
    mode = mode or rng.choice(SERIES_VOI_MODES)
    n = len(c['frames'])
    order = _vol_order(c)                   # instance indices in the slice order of the volume
    m, b = _series_rescale(rng) if rng.random() < 0.75 else (None, None)
    res = [(m, b)] * n
    if mode == 'runs':
        # the rescale changes between runs of adjacent slices, the window changes inside the runs too
        m2, b2 = _series_rescale(rng)
        cut = rng.randint(1, n - 1) if n > 2 else 1
        for rank, i in enumerate(order):
            if rank >= cut:
                res[i] = (m2, b2)
        res = list(res)
    lo, hi = _value_range(c, m or 1, b or 0)
    k = 2 if mode in ('expl', 'count') else rng.choice([1, 1, 1, 2])
    expl = [f'W{i}' for i in range(k)] if (mode == 'expl' or rng.random() < 0.3) else None
    fn = rng.choice([None] + FN)
    w0 = _window_on(rng, lo, hi, k, expl, fn)
    wins = [dict(w0) for _ in range(n)]
    if mode in ('all', 'runs', 'width', 'center'):
        for i in range(1, n):
            wins[i] = _other_window(rng, lo, hi, wins[i - 1], {'width': 'width', 'center': 'center'}.get(mode, 'both'))
    elif mode == 'one':
        j = order[rng.randint(1, n - 1)]     # not the first slice of the volume
        wins[j] = _other_window(rng, lo, hi, w0, rng.choice(['both', 'width', 'center']))
    elif mode == 'fn':
        fns = [rng.choice([None] + FN) for _ in range(n)]
        while len({f or 'LINEAR' for f in fns}) < 2:
            fns[rng.randrange(n)] = rng.choice(FN)
        wins = [dict(w0, fn=f) for f in fns]
    elif mode == 'expl':
        # the same explanations in another order: a string selector finds another index on each slice
        for i in range(n):
            if rng.random() < 0.5:
                wins[i] = dict(w0, expl=list(reversed(w0['expl'])))
        if len({tuple(w['expl']) for w in wins}) < 2:
            wins[order[-1]] = dict(w0, expl=list(reversed(wins[order[0]]['expl'])))
        c['vsel'] = rng.choice(['W0', 'W1', 'W1'])
    elif mode == 'count':
        for i in range(n):
            if rng.random() < 0.5:
                wins[i] = dict(w0, centers=w0['centers'][:1], widths=w0['widths'][:1],
                               expl=(w0['expl'][:1] if w0['expl'] else None))
        if len({len(w['centers']) for w in wins}) < 2:
            j = order[-1]
            wins[j] = dict(w0, centers=w0['centers'][:1], widths=w0['widths'][:1],
                           expl=(w0['expl'][:1] if w0['expl'] else None))
        c['vsel'] = rng.choice([-1, -1, 0, 1])
    elif mode == 'presence':
        for i in range(n):
            if rng.random() < 0.4:
                wins[i] = None
        if all(w is None for w in wins) or all(w is not None for w in wins):
            wins[order[-1]] = None if wins[order[0]] is not None else dict(w0)
        c['flags']['voi'] = rng.choice([None, None, True])
    if mode not in ('expl', 'count') and rng.random() < 0.15:
        c['vsel'] = rng.choice([-1, 1, 'W0', 'W1']) if k == 2 else rng.choice([-1, 'W0'])
    if any(r == (None, None) for r in res):
        c['flags']['mod'] = None
    c['slice_roots'] = [{'rwvm': None, 'slope': res[i][0], 'icpt': res[i][1], 'win': wins[i]} for i in range(n)]
    c['root'] = c['slice_roots'][0]
    c.update(kind='series_voi', smode=mode)
    return c


SERIES_ATTR_MODES = ['slope', 'icpt', 'rescale_presence', 'voiluts', 'voiluts', 'modlut', 'mono1', 'pls', 'rwvm',
                     'stored', 'window_and_rescale']


def _series_attr_case(rng, mode=None):
    """get_volume_from_series over instances that differ in exactly ONE transform-relevant attribute
    other than the window (the window / everything else identical on all slices)"""
    mode = mode or rng.choice(SERIES_ATTR_MODES)
    c = _series_skeleton(rng, unsigned=mode in ('modlut', 'voiluts'))
    n = len(c['frames'])
    order = _vol_order(c)
    m, b = _series_rescale(rng)
    if mode in ('voiluts', 'modlut') or (mode in ('mono1', 'pls', 'stored', 'rwvm') and rng.random() < 0.4):
        m = b = None
    res = [(m, b)] * n
    over = [dict() for _ in range(n)]
    rw = [None] * n
    if mode in ('slope', 'window_and_rescale'):
        ms = rng.sample(['1', '2', '3', '4', '-1', '-2', '1/2', '3/2'], n)
        res = [(ms[i], b) for i in range(n)]
    elif mode == 'icpt':
        bs = rng.sample([0, 1, -2, 5, -1024, 10, 7], n)
        res = [(m, str(F(b) + bs[i])) for i in range(n)]
    elif mode == 'rescale_presence':
        res = [(m, b) if rng.random() < 0.5 else (None, None) for _ in range(n)]
        if len(set(res)) < 2:
            res[order[-1]] = (None, None) if res[order[0]] != (None, None) else (m, b)
    lo = min(F(r[0] or 1) * x + F(r[1] or 0) for r in res for fr in c['frames'] for x in fr)
    hi = max(F(r[0] or 1) * x + F(r[1] or 0) for r in res for fr in c['frames'] for x in fr)
    w0 = None
    if mode not in ('voiluts', 'rwvm', 'stored') and rng.random() < 0.7:
        w0 = _window_on(rng, lo, hi, 1, None, rng.choice([None] + FN))
    wins = [w0] * n
    if mode == 'window_and_rescale':
        # PET-like: rescale AND window differ on every slice
        w0 = _window_on(rng, lo, hi, 1, None, rng.choice([None] + FN))
        wins = [w0]
        for i in range(1, n):
            wins.append(_other_window(rng, lo, hi, wins[-1]))
        c['flags']['voi'] = rng.choice([True, None])
    if mode == 'voiluts':
        l0 = _lut(rng, lo_len=3, expl='V0', bits=16)
        for i in range(n):
            li = dict(l0)
            if i > 0:
                how = rng.choice(['data', 'data', 'first', 'both'])
                if how in ('data', 'both'):
                    top = max(max(l0['data']), 255)
                    li['data'] = [rng.randint(0, top) for _ in l0['data']]
                    if len(set(li['data'])) == 1:
                        li['data'][0] = (li['data'][0] + 1) % (top + 1)
                if how in ('first', 'both'):
                    li['first'] = l0['first'] + i
            over[i]['voiluts'] = [li]
        c['vsel'] = rng.choice([0, 0, -1, 'V0'])
    elif mode == 'modlut':
        l0 = _lut(rng, lo_len=3, bits=rng.choice([8, 16]))
        l0['first'] = rng.choice([0, 1, 2])
        for i in range(n):
            li = dict(l0)
            if i > 0:
                top = 255 if l0['bits'] == 8 else max(max(l0['data']), 255)
                li['data'] = [rng.randint(0, top) for _ in l0['data']]
                if len(set(li['data'])) == 1:
                    li['data'][0] = (li['data'][0] + 1) % (top + 1)
            over[i]['modlut'] = li
        # a window on the table's value range
        if w0 is not None:
            vals = [v for o in over for v in o['modlut']['data']]
            w0 = _window_on(rng, F(min(vals)), F(max(vals)), 1, None, w0['fn'])
            wins = [w0] * n
    elif mode == 'mono1':
        c['pls'] = None
        ms1 = [rng.random() < 0.5 for _ in range(n)]
        if len(set(ms1)) < 2:
            ms1[order[-1]] = not ms1[order[0]]
        for i in range(n):
            over[i]['mono1'] = ms1[i]
        c['flags']['pres'] = rng.random() < 0.9
    elif mode == 'pls':
        ps = [rng.choice([None, 'IDENTITY', 'INVERSE']) for _ in range(n)]
        if len({(p == 'INVERSE') if p else c['mono1'] for p in ps}) < 2:
            ps[order[-1]] = 'IDENTITY' if ((ps[order[0]] == 'INVERSE') if ps[order[0]] else c['mono1']) else 'INVERSE'
        for i in range(n):
            over[i]['pls'] = ps[i]
        c['flags']['pres'] = rng.random() < 0.9
    elif mode == 'rwvm':
        plo, phi = ((-(2 ** (c['stored'] - 1)), 2 ** (c['stored'] - 1) - 1) if c['signed'] else (0, 2 ** c['stored'] - 1))
        sl = rng.sample(['1', '2', '3/2', '-1', '1/4', '5'], n)
        for i in range(n):
            rw[i] = [{'label': 'L0', 'unit': 0, 'kind': 'lin', 'slope': sl[i], 'icpt': _q(rng, -50, 50),
                      'first': plo, 'last': phi, 'dbl': False}]
        c['flags'].update(rwvm=rng.choice([None, None, True]), mod=rng.choice([None, False]), voi=False)
        c['rsel'] = rng.choice([0, 0, 'L0', -1])
    elif mode == 'stored':
        # BitsStored differs: the inversion of bare stored / rescaled values runs over another range
        c['alloc'] = 16
        vlo = min(x for fr in c['frames'] for x in fr)
        vhi = max(x for fr in c['frames'] for x in fr)
        if c['signed']:
            # two's complement: -2^(k-1) needs k bits (not k+1)
            need = max(max(vhi, 0).bit_length(), (-vlo - 1).bit_length() if vlo < 0 else 0) + 1
        else:
            need = vhi.bit_length()
        need = min(16, max(2, need))
        ss = [rng.choice([need, min(16, need + 1), 12, 16]) for _ in range(n)]
        ss = [max(need, min(16, v)) for v in ss]
        if len(set(ss)) < 2:
            ss[order[-1]] = 16 if ss[order[0]] != 16 else max(need, 12 if need <= 12 else need)
        c['stored'] = ss[0]
        for i in range(n):
            over[i]['stored'] = ss[i]
        c['mono1'], c['pls'] = True, rng.choice([None, None, 'INVERSE'])
        c['flags'].update(rwvm=False, voi=False, pres=rng.random() < 0.9)
    if mode in ('mono1', 'pls') and w0 is None:
        c['flags']['voi'] = rng.choice([False, None])
    if w0 is None and mode not in ('voiluts', 'window_and_rescale') and rng.random() < 0.3:
        c['dtype'] = rng.choice(['int32', 'int16', 'float64'])
    if mode != 'modlut' and all(r == (None, None) for r in res) and c['flags']['mod'] is True:
        c['flags']['mod'] = None
    c['slice_roots'] = [{'rwvm': rw[i], 'slope': res[i][0], 'icpt': res[i][1], 'win': wins[i]} for i in range(n)]
    c['root'] = c['slice_roots'][0]
    c['slice_over'] = over if any(over) else None
    if c['slice_over']:
        c.update(over[0])
    c.update(kind='series_attr', smode=mode)
    return c


def _tpm_case(rng):
    """get_total_pixel_matrix of a tiled 8-bit monochrome image, parameters in the shared group"""
    while True:
        c = _mono_case(rng, False)
        if not c['signed'] and c['alloc'] == 8 and c['modlut'] is None:
            break
    grid = rng.choice([(1, 2), (2, 1), (2, 2)])
    c['frames'] = _more_frames(rng, c, grid[0] * grid[1])
    c.update(kind='tpm', api='tpm', grid=list(grid), shared=c['root'], root=_empty_level())
    c.pop('prior', None)
    return c


# OPEN finding D106: get_frames / _get_pixels_by_frame reuse the first frame's transform when nothing of
# that frame was found in its per-frame group, so a later frame's own per-frame parameters are ignored.
# The model mirrors the code (correspondence agrees); the oracle flags it; the signature below keeps such
# cases from counting as NEW violations.  Single-frame access (get_frame) on the same data is judged as usual.
def _level_kinds(lv):
    return (lv['rwvm'] is not None, lv['slope'] is not None or lv['icpt'] is not None, lv['win'] is not None)


def _nonuniform(c):
    pf = c.get('perframe')
    return bool(pf) and len({_level_kinds(lv) for lv in pf}) > 1


def _sig_d106(c):
    return (c.get('kind') in MONO_KINDS and c.get('api') in ('get_frames', 'get_volume', 'tpm')
            and _nonuniform(c))


def _make_nonuniform(rng, c):
    """drop one kind of parameter from ONE per-frame group (the other frames keep theirs); when no kind
    is carried by every frame, give the last frame a window of its own"""
    pf = c['perframe']
    for key in rng.sample(['win', 'rwvm', 'rescale'], 3):
        keys = ('slope', 'icpt') if key == 'rescale' else (key,)
        if all(any(lv[k] is not None for k in keys) for lv in pf):
            lv = pf[rng.randrange(len(pf))]
            for k in keys:
                lv[k] = None
            break
    if not _nonuniform(c):
        for lv in pf:
            lv['win'] = None
        pf[-1]['win'] = dict(_windows(rng), expl=None)
        if c['shared']['win'] is None and rng.random() < 0.5:
            c['shared']['win'] = dict(_windows(rng), expl=None)


def _nonuniform_case(rng):
    c = _vol_case(rng)
    _make_nonuniform(rng, c)
    c['kind'] = 'mono_mf_nonuniform'
    c['api'] = rng.choice(['get_frames', 'get_frames', 'get_volume', 'get_frame'])
    if c['api'] == 'get_frames' and rng.random() < 0.4:
        k = len(c['frames'])
        c['fis'] = rng.choice([[k - 1], list(range(k - 1, -1, -1)), [k - 1, 0]])
    return c


FLAG_BASES = None


def _flag_bases():
    """three fixed datasets on which all 486 flag vectors are run"""
    global FLAG_BASES
    if FLAG_BASES is None:
        import random
        out = []
        b = {'kind': 'flags', 'signed': False, 'alloc': 8, 'stored': 4, 'rows': 1, 'cols': 3,
             'frames': [[0, 7, 15]], 'mono1': True, 'pls': None, 'modlut': None, 'voiluts': None,
             'root': {'rwvm': None, 'slope': '2', 'icpt': '-3',
                      'win': {'centers': ['10'], 'widths': ['12'], 'expl': None, 'fn': None}},
             'shared': None, 'perframe': None, 'vsel': 0, 'rsel': 0, 'yrange': ['0', '1'],
             'dtype': 'float64', 'fi': 0, 'api': 'get_frame'}
        out.append(b)
        b2 = dict(b, root=dict(b['root'], rwvm=[{'label': 'L0', 'unit': 0, 'kind': 'lin', 'slope': '3/2', 'icpt': '1',
                                                  'first': 0, 'last': 15, 'dbl': False}]))
        out.append(b2)
        b3 = dict(b, root=_empty_level(), mono1=False)
        out.append(b3)
        b4 = dict(b, root=dict(_empty_level(), slope='1', icpt='5'), mono1=False, pls='INVERSE')
        out.append(b4)
        FLAG_BASES = out
    return FLAG_BASES


def _palette_case(rng):
    bits = rng.choice([8, 16])
    alloc = rng.choice([8, 16])
    n = rng.choice([1, 2, 3, 4, 5, 8, 9, 16, 17])
    first = rng.choice([0, 0, 1, 3, rng.randint(0, 20)])
    top = 255 if bits == 8 else 65535
    data = [[rng.randint(0, top) for _ in range(n)] for _ in range(3)]
    hi = 2 ** (8 if alloc == 8 else 10) - 1
    px = _pixels(rng, 6, 0, min(hi, first + n + 3))
    fl = {'rwvm': rng.choice([None, None, False]), 'mod': rng.choice([None, None, False]),
          'voi': rng.choice([False, False, None]), 'pres': rng.random() < 0.5,
          'pal': rng.choice([None, True, True, False]), 'icc': rng.choice([None, None, False])}
    bad = None
    if rng.random() < 0.12:
        bad = rng.choice(['short', 'long', 'mismatch'])
    return {'kind': 'palette', 'alloc': alloc, 'bits': bits, 'n': n, 'first': first, 'data': data,
            'pixels': px, 'flags': fl, 'dtype': rng.choice(['float64', 'float64', 'uint8', 'uint16', 'int16', 'float32']),
            'bad': bad}


def _lut_cases(rng, n):
    out = []
    lens = [1, 2, 3, 4, 5, 255, 256, 257]
    for _ in range(n):
        bits = rng.choice([8, 16])
        L = rng.choice(lens + [rng.randint(1, 40)])
        top = 2 ** bits - 1
        data = [rng.randint(0, top) for _ in range(L)]
        if L > 1 and len(set(data)) == 1:
            data[0] = (data[0] + 1) % (top + 1)
        first = rng.choice([0, 1, 5, 65535, rng.randint(0, 65535)])
        op = rng.choice(['roundtrip', 'roundtrip_file', 'apply', 'scaled', 'inverted'])
        c = {'kind': 'lut', 'op': op, 'first': first, 'data': data, 'bits': bits}
        if op == 'apply':
            c['xs'] = [first - 2, first - 1, first, first + 1, first + L - 2, first + L - 1, first + L, first + L + 5,
                       rng.randint(first - 10, first + L + 10)]
            c['xs'] = [max(-2 ** 31, min(2 ** 31 - 1, x)) for x in c['xs']]
        if op == 'scaled':
            c['yrange'] = rng.choice([['0', '1'], ['0', '255'], ['-1', '1'], ['1/2', '3/4'], ['1', '1'], ['2', '1']])
            c['invert'] = rng.random() < 0.5
            if L > 1 and rng.random() < 0.05:
                c['data'] = [data[0]] * L      # constant table
        if L > 40:
            c['data'] = None   # generated by formula (a*i+b) mod 2^bits on both sides
            c['gen'] = [L, rng.randint(1, 999), rng.randint(0, 999)]
            if op == 'scaled':
                c['op'] = 'roundtrip'
        out.append(c)
    return out


def _gen_data(c):
    if c.get('data') is not None:
        return c['data']
    L, a, b = c['gen']
    m = 2 ** c['bits']
    return [(a * i + b) % m for i in range(L)]


def gen_cases(rng, tier):
    n = {'quick': 1, 'thorough': 12, 'search': 5}[tier]
    cases = []
    for _ in range(230 * n):
        cases.append(_mono_case(rng, False))
    for _ in range(110 * n):
        c = _mono_case(rng, True)
        if c['api'] == 'get_frames' and rng.random() < 0.5:
            # a subset / another order of the frames (the shared transform is built from the first one asked for)
            k = len(c['frames'])
            c['fis'] = rng.choice([[k - 1], list(range(k - 1, -1, -1)), [k - 1, 0], [1, 1], [0]])
        cases.append(c)
    for _ in range(36 * n):
        cases.append(_vol_case(rng))
    for _ in range(24 * n):
        cases.append(_nonuniform_case(rng))
    for _ in range(30 * n):
        cases.append(_series_case(rng))
    for i in range(44 * n):
        # every mode is drawn in every run
        cases.append(_series_voi_case(rng, SERIES_VOI_MODES[i % len(SERIES_VOI_MODES)] if i < 26 else None))
    for i in range(33 * n):
        cases.append(_series_attr_case(rng, SERIES_ATTR_MODES[i % len(SERIES_ATTR_MODES)] if i < 22 else None))
    for _ in range(24 * n):
        cases.append(_tpm_case(rng))
    # all flag vectors on the fixed datasets (quick: every vector on one of them, round-robin)
    vecs = list(itertools.product(TRI, TRI, TRI, [True, False], TRI, TRI))
    bases = _flag_bases()
    for i, (a, b, c_, p, pa, ic) in enumerate(vecs):
        for j, base in enumerate(bases):
            if tier == 'quick' and (i + j) % len(bases) != 0 and rng.random() > 0.1:
                continue
            cases.append(dict(base, flags={'rwvm': a, 'mod': b, 'voi': c_, 'pres': p, 'pal': pa, 'icc': ic}))
    for _ in range(60 * n):
        cases.append(_palette_case(rng))
    cases += _lut_cases(rng, 70 * n)
    # 65535 / 65536-entry tables
    for L in ([65535, 65536] if tier == 'quick' else [65535, 65536, 65536, 65534, 32768]):
        for bits in ([16] if tier == 'quick' else [8, 16]):
            cases.append({'kind': 'lut_big', 'bits': bits, 'first': rng.choice([0, 7, 65535]),
                          'gen': [L, rng.randint(1, 999), rng.randint(0, 999)], 'file': rng.random() < 0.5})
    for _ in range(12 * n):
        what = rng.choice(['neg_first', 'big_first', 'empty', 'too_long', 'dtype', 'ndim'])
        cases.append({'kind': 'lut_err', 'what': what, 'bits': rng.choice([8, 16])})
    for _ in range(60 * n):
        w = _windows(rng) if rng.random() < 0.75 else None
        luts = None
        if w is None or rng.random() < 0.35:
            luts = [_lut(rng, lo_len=2, expl=(f'V{i}' if rng.random() < 0.7 else None), bits=16)
                    for i in range(rng.choice([1, 2, 3]))]
        cases.append({'kind': 'voi_apply', 'win': w, 'luts': luts,
                      'sel': rng.choice([0, 0, 0, 0, -1, -1, 1, 2, -3, 'W0', 'V0', 'V0', 'V1', 'nope']),
                      'yrange': rng.choice([['0', '1'], ['0', '255'], ['-1', '1']]),
                      'invert': rng.random() < 0.4, 'prefer_lut': rng.random() < 0.5,
                      'xs': _pixels(rng, 6, -50, 700)})
    for _ in range(40 * n):
        lo = rng.choice([0, 0, -8, 3])
        hi = lo + rng.choice([3, 7, 15])
        r = _rwvms(rng, lo, hi)[0]
        xs = _pixels(rng, 5, lo, hi)
        if rng.random() < 0.25:
            xs[rng.randrange(5)] = rng.choice([lo - 1, hi + 1])
        cases.append({'kind': 'rwvm_apply', 'r': r, 'xs': xs})
    for _ in range(50 * n):
        cases.append({'kind': 'window', 'fn': rng.choice(FN), 'c': _q(rng, -100, 300),
                      'w': str(F(rng.randint(3, 600), rng.choice([1, 2]))),
                      'yrange': rng.choice([['0', '1'], ['0', '255'], ['-1', '1'], ['1', '0'], ['1', '1']]),
                      'invert': rng.random() < 0.5,
                      'xs': [str(F(rng.randint(-400, 900), rng.choice([1, 1, 2, 4]))) for _ in range(6)]})
    # malformed stream: each guard violated on an otherwise valid image
    for _ in range(45 * n):
        c = _mono_case(rng, rng.random() < 0.3)
        what = rng.choice(['yrange', 'vsel_missing', 'rsel_missing', 'nonint_slope_lut', 'int_dtype_window',
                           'both_true', 'voi_without_mod', 'require_absent', 'user_multi', 'lut_on_int8'])
        c['kind'] = 'malformed'
        c['what'] = what
        lvl = c['root'] if c['perframe'] is None else c['shared']
        if what == 'yrange':
            c['yrange'] = rng.choice([['1', '1'], ['2', '1']])
        elif what == 'vsel_missing':
            c['vsel'] = rng.choice([5, -7, 'nope'])
            c['flags'].update(voi=True, mod=None, rwvm=False)
        elif what == 'rsel_missing':
            c['rsel'] = rng.choice([4, -9, 'nope', {'code': 9}])
            c['flags'].update(rwvm=rng.choice([True, None]), mod=None, voi=False)
        elif what == 'nonint_slope_lut':
            c['modlut'] = None
            lvl['slope'], lvl['icpt'] = rng.choice([('3/2', '0'), ('1', '1/2'), ('2', '1')])
            lvl['win'] = None
            for p in c['perframe'] or []:
                p['slope'] = p['icpt'] = p['win'] = None
            c['voiluts'] = [_lut(rng, lo_len=2, bits=16)]
            c['voiluts'][0]['first'] = 0
            c['flags'].update(voi=True, mod=None, rwvm=False)
            c['vsel'] = 0
        elif what == 'int_dtype_window':
            c['dtype'] = rng.choice(['int16', 'uint8', 'int32'])
            c['flags'].update(voi=True, mod=None, rwvm=False)
        elif what == 'both_true':
            c['flags'].update(rwvm=True, mod=True)
        elif what == 'voi_without_mod':
            c['flags'].update(mod=False, voi=rng.choice([True, None]))
        elif what == 'require_absent':
            k = rng.choice(['rwvm', 'mod', 'voi'])
            c['flags'].update({k: True})
            if k == 'mod':
                c['flags']['rwvm'] = rng.choice([False, None])
                c['modlut'] = None
                for l in [c['root'], c['shared']] + (c['perframe'] or []):
                    if l:
                        l['slope'] = l['icpt'] = None
            elif k == 'voi':
                c['flags'].update(rwvm=False, mod=None)
                c['voiluts'] = None
                for l in [c['root'], c['shared']] + (c['perframe'] or []):
                    if l:
                        l['win'] = None
            else:
                c['flags']['mod'] = rng.choice([False, None])
                c['flags']['voi'] = False
                for l in [c['root'], c['shared']] + (c['perframe'] or []):
                    if l:
                        l['rwvm'] = None
        elif what == 'user_multi':
            c['vsel'] = {'userwin': [['10', '20'], ['30', '40']], 'fn': None} if rng.random() < 0.5 else \
                {'userlut': [_lut(rng, lo_len=2, bits=16), _lut(rng, lo_len=2, bits=16)]}
            c['flags'].update(voi=True, mod=None, rwvm=False)
        elif what == 'lut_on_int8':
            if c['modlut'] is None and not c['signed'] and c['perframe'] is None:
                c['modlut'] = _lut(rng, bits=16)
                lvl['slope'] = lvl['icpt'] = None
            c['dtype'] = rng.choice(['int8', 'uint8', 'float32'])
            c['flags'].update(voi=False, mod=None, rwvm=False)
        cases.append(c)
    rng.shuffle(cases)      # balance the Coq shards (multi-frame cases are the slow ones)
    # ---- memory layouts (drawn after everything else: the stream of the cases above is unchanged) ----
    import random
    lrng = random.Random(rng.getrandbits(64))
    for c in cases:
        _assign_layouts(lrng, c)
    extra = []
    for i in range(70 * n):
        extra.append(_lut_layout_case(lrng, preset=i % len(LAYOUT_PRESETS) if i < 2 * len(LAYOUT_PRESETS) else None))
    for _ in range(45 * n):
        extra.append(_mono_lut_layout_case(lrng))
    # histories: every shape x every transform at least once per run, then random ones
    hrng = random.Random(lrng.getrandbits(64))
    combos = [(sh, tr) for tr in sorted(set(HIST_TRANSFORMS)) for sh in ('single', 'multi', 'tpm')]
    hrng.shuffle(combos)
    for i in range(60 * n):
        sh, tr = combos[i] if i < len(combos) else (None, None)
        c = _hist_case(hrng, sh, tr)
        _assign_layouts(hrng, c)
        extra.append(c)
    for i in range(24 * n):
        c = _series_hist_case(hrng, ['icpt', 'slope_icpt', 'identity', 'none', 'icpt_invert', 'rwvm', 'window'][i]
                              if i < 7 else None)
        _assign_layouts(hrng, c)
        extra.append(c)
    # every focus x every accessor at least once per run
    combos = [(f, a) for f in MF_FOCUS for a in MF_APIS]
    hrng.shuffle(combos)
    for i in range(66 * n):
        f, a = combos[i] if i < len(combos) else (None, None)
        c = _mf_options_case(hrng, f, a, strict=i < len(combos))
        _assign_layouts(hrng, c)
        extra.append(c)
    for c in extra:
        cases.insert(lrng.randrange(len(cases) + 1), c)
    return cases


# the layouts every run draws at least twice for stand-alone tables (then random ones)
LAYOUT_PRESETS = [
    None,
    {'big': False, 'step': 1, 'lead': 0, 'trail': 0, 'how': 'view', 'byteoff': 0, 'ro': False},     # explicit '<u2'
    {'big': True, 'step': 1, 'lead': 0, 'trail': 0, 'how': 'view', 'byteoff': 0, 'ro': False},      # arr.astype('>u2')
    {'big': False, 'step': 2, 'lead': 0, 'trail': 0, 'how': 'view', 'byteoff': 0, 'ro': False},     # strided view
    {'big': True, 'step': 2, 'lead': 1, 'trail': 0, 'how': 'view', 'byteoff': 0, 'ro': False},      # big-endian strided view
    {'big': False, 'step': -1, 'lead': 0, 'trail': 0, 'how': 'view', 'byteoff': 0, 'ro': False},    # reversed view
    {'big': True, 'step': -1, 'lead': 0, 'trail': 2, 'how': 'view', 'byteoff': 0, 'ro': False},     # big-endian reversed
    {'big': True, 'step': 1, 'lead': 0, 'trail': 0, 'how': 'buffer', 'byteoff': 0, 'ro': False},    # np.frombuffer(raw, '>u2')
    {'big': True, 'step': 1, 'lead': 0, 'trail': 0, 'how': 'buffer', 'byteoff': 1, 'ro': False},    # ... unaligned
    {'big': False, 'step': 1, 'lead': 3, 'trail': 0, 'how': 'buffer', 'byteoff': 1, 'ro': False},   # little-endian unaligned
    {'big': True, 'step': 3, 'lead': 0, 'trail': 0, 'how': 'view', 'byteoff': 0, 'ro': True},       # read-only
]


def _each_lut(c):
    """every LUT dict of a case (each object once)"""
    seen, out = set(), []

    def add(l):
        if l is not None and id(l) not in seen:
            seen.add(id(l))
            out.append(l)
    k = c['kind']
    if k in MONO_KINDS:
        add(c.get('modlut'))
        for l in c.get('voiluts') or []:
            add(l)
        if isinstance(c.get('vsel'), dict):
            for l in c['vsel'].get('userlut') or []:
                add(l)
        for o in c.get('slice_over') or []:
            add(o.get('modlut'))
            for l in o.get('voiluts') or []:
                add(l)
    elif k == 'voi_apply':
        for l in c.get('luts') or []:
            add(l)
    return out


def _assign_layouts(rng, c, p_native=0.4):
    """give every table of the case (and the input arrays of the stand-alone objects) a memory layout"""
    k = c['kind']
    for l in _each_lut(c):
        l['layout'] = _rand_layout(rng, p_native)
    if k in ('lut', 'lut_big'):
        c['layout'] = _rand_layout(rng, p_native)
        c['cls'] = rng.choice(LUT_CLASSES)
        if k == 'lut' and c.get('op') == 'apply':
            c['xlayout'] = _rand_layout(rng, 0.5)
    elif k in ('voi_apply', 'window'):
        c['xlayout'] = _rand_layout(rng, 0.5)
    elif k == 'rwvm_apply':
        c['xlayout'] = _rand_layout(rng, 0.5)
        if c['r']['kind'] == 'lut' and rng.random() < 0.6:
            c['tlayout'] = _rand_layout(rng, 0.2)
    elif k == 'palette' and not c.get('bad') and rng.random() < 0.6:
        c['via'] = 'objects'
        c['chan_layouts'] = [_rand_layout(rng, 0.3) for _ in range(3)]


def _lut_layout_case(rng, preset=None):
    """a stand-alone table handed to LUT / VOILUT / ModalityLUT / PresentationLUT in a memory layout; the
    model is given the array's memory.  16-bit tables carry at least one entry whose two bytes differ"""
    bits = rng.choice([16, 16, 16, 8])
    L = rng.choice([1, 1, 2, 3, 4, 5, 7, 8, 9, 16, 31, rng.randint(1, 40)])
    top = 2 ** bits - 1
    mode = rng.choice(['rand', 'rand', 'low', 'ramp'])
    if mode == 'rand':
        data = [rng.randint(0, top) for _ in range(L)]
    elif mode == 'low':
        data = [rng.randint(0, min(top, 255)) for _ in range(L)]       # high byte 0: swapped = v * 256
    else:
        a, b = rng.randint(1, 999), rng.randint(0, top)
        data = [(a * i + b) % (top + 1) for i in range(L)]
    if bits == 16 and all(v % 256 == v // 256 for v in data):
        data[rng.randrange(L)] = rng.choice([300, 65000, 1, 256, 4000])
    first = rng.choice([0, 1, 5, 65535, rng.randint(0, 65535)])
    lay = dict(LAYOUT_PRESETS[preset] or {}) or None if preset is not None else _rand_layout(rng, 0.1, 0.7)
    xs = [first - 2, first - 1, first, first + 1, first + L - 2, first + L - 1, first + L, first + L + 5,
          rng.randint(first - 10, first + L + 10)]
    xcode = rng.choice(['i8', 'i8', 'i4', 'i2'])
    lim = 2 ** (8 * ITEM_OF[xcode] - 1)
    xs = [max(-lim, min(lim - 1, x)) for x in xs]
    return {'kind': 'lut_layout', 'cls': rng.choice(LUT_CLASSES), 'first': first, 'data': data, 'bits': bits,
            'layout': lay, 'file': rng.random() < 0.3, 'xs': xs, 'xcode': xcode, 'xlayout': _rand_layout(rng, 0.5)}


def _mono_lut_layout_case(rng):
    """an image that carries lookup tables (Modality LUT, VOI LUTs, or a user VOI LUT given through
    voi_transform_selector) built from arrays in NON-native memory layouts, read through get_frame /
    get_frames with the stages that use them switched on"""
    while True:
        c = _mono_case(rng, rng.random() < 0.25)
        c.pop('prior', None)
        if c['dtype'] not in ('float64', 'float32'):
            c['dtype'] = 'float64'
        how = rng.choice(['keep', 'modlut', 'voilut', 'userlut', 'both'])
        lvls = [c['root'], c['shared']] + (c['perframe'] or [])
        if how != 'keep':
            for lv in lvls:
                if lv:
                    lv['rwvm'] = None
            c['flags'].update(rwvm=False, mod=rng.choice([None, True]), pal=None, icc=None)
        if how in ('modlut', 'both') and not c['signed'] and c['perframe'] is None:
            for lv in lvls:
                if lv:
                    lv['slope'] = lv['icpt'] = None
            c['modlut'] = _lut(rng, lo_len=3, bits=rng.choice([8, 16, 16]))
            c['modlut']['first'] = rng.choice([0, 1, 2])
            if how == 'modlut':
                c['voiluts'] = None
                c['flags']['voi'] = rng.choice([False, None])
        if how in ('voilut', 'both') and not c['signed']:
            for lv in lvls:
                if lv:
                    lv['win'] = None
                    if how == 'voilut':
                        lv['slope'] = lv['icpt'] = None
            if how == 'voilut':
                c['modlut'] = None
            c['voiluts'] = [_lut(rng, lo_len=2, expl=f'V{i}', bits=16, maxfirst=20) for i in range(rng.choice([1, 2]))]
            c['vsel'] = rng.choice([0, -1, 'V0'])
            c['flags'].update(voi=rng.choice([None, True]), mod=None)
        if how == 'userlut':
            c['vsel'] = {'userlut': [_lut(rng, lo_len=2, bits=16)]}
            c['flags'].update(voi=True, mod=None)
        if _each_lut(c):
            break
    c['kind'] = 'mono_lut_layout'
    for l in _each_lut(c):
        l['layout'] = _rand_layout(rng, 0.0, 0.75)
    return c


# --------------------------------------------------------------------------
# histories: ONE object asked several times (stored-value cache, reads in the stored dtype)
# --------------------------------------------------------------------------
def _stored_dtype_name(c):
    return {(8, False): 'uint8', (8, True): 'int8', (16, False): 'uint16', (16, True): 'int16'}[(c['alloc'], c['signed'])]


HIST_TRANSFORMS = ['icpt', 'icpt', 'icpt', 'slope_icpt', 'identity', 'none', 'invert', 'icpt_invert', 'rwvm', 'window',
                   'random']
HIST_SHAPES = ['single', 'single', 'multi', 'multi', 'tpm']


def _hist_base(rng, shape, tr):
    """an image on which a read in the STORED dtype is acceptable (BitsStored < BitsAllocated leaves head
    room for the intercept): single frame, multi-frame stack (get_volume applies) or tiled (tpm)"""
    if tr == 'random':
        c = _tpm_case(rng) if shape == 'tpm' else _vol_case(rng) if shape == 'multi' else _mono_case(rng, False)
        c.pop('prior', None)
        if c['dtype'] == 'float32':
            c['dtype'] = 'float64'
        return c
    signed = False if shape == 'tpm' else rng.random() < 0.6
    alloc = 8 if shape == 'tpm' else rng.choice([16, 16, 16, 8])
    stored = rng.choice([10, 12, 12]) if alloc == 16 else rng.choice([4, 5, 6])
    lo, hi = (-(2 ** (stored - 1)), 2 ** (stored - 1) - 1) if signed else (0, 2 ** stored - 1)
    rows, cols = rng.choice([(1, 2), (2, 2), (2, 3), (1, 1)])
    grid = rng.choice([(1, 2), (2, 1), (2, 2)])
    nframes = {'single': 1, 'multi': rng.choice([2, 3]), 'tpm': grid[0] * grid[1]}[shape]
    plo, phi = max(lo, -300), min(hi, 700)
    frames = [_pixels(rng, rows * cols, plo, phi) for _ in range(nframes)]
    for fr in frames:
        if len(set(fr)) == 1 and len(fr) > 1:
            fr[0] = plo if fr[0] != plo else phi
    c = {'kind': 'mono_hist', 'signed': signed, 'alloc': alloc, 'stored': stored, 'rows': rows, 'cols': cols,
         'frames': frames, 'mono1': False, 'pls': None, 'modlut': None, 'voiluts': None, 'root': _empty_level(),
         'shared': None if shape == 'single' else _empty_level(),
         'perframe': None if shape in ('single', 'tpm') else [_empty_level() for _ in range(nframes)],
         'vsel': 0, 'rsel': 0, 'yrange': ['0', '1'], 'fi': 0,
         'flags': {'rwvm': False, 'mod': rng.choice([None, None, True]), 'voi': False, 'pres': True, 'pal': None,
                   'icc': None}}
    if shape == 'multi':
        zs = [2.5 * i for i in range(nframes)]
        rng.shuffle(zs)
        c['zs'] = zs
    if shape == 'tpm':
        c['grid'] = list(grid)
        if rng.random() < 0.5:
            c['perframe'] = [_empty_level() for _ in range(nframes)]
    ks = ([-1024, -1024, 50, 7, -3, 1000] if signed else [50, 1024, 7, 1]) if alloc == 16 else \
        ([10, -3, 7] if signed else [10, 7, 100])

    def levels(per_frame_values):
        """the levels that carry the parameter: root (single), shared, or every per-frame group (with a
        different value in every frame when a list of values is given)"""
        if shape == 'single':
            return [c['root']]
        if c['perframe'] is not None and rng.random() < 0.5:
            return c['perframe']
        return [c['shared']]
    if tr in ('icpt', 'slope_icpt', 'identity', 'icpt_invert'):
        m = 1 if tr != 'slope_icpt' else rng.choice([2, 3] + ([-1] if signed else []))
        lv = levels(True)
        kk = rng.sample(ks, min(len(ks), len(lv))) if len(lv) > 1 else [rng.choice(ks)]
        if alloc == 8 and m != 1:
            kk = [rng.choice([10, 7]) for _ in lv]
        for i, l in enumerate(lv):
            l['slope'] = str(m)
            l['icpt'] = '0' if tr == 'identity' else str(kk[i % len(kk)])
    if tr in ('invert', 'icpt_invert'):
        c['mono1'] = True
        c['pls'] = rng.choice([None, None, 'INVERSE'])
        if tr == 'invert':
            c['flags']['mod'] = None
    if tr == 'rwvm':
        lv = levels(True)
        for i, l in enumerate(lv):
            l['rwvm'] = [{'label': 'L0', 'unit': 0, 'kind': 'lin', 'slope': '1', 'icpt': str(rng.choice(ks)),
                          'first': lo, 'last': hi, 'dbl': False}]
        c['flags'].update(rwvm=rng.choice([None, True]), mod=None)
    if tr == 'window':
        lv = levels(False)
        m, b = rng.choice([(1, ks[0]), (2, 0), (1, 0)])
        for l in lv:
            l['slope'], l['icpt'] = str(m), str(b)
            vlo, vhi = _value_range(c, m, b)
            l['win'] = _window_on(rng, vlo, vhi, 1, None, rng.choice([None] + FN))
        c['flags'].update(voi=rng.choice([None, True]), mod=None)
    if tr == 'none':
        c['flags']['mod'] = None
    sd = _stored_dtype_name(c)
    c['dtype'] = 'float64' if tr == 'window' else (sd if rng.random() < 0.7 else
                                                   rng.choice(['float64', 'int32', 'int16', 'int64']))
    return c


def _hist_ops(rng, c, shape):
    """a history: reads of the same frames in the case's dtype (mostly the stored dtype) and in other
    dtypes, with the stored-value cache filled up front (75 %) or in between, closed by get_stored_frame and
    .pixel_array (the stored values must still be what was written)"""
    n = len(c['frames'])
    main = c['dtype']
    sd = _stored_dtype_name(c)
    ft = rng.randrange(n)                       # the frame that is read again and again
    others = [d for d in ('float64', 'int32', sd) if d != main]
    if c['flags']['voi'] is not False and any(lv and lv['win'] for lv in [c['root'], c['shared']] + (c['perframe'] or [])):
        others = ['float64']

    def read(dt):
        if shape == 'single':
            return {'op': 'frame', 'dtype': dt, 'fi': 0}
        r = rng.random()
        if r < 0.4:
            return {'op': 'frame', 'dtype': dt, 'fi': ft if rng.random() < 0.8 else rng.randrange(n)}
        if r < 0.7:
            return {'op': 'frames', 'dtype': dt,
                    'fis': rng.choice([list(range(n)), [ft], [ft, ft], list(range(n - 1, -1, -1)), [n - 1, ft]])}
        return {'op': 'tpm' if shape == 'tpm' else 'volume', 'dtype': dt}
    ops = []
    warm_first = rng.random() < 0.75
    if warm_first:
        ops.append({'op': 'touch'})
    for i in range(rng.choice([2, 2, 3])):
        ops.append(read(main if rng.random() < 0.8 else rng.choice(others)))
        if not warm_first and i == 0:
            ops.append({'op': 'touch'})
    ops.append(read(rng.choice(others + [main])))
    ops.append({'op': 'stored', 'fi': ft})
    ops.append({'op': 'touch'})
    return ops


def _hist_case(rng, shape=None, tr=None):
    shape = shape or rng.choice(HIST_SHAPES)
    tr = tr or rng.choice(HIST_TRANSFORMS)
    c = _hist_base(rng, shape, tr)
    c.update(kind='mono_hist', api='hist', hshape=shape, htr=tr)
    c['ops'] = _hist_ops(rng, c, shape)
    return c


def _series_hist_case(rng, tr=None):
    """hd.get_volume_from_series called several times on the SAME datasets (it reads Dataset.pixel_array,
    which pydicom caches on the dataset), then the datasets' pixel_array"""
    tr = tr or rng.choice(['icpt', 'icpt', 'icpt', 'slope_icpt', 'identity', 'none', 'icpt_invert', 'rwvm', 'window'])
    c = _hist_base(rng, 'single', tr)
    n = rng.choice([2, 3, 3, 4])
    c['frames'] = _more_frames(rng, c, n)
    zs = [2.5 * i for i in range(n)]
    rng.shuffle(zs)
    roots = [dict(c['root']) for _ in range(n)]
    if c['root']['icpt'] not in (None, '0') and c['root']['win'] is None and rng.random() < 0.5:
        # another intercept on every slice (same sign: the stored dtype stays acceptable)
        b = int(c['root']['icpt'])
        for i, r in enumerate(roots):
            r['icpt'] = str(b + (i if b > 0 else -i))
    main = c['dtype']
    sd = _stored_dtype_name(c)
    others = ['float64'] if tr == 'window' else [d for d in ('float64', 'int32', sd) if d != main]
    ops = [{'op': 'touch'}] if rng.random() < 0.4 else []
    for _ in range(rng.choice([2, 2, 3])):
        ops.append({'op': 'series', 'dtype': main if rng.random() < 0.8 else rng.choice(others)})
    if rng.random() < 0.5:
        ops.append({'op': 'series', 'dtype': rng.choice(others)})
    ops.append({'op': 'touch'})
    c.update(kind='series_hist', api='series_hist', zs=zs, slice_roots=roots, slice_over=None, ops=ops, htr=tr)
    return c


# --------------------------------------------------------------------------
# mf_options: per-frame transforms x every option of the several-frames accessors
# --------------------------------------------------------------------------
MF_FOCUS = ['vsel_idx', 'vsel_neg', 'vsel_str', 'vsel_userwin', 'vsel_userlut', 'vsel_lut_idx', 'rsel', 'yrange',
            'pres', 'mod_false', 'mod_true', 'voi_false', 'rwvm_false', 'dtype']
MF_APIS = ['get_volume', 'tpm', 'get_frames']


def _mf_options_case(rng, focus=None, api=None, strict=False):
    """a multi-frame image whose combined transform differs from frame to frame, read in ONE call with one
    option away from its default (the option must reach the transform of EVERY frame)"""
    focus = focus or rng.choice(MF_FOCUS)
    api = api or rng.choice(MF_APIS)
    lut_focus = focus in ('vsel_userlut', 'vsel_lut_idx')
    signed = False if (api == 'tpm' or lut_focus) else rng.random() < 0.4
    alloc = 8 if api == 'tpm' else 16
    stored = rng.choice([5, 6, 8]) if alloc == 8 else rng.choice([8, 10, 12])
    if focus in ('rsel', 'rwvm_false', 'mod_true'):
        stored = rng.choice([4, 5])
    lo, hi = (-(2 ** (stored - 1)), 2 ** (stored - 1) - 1) if signed else (0, 2 ** stored - 1)
    rows, cols = rng.choice([(1, 2), (2, 2), (2, 3)])
    grid = rng.choice([(1, 2), (2, 1), (2, 2)])
    n = grid[0] * grid[1] if api == 'tpm' else rng.choice([2, 3, 4])
    frames = [_pixels(rng, rows * cols, lo, hi) for _ in range(n)]
    for fr in frames:
        if len(set(fr)) == 1 and len(fr) > 1:
            fr[0] = lo if fr[0] != lo else hi
    c = {'kind': 'mf_options', 'api': api, 'focus': focus, 'signed': signed, 'alloc': alloc, 'stored': stored,
         'rows': rows, 'cols': cols, 'frames': frames, 'mono1': False, 'pls': None, 'modlut': None, 'voiluts': None,
         'root': _empty_level(), 'shared': _empty_level(), 'perframe': [_empty_level() for _ in range(n)],
         'vsel': 0, 'rsel': 0, 'yrange': ['0', '1'], 'dtype': 'float64', 'fi': 0,
         'flags': {'rwvm': False, 'mod': rng.choice([None, None, True]), 'voi': rng.choice([None, True]),
                   'pres': True, 'pal': None, 'icc': None}}
    if api == 'tpm':
        c['grid'] = list(grid)
    else:
        zs = [2.5 * i for i in range(n)]
        rng.shuffle(zs)
        c['zs'] = zs
    if api == 'get_frames' and rng.random() < 0.5:
        c['fis'] = rng.choice([list(range(n - 1, -1, -1)), [n - 1], [n - 1, 0], [1, 1], [0, n - 1]])
    pf = c['perframe']
    # ---- what differs from frame to frame
    if focus in ('rsel', 'rwvm_false', 'mod_true'):
        layout = 'R'
    elif lut_focus:
        layout = 'BL'
    elif focus in ('mod_false', 'dtype'):
        layout = 'B0'
    else:
        layout = rng.choice(['A', 'A', 'B', 'B', 'AB'])
    c['layout'] = layout
    k = rng.choice([2, 2, 3])
    expl = [f'W{i}' for i in range(k)] if (focus == 'vsel_str' or rng.random() < 0.4) else None
    fn = rng.choice([None, None, None, 'LINEAR', 'LINEAR_EXACT', 'LINEAR_EXACT', 'SIGMOID'])
    if fn == 'SIGMOID':
        # (the exp table handed to the model grows with windows x rescales x values: keep these small)
        k = 2
        expl = expl[:2] if expl else None
        c['rows'], c['cols'] = 1, 2
        c['frames'] = [fr[:2] if fr[0] != fr[1] else [lo, hi] for fr in frames]
    if layout in ('B', 'AB', 'B0', 'BL'):
        if layout == 'BL':
            ms = [1] * n
        elif focus == 'dtype':
            ms = [rng.choice([1, 2, 3]) for _ in range(n)]
            if (strict and api != 'get_frames') or rng.random() < 0.4:
                # a slope that an integer dtype cannot take, NOT on the frame the up-front transform is built for
                # (the dtype must reach the transform of every frame: the call is refused, not truncated)
                ms[rng.randrange(1, n)] = F(3, 2)
        else:
            ms = [rng.choice([1, 2, 3, -1, F(1, 2), F(3, 2)]) for _ in range(n)]
        bs = rng.sample([0, -100, 10, -3, 7, 100, 25, -50], n)
        for lv, m, b in zip(pf, ms, bs):
            lv['slope'], lv['icpt'] = str(m), str(b)
        res = [(F(m), F(b)) for m, b in zip(ms, bs)]
    else:
        m, b = rng.choice([(None, None), (1, -100), (2, 10), (1, 0), (F(1, 2), 7)])
        if m is not None:
            c['shared']['slope'], c['shared']['icpt'] = str(m), str(b)
        else:
            c['flags']['mod'] = None
        res = [(F(m or 1), F(b or 0))] * n
    vlo = min(min(m_ * lo + b_, m_ * hi + b_) for m_, b_ in res)
    vhi = max(max(m_ * lo + b_, m_ * hi + b_) for m_, b_ in res)
    if layout in ('A', 'AB'):
        prev = None
        for i, lv in enumerate(pf):
            a_, b_ = min(res[i][0] * lo, res[i][0] * hi) + res[i][1], max(res[i][0] * lo, res[i][0] * hi) + res[i][1]
            w = _window_on(rng, a_, b_, k, list(expl) if expl else None, fn) if prev is None else \
                _other_window(rng, a_, b_, prev)
            if prev is not None:
                w['expl'] = list(expl) if expl else None
            if focus == 'vsel_str' and rng.random() < 0.5:
                w['expl'] = list(reversed(w['expl']))     # the explanation sits at another index in this frame
            lv['win'] = w
            prev = w
    elif layout == 'B':
        c['shared']['win'] = _window_on(rng, vlo, vhi, k, list(expl) if expl else None, fn)
    elif layout == 'BL':
        c['voiluts'] = []
        for i in range(2):
            l = _lut(rng, lo_len=3, expl=f'V{i}', bits=16)
            l['first'] = max(0, int(vlo) + rng.randint(0, 6))
            c['voiluts'].append(l)
        if focus == 'vsel_userlut' and rng.random() < 0.5:
            c['voiluts'] = None
            c['shared']['win'] = _window_on(rng, vlo, vhi, 1, None, None)
    elif layout == 'R':
        sl = rng.sample(['1', '2', '3/2', '-1', '1/4', '5', '3', '-2'], 2 * n)
        for i, lv in enumerate(pf):
            lv['rwvm'] = [{'label': f'L{j}', 'unit': j, 'kind': 'lin', 'slope': sl[2 * i + j], 'icpt': _q(rng, -50, 50),
                           'first': lo, 'last': hi, 'dbl': False} for j in range(2)]
            if rng.random() < 0.3:
                lv['rwvm'].reverse()            # label / unit at another index in this frame
        if focus in ('rwvm_false', 'mod_true') or rng.random() < 0.4:
            bs = rng.sample([0, -100, 10, -3, 7, 100], n)
            for lv, b in zip(pf, bs):
                lv['slope'], lv['icpt'] = '1', str(b)
        c['flags'].update(rwvm=rng.choice([None, True]), mod=None, voi=False)
    # ---- the option away from its default
    if focus == 'vsel_idx':
        c['vsel'] = rng.choice([1, 1, k - 1])
    elif focus == 'vsel_neg':
        c['vsel'] = rng.choice([-1, -1, -k + 1] if k > 2 else [-1])
    elif focus == 'vsel_str':
        c['vsel'] = rng.choice(expl[1:])
    elif focus == 'vsel_userwin':
        c['vsel'] = {'userwin': [[str(vlo + (vhi - vlo) * F(rng.randint(2, 6), 8))],
                                 [str(max(F(3), (vhi - vlo) * F(rng.choice([2, 3, 5]), 4)))]],
                     'fn': rng.choice([None] + FN)}
        c['flags']['voi'] = True
    elif focus == 'vsel_userlut':
        l = _lut(rng, lo_len=3, bits=16)
        l['first'] = max(0, int(vlo) + rng.randint(0, 6))
        c['vsel'] = {'userlut': [l]}
        c['flags']['voi'] = True
    elif focus == 'vsel_lut_idx':
        c['vsel'] = rng.choice([1, -1, 'V1'])
    elif focus == 'rsel':
        c['rsel'] = rng.choice([1, -1, 'L1', {'code': 1}])
    elif focus == 'yrange':
        c['yrange'] = rng.choice([['0', '255'], ['-1', '1'], ['1/2', '3/4'], ['10', '20']])
    elif focus == 'pres':
        # the image asks for inversion, the caller switches the presentation stage off (default: on)
        c['mono1'] = rng.random() < 0.7
        c['pls'] = rng.choice([None, None, 'INVERSE']) if c['mono1'] else 'INVERSE'
        c['flags']['pres'] = False
    elif focus == 'mod_false':
        c['flags'].update(mod=False, voi=False)
    elif focus == 'voi_false':
        c['flags']['voi'] = False
    elif focus == 'rwvm_false':
        # real world value maps present but switched off: the (per-frame) modality rescale applies instead
        c['flags'].update(rwvm=False, mod=None, voi=False)
    elif focus == 'mod_true':
        # modality REQUIRED: the real world value maps (used when present, by default) are superseded
        c['flags'].update(rwvm=None, mod=True, voi=False)
    elif focus == 'dtype':
        c['flags']['voi'] = False
        c['dtype'] = rng.choice(['int32', 'int16', 'float32', 'int64'] if api == 'get_frames' else
                                ['int32', 'int16', 'int64'])
    # a second option away from its default now and then (pairs)
    if focus.startswith('vsel') and rng.random() < 0.3:
        c['yrange'] = rng.choice([['0', '255'], ['-1', '1']])
    if focus in ('vsel_idx', 'vsel_neg', 'yrange') and rng.random() < 0.3:
        c['mono1'] = True
    return c


# --------------------------------------------------------------------------
# building real datasets
# --------------------------------------------------------------------------
UNITS = {0: ('1', 'UCUM', 'no units'), 1: ('mm', 'UCUM', 'millimeter'), 2: ('[hnsf\'U]', 'UCUM', 'Hounsfield unit'),
         9: ('s', 'UCUM', 'second')}


def _np_dtype(c):
    import numpy as np
    return {(8, False): np.uint8, (8, True): np.int8, (16, False): np.uint16, (16, True): np.int16}[(c['alloc'], c['signed'])]


# --------------------------------------------------------------------------
# memory layout of numpy arrays handed to the API (tables and input arrays)
# --------------------------------------------------------------------------
# A layout is None (= np.array(values, dtype): native byte order, contiguous, owns its data) or a dict
#   big     16/32/64-bit items in big-endian byte order (dtype '>u2' ...)
#   step    the array is the view own[start::step] of a larger array (step 1, 2, 3, -1, -2 ...)
#   lead    number of foreign items in front of the first item (and `trail` behind the last one)
#   how     'view' (slice of an owning array) | 'buffer' (np.frombuffer over an immutable bytes object,
#           optionally `byteoff` extra bytes in front: read-only and, for byteoff = 1, unaligned)
#   ro      read-only flag set
# The logical values of the array are ALWAYS the given values; only the memory differs.
ITEM_OF = {'u1': 1, 'u2': 2, 'i2': 2, 'i4': 4, 'i8': 8, 'f8': 8}


def _rand_layout(rng, p_native=0.4, p_big=0.6):
    if rng.random() < p_native:
        return None
    lay = {'big': rng.random() < p_big, 'step': rng.choice([1, 1, 1, 2, 3, -1, -2]),
           'lead': rng.choice([0, 0, 1, 3]), 'trail': rng.choice([0, 0, 2]),
           'how': rng.choice(['view', 'view', 'view', 'buffer']), 'byteoff': 0, 'ro': rng.random() < 0.15}
    if lay['how'] == 'buffer' and rng.random() < 0.5:
        lay['byteoff'] = 1
    return lay


def _filler(i, code):
    """junk in the foreign items of the owning buffer (a wrong stride / offset must be visible)"""
    v = (40503 * (i + 1) + 12345) % 65536
    return float(v) + 0.5 if code == 'f8' else (v % 251 if code in ('u1',) else v % 30000)


def _mem_array(values, code, lay):
    """(numpy array with the given logical values and memory layout, memory description).
    code in ITEM_OF; the description (buffer bytes, byte offset, byte stride, count, item size, big) is what
    the Coq model of the array (C06_Model.v nparr) is given"""
    import numpy as np
    n = len(values)
    item = ITEM_OF[code]
    if lay is None:
        arr = np.array(values, dtype=np.dtype(code))
        big = (sys.byteorder == 'big') and item > 1
        return arr, {'buf': list(arr.tobytes()), 'off': 0, 'stride': item, 'n': n, 'item': item, 'big': big}
    big = bool(lay.get('big')) and item > 1
    dt = np.dtype(('>' if big else '<') + code) if item > 1 else np.dtype(code)
    step = lay.get('step', 1) or 1
    lead, trail = lay.get('lead', 0), lay.get('trail', 0)
    span = (max(n, 1) - 1) * abs(step) + 1
    m = lead + span + trail
    own = np.array([_filler(i, code) for i in range(m)], dtype=dt)
    start = lead if step > 0 else lead + span - 1
    if n:
        idx = [start + i * step for i in range(n)]
        own[idx] = np.array(values, dtype=np.dtype(code))
    byteoff = lay.get('byteoff', 0) if lay.get('how') == 'buffer' else 0
    if lay.get('how') == 'buffer':
        raw = b'\x00' * byteoff + own.tobytes()
        own2 = np.frombuffer(raw, dtype=dt, offset=byteoff)
    else:
        raw = own.tobytes()
        own2 = own
    if n == 0:
        arr = own2[0:0]
    elif step > 0:
        arr = own2[start:start + span:step]
    else:
        stop = start - span
        arr = own2[start:(stop if stop >= 0 else None):step]
    if lay.get('ro') and arr.flags.writeable:
        arr = arr.view()
        arr.setflags(write=False)
    desc = {'buf': list(raw), 'off': byteoff + start * item, 'stride': step * item, 'n': n, 'item': item, 'big': big}
    # self-check of the description against numpy's own bookkeeping
    assert arr.shape == (n,) and (n == 0 or arr.strides[0] == desc['stride']), (arr.strides, desc['stride'])
    if n:
        base_addr = own2.__array_interface__['data'][0] - byteoff
        assert arr.__array_interface__['data'][0] - base_addr == desc['off']
        assert (arr.dtype.byteorder == '>') == big or item == 1
        assert arr.tolist() == np.array(values, dtype=np.dtype(code)).tolist()
    return arr, desc


def _table_array(l):
    """the numpy array of a LUT dict / LUT case (keys data | gen, bits, layout)"""
    data = l['data'] if l.get('data') is not None else _gen_data(l)
    return _mem_array(data, 'u1' if l['bits'] == 8 else 'u2', l.get('layout'))[0]


def _make_lut(cls, first, arr, expl=None):
    import highdicom as hd
    if cls == 'VOILUT':
        return hd.VOILUT(first, arr, expl)
    if cls == 'ModalityLUT':
        return hd.ModalityLUT('US', first, arr, expl)
    if cls == 'PresentationLUT':
        return hd.PresentationLUT(first, arr, expl)
    return hd.LUT(first, arr, expl)


LUT_CLASSES = ['LUT', 'VOILUT', 'ModalityLUT', 'PresentationLUT']


def _xarr(xs, code, lay):
    """input array (pixel values) in a memory layout; falls back to a wider item when a value does not fit"""
    return _mem_array(xs, code, lay)[0]


def _mk_lut_obj(l, cls='LUT'):
    import numpy as np
    import highdicom as hd
    return _make_lut(cls, l['first'], _table_array(l), l.get('expl'))


def _rwvm_item(r):
    from pydicom.dataset import Dataset
    it = Dataset()
    it.LUTLabel = r['label']
    it.LUTExplanation = 'e'
    u = Dataset()
    u.CodeValue, u.CodingSchemeDesignator, u.CodeMeaning = UNITS[r['unit']]
    it.MeasurementUnitsCodeSequence = [u]
    if r['kind'] == 'lin':
        it.RealWorldValueSlope = float(F(r['slope']))
        it.RealWorldValueIntercept = float(F(r['icpt']))
        if r.get('dbl'):
            it.DoubleFloatRealWorldValueFirstValueMapped = float(r['first'])
            it.DoubleFloatRealWorldValueLastValueMapped = float(r['last'])
        else:
            it.RealWorldValueFirstValueMapped = int(r['first'])
            it.RealWorldValueLastValueMapped = int(r['last'])
    else:
        it.RealWorldValueLUTData = [float(F(x)) for x in r['data']]
        it.RealWorldValueFirstValueMapped = int(r['first'])
        it.RealWorldValueLastValueMapped = int(r['last'])
    return it


def _fill_level(target, lv, functional_group):
    """write the parameters of one level into `target` (image root or a functional group item)"""
    from pydicom.dataset import Dataset
    if lv['rwvm'] is not None:
        target.RealWorldValueMappingSequence = [_rwvm_item(r) for r in lv['rwvm']]
    if lv['slope'] is not None or lv['icpt'] is not None:
        d = Dataset() if functional_group else target
        if lv['slope'] is not None:
            d.RescaleSlope = float(F(lv['slope']))
        if lv['icpt'] is not None:
            d.RescaleIntercept = float(F(lv['icpt']))
        d.RescaleType = 'US'
        if functional_group:
            target.PixelValueTransformationSequence = [d]
    if lv['win'] is not None:
        w = lv['win']
        d = Dataset() if functional_group else target
        cs = [float(F(x)) for x in w['centers']]
        ws = [float(F(x)) for x in w['widths']]
        d.WindowCenter = cs if len(cs) > 1 else cs[0]
        d.WindowWidth = ws if len(ws) > 1 else ws[0]
        if w['expl'] is not None:
            d.WindowCenterWidthExplanation = w['expl'] if len(w['expl']) > 1 else w['expl'][0]
        if w['fn'] is not None:
            d.VOILUTFunction = w['fn']
        if functional_group:
            target.FrameVOILUTSequence = [d]


def _build_image(c):
    import numpy as np
    import highdicom as hd
    from pydicom.dataset import Dataset
    import synth
    ds = synth.base('ct_image.dcm')
    for kw in ['RescaleSlope', 'RescaleIntercept', 'WindowCenter', 'WindowWidth', 'VOILUTFunction',
               'PresentationLUTShape', 'RescaleType', 'WindowCenterWidthExplanation']:
        if kw in ds:
            delattr(ds, kw)
    ds.Rows, ds.Columns = c['rows'], c['cols']
    ds.PixelRepresentation = 1 if c['signed'] else 0
    ds.BitsAllocated, ds.BitsStored, ds.HighBit = c['alloc'], c['stored'], c['stored'] - 1
    ds.PhotometricInterpretation = 'MONOCHROME1' if c['mono1'] else 'MONOCHROME2'
    if c['pls']:
        ds.PresentationLUTShape = c['pls']
    px = np.array(c['frames'], dtype=_np_dtype(c)).reshape(len(c['frames']), c['rows'], c['cols'])
    data = px.tobytes()
    ds.PixelData = data + (b'\0' if len(data) % 2 else b'')
    if c['perframe'] is not None:
        ds.NumberOfFrames = len(c['frames'])
        ds.SOPClassUID = '1.2.840.10008.5.1.4.1.1.2.1'
        sh = Dataset()
        _fill_level(sh, c['shared'], True)
        ds.SharedFunctionalGroupsSequence = [sh]
        pf = []
        for lv in c['perframe']:
            it = Dataset()
            _fill_level(it, lv, True)
            pf.append(it)
        ds.PerFrameFunctionalGroupsSequence = pf
        if c.get('zs'):
            # regularly spaced stack (frame i at z = zs[i]) so that get_volume applies
            for kw in ('ImagePositionPatient', 'ImageOrientationPatient', 'PixelSpacing', 'SliceThickness',
                       'SliceLocation', 'SpacingBetweenSlices'):
                if kw in ds:
                    delattr(ds, kw)
            pm = Dataset()
            pm.PixelSpacing = [1.0, 1.0]
            pm.SliceThickness = 1.0
            sh.PixelMeasuresSequence = [pm]
            po = Dataset()
            po.ImageOrientationPatient = [1.0, 0.0, 0.0, 0.0, 1.0, 0.0]
            sh.PlaneOrientationSequence = [po]
            for it, z in zip(pf, c['zs']):
                pp = Dataset()
                pp.ImagePositionPatient = [0.0, 0.0, float(z)]
                it.PlanePositionSequence = [pp]
    _fill_level(ds, c['root'], False)
    if c['modlut'] is not None:
        ds.ModalityLUTSequence = [_mk_lut_obj(c['modlut'], 'ModalityLUT')]
    if c['voiluts'] is not None:
        ds.VOILUTSequence = [_mk_lut_obj(l, 'VOILUT') for l in c['voiluts']]
    return hd.Image.from_dataset(ds), px


def _slice_case(c, i):
    """the single-frame image of slice i of a 'series' case"""
    d = dict(c, frames=[c['frames'][i]], root=c['slice_roots'][i], perframe=None, shared=None, fi=0,
             slice_roots=None, slice_over=None)
    if c.get('slice_over'):
        # attributes outside the root level that differ from instance to instance
        # (mono1, pls, modlut, voiluts, stored)
        d.update(c['slice_over'][i])
    return d


def _build_series(c):
    """single-frame datasets of one series (slice i at z = zs[i]), in the order of c['frames']"""
    import synth
    s_uid, f_uid = synth.uid(), synth.uid()
    out = []
    for i in range(len(c['frames'])):
        im, _ = _build_image(_slice_case(c, i))
        im.SOPInstanceUID = synth.uid()
        im.SeriesInstanceUID = s_uid
        im.FrameOfReferenceUID = f_uid
        im.ImagePositionPatient = [0.0, 0.0, float(c['zs'][i])]
        im.ImageOrientationPatient = [1.0, 0.0, 0.0, 0.0, 1.0, 0.0]
        im.PixelSpacing = [1.0, 1.0]
        for kw in ('SpacingBetweenSlices', 'SliceLocation'):
            if kw in im:
                delattr(im, kw)
        out.append(im)
    return out


def _build_tpm(c):
    """tiled monochrome slide image (TILED_FULL, 8 bit): tile k = c['frames'][k], parameters in the
    shared functional group; no ICC profile"""
    import numpy as np
    import highdicom as hd
    import synth
    th, tw = c['rows'], c['cols']
    nr, nc = c['grid']
    tiles = np.array(c['frames'], dtype=np.uint8).reshape(nr, nc, th, tw)
    tpm = tiles.transpose(0, 2, 1, 3).reshape(nr * th, nc * tw)
    # parameters in per-frame functional groups need a per-frame sequence: TILED_SPARSE
    ds = synth.sm_tiled(nr * th, nc * tw, th, tw, samples=1, pixels=tpm, tiled_full=c.get('perframe') is None)
    ds.BitsStored, ds.HighBit = c['stored'], c['stored'] - 1
    ds.PhotometricInterpretation = 'MONOCHROME1' if c['mono1'] else 'MONOCHROME2'
    if c['pls']:
        ds.PresentationLUTShape = c['pls']
    for it in ds.OpticalPathSequence:
        if 'ICCProfile' in it:
            del it.ICCProfile
    if 'ICCProfile' in ds:
        del ds.ICCProfile
    _fill_level(ds.SharedFunctionalGroupsSequence[0], c['shared'], True)
    if c.get('perframe') is not None:
        for it, lv in zip(ds.PerFrameFunctionalGroupsSequence, c['perframe']):
            _fill_level(it, lv, True)
    if c['voiluts'] is not None:
        ds.VOILUTSequence = [_mk_lut_obj(l, 'VOILUT') for l in c['voiluts']]
    return hd.Image.from_dataset(ds)


def _vol_order(c):
    """frame indices in the slice order of the volume (orientation (1,0,0,0,1,0): decreasing z)"""
    return sorted(range(len(c['zs'])), key=lambda i: -c['zs'][i])


def _fis(c):
    """zero-based frame indices, in output order, of a several-frames call"""
    if c['api'] == 'get_frames':
        return c['fis'] if c.get('fis') is not None else list(range(len(c['frames'])))
    if c['api'] in ('get_volume', 'series'):
        return _vol_order(c)
    if c['api'] == 'tpm':
        return list(range(len(c['frames'])))
    raise ValueError(c['api'])


def _sel_arg(s, voi):
    import highdicom as hd
    import numpy as np
    if isinstance(s, dict):
        if 'code' in s:
            from pydicom.sr.coding import Code
            v, sch, m = UNITS[s['code']]
            return Code(value=v, scheme_designator=sch, meaning=m)
        if 'userwin' in s:
            cs, ws = s['userwin']
            cs = [float(F(x)) for x in cs]
            ws = [float(F(x)) for x in ws]
            return hd.VOILUTTransformation(window_center=cs if len(cs) > 1 else cs[0],
                                           window_width=ws if len(ws) > 1 else ws[0],
                                           voi_lut_function=s.get('fn'))
        if 'userlut' in s:
            return hd.VOILUTTransformation(voi_luts=[_mk_lut_obj(l, 'VOILUT') for l in s['userlut']])
    return s


def _flag_kw(c):
    fl = c['flags']
    return dict(apply_real_world_transform=fl['rwvm'], apply_modality_transform=fl['mod'],
                apply_voi_transform=fl['voi'], apply_presentation_lut=fl['pres'],
                apply_palette_color_lut=fl['pal'], apply_icc_profile=fl['icc'])


def _call_kw(c):
    import numpy as np
    kw = _flag_kw(c)
    kw.update(dtype=np.dtype(c['dtype']), real_world_value_map_selector=_sel_arg(c['rsel'], False),
              voi_transform_selector=_sel_arg(c['vsel'], True),
              voi_output_range=(float(F(c['yrange'][0])), float(F(c['yrange'][1]))))
    return kw


class _Observed(Exception):
    """a harness-level observation that is reported as the outcome of the call (rendered as Err(kind))"""


def _check_dtype(arr, dtype):
    import numpy as np
    if arr.dtype != np.dtype(dtype):
        raise _Observed(f'WrongDtype: {arr.dtype} returned for dtype={dtype}')


def _canon_frames(out, c):
    """several frames: float32 runs are only observed as 'ok' as a whole"""
    _check_dtype(out, c['dtype'])
    if c['dtype'] == 'float32':
        return 'ok'
    return [_canon(out[i], c['dtype']) for i in range(out.shape[0])]


def _check_slice_order(vol, c):
    """slice k of the returned volume must sit where frame _vol_order(c)[k] is (read off the
    volume's own affine)"""
    order = _vol_order(c)
    if vol.array.shape[0] != len(order):
        return f'{vol.array.shape[0]} slices for {len(order)} frames'
    for k, i in enumerate(order):
        z = float(vol.affine[2, 3] + k * vol.affine[2, 0])
        if abs(z - c['zs'][i]) > 1e-6:
            return f'slice {k} at z={z}, expected frame {i} at z={c["zs"][i]}'
    return None


def _canon(arr, dtype):
    """array -> flat list; float32 results are only observed as 'ok'"""
    _check_dtype(arr, dtype)
    if dtype == 'float32':
        return 'ok'
    return [x for x in arr.reshape(-1).tolist()]


def _build_palette(c):
    import numpy as np
    import highdicom as hd
    import synth
    ds = synth.base('ct_image.dcm')
    for kw in ['RescaleSlope', 'RescaleIntercept', 'WindowCenter', 'WindowWidth', 'RescaleType']:
        if kw in ds:
            delattr(ds, kw)
    ds.Rows, ds.Columns = 2, 3
    ds.BitsAllocated = ds.BitsStored = c['alloc']
    ds.HighBit = c['alloc'] - 1
    ds.PixelRepresentation = 0
    ds.PhotometricInterpretation = 'PALETTE COLOR'
    ds.PixelData = np.array(c['pixels'], dtype=np.uint8 if c['alloc'] == 8 else np.uint16).tobytes()
    if c.get('via') == 'objects':
        # the three channels through hd.PaletteColorLUT (each table in its own memory layout) and
        # hd.PaletteColorLUTTransformation; the image carries what these objects serialised
        code = 'u1' if c['bits'] == 8 else 'u2'
        luts = [hd.PaletteColorLUT(c['first'], _mem_array(c['data'][k], code, c['chan_layouts'][k])[0], col)
                for k, col in enumerate(['red', 'green', 'blue'])]
        tr = hd.PaletteColorLUTTransformation(*luts)
        for name in ['Red', 'Green', 'Blue']:
            for suffix in ('Descriptor', 'Data'):
                kw = f'{name}PaletteColorLookupTable{suffix}'
                setattr(ds, kw, getattr(tr, kw))
        return hd.Image.from_dataset(ds)
    desc, chans = _palette_raw(c)
    for name, b in zip(['Red', 'Green', 'Blue'], chans):
        setattr(ds, f'{name}PaletteColorLookupTableDescriptor', list(desc))
        setattr(ds, f'{name}PaletteColorLookupTableData', bytes(b))
    return hd.Image.from_dataset(ds)


def _palette_raw(c):
    """descriptor and the three byte strings as stored (padding, malformed variants)"""
    n, bits = c['n'], c['bits']
    chans = []
    for k, d in enumerate(c['data']):
        if bits == 8:
            b = list(d) + ([0] if n % 2 else [])
        else:
            b = [y for v in d for y in (v % 256, v // 256)]
        if c['bad'] == 'short' and k == 1:
            b = b[:-2] if len(b) > 2 else []
        if c['bad'] == 'long' and k == 2:
            b = b + [0, 0]
        if c['bad'] == 'mismatch':
            b = b + [0, 0]
        chans.append(b)
    return (n, c['first'], bits), chans


def _apply_unchanged(fn, arr):
    """fn(arr) for a caller-owned input array: the array must be left as it was"""
    keep = arr.tolist()
    out = fn(arr)
    if arr.tolist() != keep:
        raise _Observed('CallerArrayModified: the input array handed to apply was changed')
    return out


def _catch(fn):
    try:
        return catch(fn)
    except _Observed as e:
        return Err(str(e))


def _hist_kw(c, dtype):
    return _call_kw(dict(c, dtype=dtype))


def _hist_op(im, c, op):
    """one operation of a history on the image object im"""
    import numpy as np
    n = len(c['frames'])
    o = op['op']
    if o == 'touch':
        return np.asarray(im.pixel_array).reshape(n, -1).tolist()
    if o == 'stored':
        return np.asarray(im.get_stored_frame(op['fi'] + 1)).reshape(-1).tolist()
    kw = _hist_kw(c, op['dtype'])
    cc = dict(c, dtype=op['dtype'])
    if o == 'frame':
        return _canon(im.get_frame(op['fi'] + 1, **kw), op['dtype'])
    if o == 'frames':
        return _canon_frames(im.get_frames([i + 1 for i in op['fis']], **kw), cc)
    if o == 'volume':
        vol = im.get_volume(**kw)
        bad = _check_slice_order(vol, c)
        if bad:
            raise _Observed('SliceOrder: ' + bad)
        return _canon_frames(vol.array, cc)
    if o == 'tpm':
        out = im.get_total_pixel_matrix(**kw)
        nr, nc = c['grid']
        th, tw = c['rows'], c['cols']
        return _canon_frames(out.reshape(nr, th, nc, tw).transpose(0, 2, 1, 3).reshape(nr * nc, th, tw), cc)
    raise ValueError(o)


def _run_hist(c):
    """every operation of the history on ONE object, each observed (an error of one operation is its outcome)"""
    import numpy as np
    import highdicom as hd
    if c['api'] == 'series_hist':
        series = _build_series(c)
        order = _vol_order(c)
        outs = []
        for op in c['ops']:
            def f(op=op):
                if op['op'] == 'touch':
                    return [np.asarray(series[i].pixel_array).reshape(-1).tolist() for i in order]
                vol = hd.get_volume_from_series(series, **_hist_kw(c, op['dtype']))
                bad = _check_slice_order(vol, c)
                if bad:
                    raise _Observed('SliceOrder: ' + bad)
                return _canon_frames(vol.array, dict(c, dtype=op['dtype']))
            outs.append(_catch(f))
        return outs
    im = _build_tpm(c) if c.get('grid') else _build_image(c)[0]
    return [_catch(lambda op=op: _hist_op(im, c, op)) for op in c['ops']]


def run_impl(c):
    try:
        return _run_impl(c)
    except _Observed as e:
        return Err(str(e))


def _run_impl(c):
    import numpy as np
    warnings.filterwarnings('ignore')
    import highdicom as hd
    k = c['kind']
    if k in MONO_KINDS and c.get('api') in ('hist', 'series_hist'):
        return _catch(lambda: _run_hist(c))
    if k in MONO_KINDS:
        def f():
            im, px = _build_image(c)
            kw = _flag_kw(c)
            kw.update(dtype=np.dtype(c['dtype']), real_world_value_map_selector=_sel_arg(c['rsel'], False),
                      voi_transform_selector=_sel_arg(c['vsel'], True),
                      voi_output_range=(float(F(c['yrange'][0])), float(F(c['yrange'][1]))))
            pr = c.get('prior')
            if pr:
                # history: the SAME object was just asked for the same frame(s) with one option different
                # (a result must depend on the options of its own call only, whatever was cached before)
                kw0 = dict(kw)
                if pr == 'pres':
                    kw0['apply_presentation_lut'] = not kw['apply_presentation_lut']
                elif pr == 'voi':
                    kw0['apply_voi_transform'] = False if kw['apply_voi_transform'] is not False else None
                elif pr == 'dtype':
                    kw0['dtype'] = np.dtype('float32' if c['dtype'] != 'float32' else 'float64')
                elif pr == 'yrange':
                    kw0['voi_output_range'] = (kw['voi_output_range'][0] - 1.0, kw['voi_output_range'][1] + 2.0)
                elif pr == 'frame':
                    kw0 = None
                try:
                    if kw0 is None:
                        im.get_frame((c['fi'] + 1) % max(1, len(c['frames'])) + 1, **kw)
                    elif c['api'] == 'get_frames':
                        im.get_frames(**kw0)
                    else:
                        im.get_frame(c['fi'] + 1, **kw0)
                except Exception:      # noqa  (the earlier call is not under test)
                    pass
            if c['api'] == 'get_frames':
                if c.get('fis') is not None:
                    out = im.get_frames([i + 1 for i in c['fis']], **kw)
                else:
                    out = im.get_frames(**kw)
                return _canon_frames(out, c)
            if c['api'] == 'get_volume':
                vol = im.get_volume(**kw)
                bad = _check_slice_order(vol, c)
                if bad:
                    return Err('SliceOrder: ' + bad)
                return _canon_frames(vol.array, c)
            return _canon(im.get_frame(c['fi'] + 1, **kw), c['dtype'])
        if c['api'] == 'series':
            def f():     # noqa
                kw = _call_kw(c)
                vol = hd.get_volume_from_series(_build_series(c), **kw)
                bad = _check_slice_order(vol, c)
                if bad:
                    return Err('SliceOrder: ' + bad)
                return _canon_frames(vol.array, c)
        if c['api'] == 'tpm':
            def f():     # noqa
                kw = _call_kw(c)
                im = _build_tpm(c)
                out = im.get_total_pixel_matrix(**kw)
                nr, nc = c['grid']
                th, tw = c['rows'], c['cols']
                tiles = out.reshape(nr, th, nc, tw).transpose(0, 2, 1, 3).reshape(nr * nc, th, tw)
                return _canon_frames(tiles, c)
        return _catch(f)
    if k == 'palette':
        def f():
            im = _build_palette(c)
            out = im.get_frame(1, dtype=np.dtype(c['dtype']), **_flag_kw(c))
            if out.ndim == 2:
                return [[x] for x in out.reshape(-1).tolist()]
            return out.reshape(-1, 3).tolist()
        r = catch(f)
        if c['dtype'] == 'float32' and not isinstance(r, Err):
            r = [[int(x) for x in row] for row in r]
        return r
    if k == 'lut':
        data = _gen_data(c)

        def f():
            # the table in the case's memory layout, through the case's entry point (LUT or a subclass)
            lut = _make_lut(c.get('cls', 'LUT'), c['first'], _table_array(c))
            if c['op'] in ('roundtrip', 'roundtrip_file'):
                if c['op'] == 'roundtrip_file':
                    lut = _through_file_checked(lut)
                d = [int(x) for x in lut.LUTDescriptor]
                return [d[0], d[1], d[2], _nbytes(lut.LUTData), catch(lambda: _summary(lut.lut_data.tolist(), c))]
            if c['op'] == 'apply':
                return _apply_unchanged(lut.apply, _xarr(c['xs'], 'i8', c.get('xlayout'))).tolist()
            if c['op'] == 'scaled':
                out = lut.get_scaled_lut_data(output_range=(float(F(c['yrange'][0])), float(F(c['yrange'][1]))),
                                              invert=c['invert'])
                if not np.all(np.isfinite(out)):
                    return Err('ConstantLUT')
                return out.tolist()
            if c['op'] == 'inverted':
                return lut.get_inverted_lut_data().tolist()
        return _catch(f)
    if k == 'lut_layout':
        def f():
            arr, _ = _mem_array(c['data'], 'u1' if c['bits'] == 8 else 'u2', c['layout'])
            keep = arr.tolist()
            lut = _make_lut(c['cls'], c['first'], arr)
            if arr.tolist() != keep:
                return Err('CallerArrayModified')
            if c['file']:
                lut = _through_file_checked(lut)
            d = [int(x) for x in lut.LUTDescriptor]
            raw = lut.LUTData
            raw = list(raw) if isinstance(raw, (bytes, bytearray)) else [int(raw) % 256, int(raw) // 256]
            return [d[0], d[1], d[2], len(raw), _summary(raw, c), catch(lambda: _summary(lut.lut_data.tolist(), c)),
                    _catch(lambda: _apply_unchanged(lut.apply, _xarr(c['xs'], c.get('xcode', 'i8'),
                                                                     c.get('xlayout'))).tolist())]
        return catch(f)
    if k == 'lut_big':
        data = _gen_data(c)

        def f():
            lut = _make_lut(c.get('cls', 'LUT'), c['first'], _table_array(c))
            if c['file']:
                lut = _through_file_checked(lut)
            d = [int(x) for x in lut.LUTDescriptor]
            got = lut.lut_data
            L = len(data)
            xs = [c['first'] - 1, c['first'], c['first'] + 1, c['first'] + L - 1, c['first'] + L]
            return [d[0], d[1], d[2], _nbytes(lut.LUTData), lut.number_of_entries,
                    _summary(got.tolist(), c), lut.apply(np.array(xs, dtype=np.int64)).tolist()]
        return catch(f)
    if k == 'lut_err':
        def f():
            w = c['what']
            dt = np.uint8 if c['bits'] == 8 else np.uint16
            if w == 'neg_first':
                hd.LUT(-1, np.zeros(3, dt))
            elif w == 'big_first':
                hd.LUT(65536, np.zeros(3, dt))
            elif w == 'empty':
                hd.LUT(0, np.zeros(0, dt))
            elif w == 'too_long':
                hd.LUT(0, np.zeros(65537, dt))
            elif w == 'dtype':
                hd.LUT(0, np.zeros(3, np.int16))
            elif w == 'ndim':
                hd.LUT(0, np.zeros((2, 2), dt))
            return 'accepted'
        return catch(f)
    if k == 'voi_apply':
        def f():
            kw = {}
            if c['win'] is not None:
                w = c['win']
                cs = [float(F(x)) for x in w['centers']]
                ws = [float(F(x)) for x in w['widths']]
                kw.update(window_center=cs if len(cs) > 1 else cs[0], window_width=ws if len(ws) > 1 else ws[0])
                if w['expl'] is not None:
                    kw['window_explanation'] = w['expl'] if len(cs) > 1 else w['expl'][0]
                if w['fn'] is not None:
                    kw['voi_lut_function'] = w['fn']
            if c['luts'] is not None:
                kw['voi_luts'] = [_mk_lut_obj(l, 'VOILUT') for l in c['luts']]
            t = hd.VOILUTTransformation(**kw)
            return _apply_unchanged(
                lambda a: t.apply(a, output_range=(float(F(c['yrange'][0])), float(F(c['yrange'][1]))),
                                  voi_transform_selector=c['sel'], invert=c['invert'], prefer_lut=c['prefer_lut']),
                _xarr(c['xs'], 'i4', c.get('xlayout'))).tolist()
        return _catch(f)
    if k == 'rwvm_apply':
        def f():
            from pydicom.sr.coding import Code
            r = c['r']
            v, sch, m = UNITS[r['unit']]
            kw = dict(lut_label=r['label'], lut_explanation='e', unit=Code(v, sch, m))
            if r['kind'] == 'lin':
                vr = (float(r['first']), float(r['last'])) if r.get('dbl') else (int(r['first']), int(r['last']))
                t = hd.pm.RealWorldValueMapping(value_range=vr, slope=float(F(r['slope'])),
                                                intercept=float(F(r['icpt'])), **kw)
            else:
                tab = [float(F(x)) for x in r['data']]
                if c.get('tlayout') is not None:
                    tab = _mem_array(tab, 'f8', c['tlayout'])[0]      # the table as a numpy array in a layout
                t = hd.pm.RealWorldValueMapping(value_range=(int(r['first']), int(r['last'])),
                                                lut_data=tab, **kw)
            return _apply_unchanged(t.apply, _xarr(c['xs'], 'i4', c.get('xlayout'))).tolist()
        return _catch(f)
    if k == 'window':
        def f():
            from highdicom.pixels import apply_voi_window
            # (float64 in, float64 out: the one call in which the window could work on the caller's array)
            return _apply_unchanged(
                lambda a: apply_voi_window(a, float(F(c['c'])), float(F(c['w'])), voi_lut_function=c['fn'],
                                           output_range=(float(F(c['yrange'][0])), float(F(c['yrange'][1]))),
                                           invert=c['invert']),
                _xarr([float(F(x)) for x in c['xs']], 'f8', c.get('xlayout'))).tolist()
        return _catch(f)
    raise ValueError(k)


def _through_file(lut):
    """write the LUT inside a dataset to a DICOM file and read it back (adds the OW pad byte)"""
    import io
    import pydicom
    import highdicom as hd
    from pydicom.dataset import Dataset, FileMetaDataset
    ds = Dataset()
    ds.VOILUTSequence = [lut]
    ds.file_meta = FileMetaDataset()
    ds.file_meta.TransferSyntaxUID = pydicom.uid.ExplicitVRLittleEndian
    ds.file_meta.MediaStorageSOPClassUID = '1.2.840.10008.5.1.4.1.1.2'
    ds.file_meta.MediaStorageSOPInstanceUID = '1.2.3'
    ds.SOPClassUID = '1.2.840.10008.5.1.4.1.1.2'
    ds.SOPInstanceUID = '1.2.3'
    ds.PixelRepresentation = 0
    b = io.BytesIO()
    pydicom.dcmwrite(b, ds, enforce_file_format=True)
    back = pydicom.dcmread(io.BytesIO(b.getvalue()))
    return hd.LUT.from_dataset(back.VOILUTSequence[0])


class _WriteError(ValueError):
    pass


def _through_file_checked(lut):
    try:
        return _through_file(lut)
    except Exception as e:      # pydicom refuses to write the element
        if type(e).__name__ == 'BytesLengthException':
            raise RuntimeError('pydicom cannot write this LUTData') from e
        raise


def _nbytes(v):
    return len(v) if isinstance(v, (bytes, bytearray)) else 2      # VR US, VM 1: one 16-bit word


def _summary(data, c):
    """short lists verbatim; long ones as (length, weighted checksum, ends)"""
    if len(data) <= 40:
        return data
    s = sum((i + 1) * v for i, v in enumerate(data)) % 1000000007
    return [len(data), s, data[0], data[1], data[-2], data[-1]]


# --------------------------------------------------------------------------
# model terms
# --------------------------------------------------------------------------
def _b(x):
    return 'true' if x else 'false'


def _tri(x):
    return {True: 'TT', False: 'TF', None: 'TN'}[x]


def _opt(x, f):
    return 'None' if x is None else f'(Some {f(x)})'


def _ql(xs):
    return '[' + '; '.join(qlit(F(x)) for x in xs) + ']'


def _sl(xs):
    return '[' + '; '.join(coq_string(x) for x in xs) + ']'


def _fnc(fn):
    return {'LINEAR': 'Linear', 'LINEAR_EXACT': 'LinearExact', 'SIGMOID': 'Sigmoid'}[fn]


def _lutds(l, pad=False):
    """LutDS as hd.LUT(...) creates it in memory"""
    n = len(l['data'])
    bytes_ = list(l['data']) if l['bits'] == 8 else [y for v in l['data'] for y in (v % 256, v // 256)]
    if len(bytes_) % 2:
        bytes_.append(0)       # LUT.__init__ pads odd 8-bit tables (OW: even length)
    return (f"(LutDS {0 if n == 65536 else n} {zlit(l['first'])} {l['bits']} {zl(bytes_)} "
            f"{_opt(l.get('expl'), coq_string)} false)")


def _rwvm(r):
    if r['kind'] == 'lin':
        k = f"(RLin {qlit(F(r['slope']))} {qlit(F(r['icpt']))} {qlit(F(r['first']))} {qlit(F(r['last']))})"
    else:
        k = f"(RLut {zlit(r['first'])} {_ql(r['data'])})"
    return f"(Rwvm {coq_string(r['label'])} {r['unit']} {k})"


def _win(w):
    return (f"(Windows {_ql(w['centers'])} {_ql(w['widths'])} {_opt(w['expl'], _sl)} "
            f"{_opt(w['fn'], _fnc)})")


def _level(lv):
    return (f"(Level {_opt(lv['rwvm'], lambda rs: '[' + '; '.join(_rwvm(r) for r in rs) + ']')} "
            f"{_opt(lv['slope'], lambda x: qlit(F(x)))} {_opt(lv['icpt'], lambda x: qlit(F(x)))} "
            f"{_opt(lv['win'], _win)})")


def _dtype_term(name):
    import re
    m = re.match(r'(float|uint|int)(\d+)', name)
    return f"(DT {dict(float='KF', uint='KU', int='KI')[m.group(1)]} {m.group(2)})"


def _flags_term(fl):
    return (f"(Flags {_tri(fl['rwvm'])} {_tri(fl['mod'])} {_tri(fl['voi'])} {_b(fl['pres'])} "
            f"{_tri(fl['pal'])} {_tri(fl['icc'])})")


def _sel_term(s):
    if isinstance(s, dict):
        if 'code' in s:
            return f"(SCode {s['code']})"
        if 'userwin' in s:
            return f"(SUserWin {_ql(s['userwin'][0])} {_ql(s['userwin'][1])} {_opt(s.get('fn'), _fnc)})"
        if 'userlut' in s:
            return '(SUserLut [' + '; '.join(_lutds(l) for l in s['userlut']) + '])'
    if isinstance(s, str):
        return f'(SStr {coq_string(s)})'
    return f'(SIdx {zlit(s)})'


def _dataset_term(c):
    in_dt = f"(DT {'KI' if c['signed'] else 'KU'} {c['alloc']})"
    pls = 'None' if c['pls'] is None else f"(Some {_b(c['pls'] == 'INVERSE')})"
    return (f"(DS Mono {_b(c['mono1'])} {pls} false {_b(c['signed'])} {c['stored']} {in_dt} "
            f"{_opt(c['modlut'], _lutds)} "
            f"{_opt(c['voiluts'], lambda ls: '[' + '; '.join(_lutds(l) for l in ls) + ']')} "
            f"{_level(c['root'])} {_opt(c['shared'], _level)} "
            f"{_opt(c['perframe'], lambda ls: '[' + '; '.join(_level(l) for l in ls) + ']')} None false)")


# ---- exp table for SIGMOID cases (keys computed exactly, values by math.exp) ----
def _exp_val(t):
    try:
        v = math.exp(float(t))
    except OverflowError:
        return F(10) ** 400
    return F(v)


def _exp_tab(keys):
    keys = sorted(set(keys))
    return '[' + '; '.join(f'({qlit(k)}, {qlit(_exp_val(k))})' for k in keys) + ']'


def _sigmoid_keys_mono(c):
    """every exp argument the folded transform can need: all (window alternative, rescale
    alternative, inversion) combinations x all values the window may be applied to."""
    if c.get('api') == 'series' and c.get('slice_roots'):
        # one instance per slice: the arguments each instance's own transform can need
        return [k for i in range(len(c['frames'])) for k in _sigmoid_keys_mono(_slice_case(c, i))]
    wins = []
    lvls = [c['root']] + ([c['shared']] if c['shared'] else []) + (c['perframe'] or []) + (c.get('slice_roots') or [])
    for lv in lvls:
        if lv['win'] is not None and lv['win']['fn'] == 'SIGMOID':
            w = lv['win']
            wins += [(F(a), F(b)) for a in w['centers'] for b in w['widths']]
    if isinstance(c['vsel'], dict) and 'userwin' in c['vsel'] and c['vsel'].get('fn') == 'SIGMOID':
        wins += [(F(a), F(b)) for a in c['vsel']['userwin'][0] for b in c['vsel']['userwin'][1]]
    if not wins:
        return []
    res = [(F(1), F(0))]
    for lv in lvls:
        if lv['slope'] is not None or lv['icpt'] is not None:
            res.append((F(lv['slope'] or 1), F(lv['icpt'] or 0)))
    xs = set(x for fr in c['frames'] for x in fr)
    keys = []
    for (cc, ww) in wins:
        for (m, b) in res:
            if m == 0:
                continue
            c2, w2 = (cc - b) / m, ww / m
            for x in xs:
                for off in (x - c2, c2 - x):
                    keys.append(F(-4) * off / w2)
        if c['modlut'] is not None:
            for v in c['modlut']['data']:
                for off in (v - cc, cc - v):
                    keys.append(F(-4) * off / ww)
    return keys


def _hop_term(c, op):
    """one operation of a history as a term of type hop iread / hop sread"""
    o = op['op']
    if o == 'touch':
        return 'HTouch'
    if o == 'stored':
        return f"(HRead (IStored {op['fi']}))"
    st = _b(op['dtype'] == 'float32')
    dt = _dtype_term(op['dtype'])
    if o == 'frame':
        return f"(HRead (IFrame {st} {dt} {op['fi']}))"
    if o == 'frames':
        return f"(HRead (IFrames {st} {dt} {zl(op['fis'])}))"
    if o == 'volume':
        return f"(HRead (IPixels {st} {dt} {zl(_vol_order(c))}))"
    if o == 'tpm':
        return f"(HRead (IPixels {st} {dt} {zl(list(range(len(c['frames']))))}))"
    if o == 'series':
        return f"(HRead (SVolume {st} {dt}))"
    raise ValueError(o)


def coq_term(c):
    k = c['kind']
    if k in MONO_KINDS:
        tab = _exp_tab(_sigmoid_keys_mono(c))
        frames = '[' + '; '.join(zl(f) for f in c['frames']) + ']'
        args = (f"{tab} {_dataset_term(c)} {_flags_term(c['flags'])} {_sel_term(c['rsel'])} {_sel_term(c['vsel'])} "
                f"{qlit(F(c['yrange'][0]))} {qlit(F(c['yrange'][1]))} {_dtype_term(c['dtype'])} {frames}")
        st = '_status' if c['dtype'] == 'float32' else ''
        if c['api'] == 'hist':
            hargs = (f"{tab} {_dataset_term(c)} {_flags_term(c['flags'])} {_sel_term(c['rsel'])} {_sel_term(c['vsel'])} "
                     f"{qlit(F(c['yrange'][0]))} {qlit(F(c['yrange'][1]))} {frames}")
            return f"(run_history {hargs} [{'; '.join(_hop_term(c, op) for op in c['ops'])}])"
        if c['api'] == 'series_hist':
            order = _vol_order(c)
            dss = '[' + '; '.join(_dataset_term(_slice_case(c, i)) for i in order) + ']'
            px = '[' + '; '.join(zl(c['frames'][i]) for i in order) + ']'
            return (f"(run_series_history {tab} {_flags_term(c['flags'])} {_sel_term(c['rsel'])} {_sel_term(c['vsel'])} "
                    f"{qlit(F(c['yrange'][0]))} {qlit(F(c['yrange'][1]))} {dss} {px} "
                    f"[{'; '.join(_hop_term(c, op) for op in c['ops'])}])")
        if c['api'] == 'get_frames':
            return f"(run_get_frames{st} {args} {zl(_fis(c))})"
        if c['api'] in ('get_volume', 'tpm'):
            return f"(run_pixels_by_frame{st} {args} {zl(_fis(c))})"
        if c['api'] == 'series':
            sl = '[' + '; '.join(f"({_dataset_term(_slice_case(c, i))}, {zl(c['frames'][i])})" for i in _fis(c)) + ']'
            return (f"(run_series{st} {tab} {_flags_term(c['flags'])} {_sel_term(c['rsel'])} {_sel_term(c['vsel'])} "
                    f"{qlit(F(c['yrange'][0]))} {qlit(F(c['yrange'][1]))} {_dtype_term(c['dtype'])} {sl})")
        return f"(run_get_frame{st} {args} {c['fi']})"
    if k == 'palette':
        desc, chans = _palette_raw(c)
        ds = (f"(DS Palette false None false false {c['alloc']} (DT KU {c['alloc']}) None None "
              f"(Level None None None None) None None "
              f"(Some (Pal ({desc[0]}, {desc[1]}, {desc[2]}) {zl(chans[0])} {zl(chans[1])} {zl(chans[2])})) false)")
        return f"(run_palette {ds} {_flags_term(c['flags'])} {_dtype_term(c['dtype'])} {zl(c['pixels'])})"
    if k == 'lut':
        if c.get('data') is None:
            L, a, b = c['gen']
            data = f"(gen_data {L} {a} {b} {c['bits']})"
        else:
            data = zl(c['data'])
        if c['op'] in ('roundtrip', 'roundtrip_file'):
            return f"(run_lut_roundtrip {zlit(c['first'])} {data} {c['bits']} {_b(c['op'] == 'roundtrip_file')})"
        if c['op'] == 'apply':
            return f"(run_lut_apply {zlit(c['first'])} {data} {c['bits']} {zl(c['xs'])})"
        if c['op'] == 'scaled':
            return (f"(run_lut_scaled {zlit(c['first'])} {data} {c['bits']} {qlit(F(c['yrange'][0]))} "
                    f"{qlit(F(c['yrange'][1]))} {_b(c['invert'])})")
        if c['op'] == 'inverted':
            return f"(run_lut_inverted {zlit(c['first'])} {data} {c['bits']})"
    if k == 'lut_layout':
        # the model is given the MEMORY of the array (buffer, offset, stride, item size, byte order)
        _, m = _mem_array(c['data'], 'u1' if c['bits'] == 8 else 'u2', c['layout'])
        return (f"(run_lut_layout {zlit(c['first'])} {zl(m['buf'])} {zlit(m['off'])} {zlit(m['stride'])} "
                f"{m['n']} {m['item']} {_b(m['big'])} {_b(c['file'])} {zl(c['xs'])})")
    if k == 'lut_big':
        L, a, b = c['gen']
        xs = [c['first'] - 1, c['first'], c['first'] + 1, c['first'] + L - 1, c['first'] + L]
        return f"(run_lut_big {zlit(c['first'])} {L} {a} {b} {c['bits']} {_b(c['file'])} {zl(xs)})"
    if k == 'lut_err':
        w = c['what']
        if w in ('dtype', 'ndim'):
            return None        # numpy typing, not modelled: oracle only
        first, n = {'neg_first': (-1, 3), 'big_first': (65536, 3), 'empty': (0, 0), 'too_long': (0, 65537)}[w]
        return f"(run_lut_ctor {zlit(first)} (gen_data {n} 0 0 {c['bits']}) {c['bits']})"
    if k == 'voi_apply':
        keys = []
        if c['win'] is not None and c['win']['fn'] == 'SIGMOID':
            for a in c['win']['centers']:
                for b in c['win']['widths']:
                    for x in c['xs']:
                        for off in (x - F(a), F(a) - x):
                            keys.append(F(-4) * off / F(b))
        luts = _opt(c['luts'], lambda ls: '[' + '; '.join(_lutds(l) for l in ls) + ']')
        w = c['win']
        return (f"(run_voi_apply {_exp_tab(keys)} {_opt(w, _win)} {luts} {_sel_term(c['sel'])} "
                f"{qlit(F(c['yrange'][0]))} {qlit(F(c['yrange'][1]))} {_b(c['invert'])} {_b(c['prefer_lut'])} "
                f"{zl(c['xs'])})")
    if k == 'rwvm_apply':
        r = c['r']
        if r['kind'] == 'lin':
            t = f"(RLin {qlit(F(r['slope']))} {qlit(F(r['icpt']))} {qlit(F(r['first']))} {qlit(F(r['last']))})"
        else:
            t = f"(RLut {zlit(r['first'])} {_ql(r['data'])})"
        return f"(run_rwvm_apply {t} {zl(c['xs'])})"
    if k == 'window':
        keys = []
        if c['fn'] == 'SIGMOID':
            for x in c['xs']:
                for off in (F(x) - F(c['c']), F(c['c']) - F(x)):
                    keys.append(F(-4) * off / F(c['w']))
        return (f"(run_window {_exp_tab(keys)} {_fnc(c['fn'])} {qlit(F(c['c']))} {qlit(F(c['w']))} "
                f"{qlit(F(c['yrange'][0]))} {qlit(F(c['yrange'][1]))} {_b(c['invert'])} {_ql(c['xs'])})")
    raise ValueError(k)


# --------------------------------------------------------------------------
# independent oracle: the standard's pipeline with pydicom + numpy
# --------------------------------------------------------------------------
def _pyidx(lst, i):
    """python indexing, None when out of range"""
    try:
        return lst[i]
    except IndexError:
        return None


def _first_level(c, fi, key):
    """the parameter group that applies to frame fi: per-frame over shared (the property's
    wording), root for single-frame images.  key in rwvm / rescale / win"""
    def has(lv):
        if lv is None:
            return False
        if key == 'rescale':
            return lv['slope'] is not None or lv['icpt'] is not None
        return lv[key] is not None
    if has(c['root']):
        return c['root']
    if c['perframe'] is not None and has(c['perframe'][fi]):
        return c['perframe'][fi]
    if has(c['shared']):
        return c['shared']
    return None


def _window_ref(arr, fn, cc, ww, ymin, ymax):
    """pydicom.pixels.apply_windowing on a float array, rescaled from pydicom's output
    range (which it derives from BitsStored) to [ymin, ymax]"""
    import numpy as np
    from pydicom.dataset import Dataset
    from pydicom.pixels import apply_windowing
    d = Dataset()
    d.PhotometricInterpretation = 'MONOCHROME2'
    d.BitsStored = 16
    d.BitsAllocated = 16
    d.PixelRepresentation = 0
    d.WindowCenter = cc
    d.WindowWidth = ww
    d.VOILUTFunction = fn
    out = apply_windowing(np.asarray(arr, dtype=np.float64), d)
    pmin, pmax = 0.0, 65535.0
    return (out - pmin) / (pmax - pmin) * (ymax - ymin) + ymin


def _lut_ref(arr, l):
    """pydicom.pixels.apply_voi_lut with one VOI LUT (the same table lookup also serves as reference for a
    modality LUT: values below/above the table take its first/last entry)"""
    import numpy as np
    from pydicom.dataset import Dataset
    from pydicom.pixels import apply_voi_lut
    n = len(l['data'])
    if n == 1 or l['bits'] == 8:
        # pydicom cannot index a one-entry table (0-d array) and narrows the input to uint8 for 8-bit
        # tables (input values > 255 wrap): plain numpy lookup with clipping for those
        a = np.asarray(arr, dtype=np.int64)
        return np.array(l['data'], dtype=np.float64)[np.clip(a - l['first'], 0, n - 1)]
    item = Dataset()
    item.add_new(0x00283002, 'US', [0 if n == 65536 else n, l['first'], l['bits']])
    item.add_new(0x00283006, 'US', list(l['data']))
    d = Dataset()
    d.PixelRepresentation = 0
    d.VOILUTSequence = [item]
    return apply_voi_lut(np.asarray(arr, dtype=np.int64), d).astype(np.float64)


def _expected_mono(c, fi):
    """returns ('err', why) | ('val', list) | ('any', why)"""
    import numpy as np
    from pydicom.dataset import Dataset
    from pydicom.pixels import apply_modality_lut
    fl = c['flags']
    ymin, ymax = float(F(c['yrange'][0])), float(F(c['yrange'][1]))
    # documented incompatibilities
    if fl['rwvm'] is True and fl['mod'] is True:
        return ('err', 'rwvm and modality both True')
    if fl['mod'] is False and fl['voi'] is not False and not (fl['rwvm'] is True and fl['voi'] is None):
        # (a required real world value map supersedes a non-required VOI, which is then not used at all)
        return ('err', 'voi needs modality')
    if fl['rwvm'] is True and fl['voi'] is True:
        return ('err', 'required voi superseded by required rwvm')
    if fl['pal'] is True:
        return ('err', 'palette required on monochrome')
    if fl['icc'] is True:
        return ('err', 'icc required on monochrome')
    if fl['icc'] is not False and fl['pal'] is False:
        return ('err', 'icc needs palette')
    if not ymin < ymax:
        return ('err', 'bad output range')
    x = np.array(c['frames'][fi], dtype=np.int64)
    # ---- real world value map
    lv = _first_level(c, fi, 'rwvm')
    rw_applies = fl['rwvm'] is not False and fl['mod'] is not True and lv is not None
    if fl['rwvm'] is True and lv is None:
        return ('err', 'rwvm required, absent')
    if rw_applies:
        rs = lv['rwvm']
        s = c['rsel']
        if isinstance(s, dict):
            r = next((r for r in rs if r['unit'] == s['code']), None)
        elif isinstance(s, str):
            r = next((r for r in rs if r['label'] == s), None)
        else:
            r = _pyidx(rs, s)
        if r is None:
            return ('err', 'rwvm selector not present')
        if fl['voi'] is True:
            return ('err', 'voi required but superseded')
        if r['kind'] == 'lin':
            if x.min() < r['first'] or x.max() > r['last']:
                return ('err', 'outside rwvm range')
            return ('val', (x * float(F(r['slope'])) + float(F(r['icpt']))).tolist())
        if x.min() < r['first'] or x.max() > r['last']:
            return ('err', 'outside rwvm lut')
        return ('val', [float(F(r['data'][v - r['first']])) for v in x.tolist()])
    # ---- modality
    mod_present = c['modlut'] is not None or _first_level(c, fi, 'rescale') is not None
    if fl['mod'] is True and not mod_present:
        return ('err', 'modality required, absent')
    mod_applies = fl['mod'] is not False and mod_present
    lo, hi = ((-(2 ** (c['stored'] - 1)), 2 ** (c['stored'] - 1) - 1) if c['signed'] else (0, 2 ** c['stored'] - 1))
    rng_ = (float(lo), float(hi))
    m = x.astype(np.float64)
    mod_is_lut = False
    if mod_applies:
        if c['modlut'] is not None:
            m = _lut_ref(x, c['modlut'])
            mod_is_lut = True
            rng_ = (float(min(c['modlut']['data'])), float(max(c['modlut']['data'])))
        else:
            lvm = _first_level(c, fi, 'rescale')
            d = Dataset()
            d.RescaleSlope = float(F(lvm['slope'] or 1))
            d.RescaleIntercept = float(F(lvm['icpt'] or 0))
            m = apply_modality_lut(x, d).astype(np.float64)
            rng_ = (d.RescaleSlope * lo + d.RescaleIntercept, d.RescaleSlope * hi + d.RescaleIntercept)
    # ---- VOI
    v = m
    voi_applied = False
    if fl['voi'] is not False:
        s = c['vsel']
        cw = None
        vl = None
        fn = 'LINEAR'
        present = True
        if isinstance(s, dict) and 'userwin' in s:
            if len(s['userwin'][0]) != 1:
                return ('err', 'user transformation with several windows')
            cw = (float(F(s['userwin'][0][0])), float(F(s['userwin'][1][0])))
            fn = s.get('fn') or 'LINEAR'
        elif isinstance(s, dict) and 'userlut' in s:
            if len(s['userlut']) != 1:
                return ('err', 'user transformation with several luts')
            vl = s['userlut'][0]
        elif c['voiluts'] is not None:
            if isinstance(s, str):
                vl = next((l for l in c['voiluts'] if l['expl'] == s), None)
            else:
                vl = _pyidx(c['voiluts'], s)
            if vl is None:
                return ('err', 'voi lut selector not present')
        else:
            lvw = _first_level(c, fi, 'win')
            if lvw is None:
                present = False
            else:
                w = lvw['win']
                if isinstance(s, str):
                    i = w['expl'].index(s) if (w['expl'] is not None and s in w['expl']) else None
                else:
                    i = s
                a = _pyidx(w['centers'], i) if i is not None else None
                b = _pyidx(w['widths'], i) if i is not None else None
                if a is None or b is None:
                    return ('err', 'window selector not present')
                cw = (float(F(a)), float(F(b)))
                fn = w['fn'] or 'LINEAR'
        if not present:
            if fl['voi'] is True:
                return ('err', 'voi required, absent')
        elif cw is not None:
            v = _window_ref(m, fn, cw[0], cw[1], ymin, ymax)
            voi_applied = True
        else:
            if mod_applies and not mod_is_lut:
                ms, bs = F(lvm['slope'] or 1), F(lvm['icpt'] or 0)
                if ms.denominator != 1 or bs.denominator != 1 or ms <= 0 or (vl['first'] - bs) % ms != 0:
                    return ('any', 'VOI LUT cannot be folded through this rescale (documented refusal)')
            if not np.all(m == np.round(m)):
                return ('err', 'voi lut on non-integer modality values')
            raw = _lut_ref(m, vl)
            dmin, dmax = float(min(vl['data'])), float(max(vl['data']))
            if dmin == dmax:
                return ('any', 'constant voi lut')
            v = (raw - dmin) / (dmax - dmin) * (ymax - ymin) + ymin
            voi_applied = True
    if voi_applied:
        rng_ = (ymin, ymax)
    # ---- presentation
    marker = (c['pls'] == 'INVERSE') if c['pls'] else c['mono1']
    if fl['pres'] and marker:
        v = rng_[0] + rng_[1] - v
    return ('val', v.tolist(), {'voi': voi_applied, 'mod': mod_applies, 'mod_is_lut': mod_is_lut})


def _int_reject_ok(c, exp):
    """an integer output dtype may be refused when values are not integers, may not fit, or a table has a wider type"""
    import numpy as np
    info = np.iinfo(np.dtype(c['dtype']))
    vals = np.array(exp[1], dtype=np.float64)
    if np.any(vals != np.round(vals)) or vals.min() < info.min or vals.max() > info.max:
        return True
    st = exp[2] if len(exp) > 2 else None
    marker = (c['pls'] == 'INVERSE') if c['pls'] else c['mono1']
    if st is not None and not st['mod'] and not st['voi'] and not (c['flags']['pres'] and marker):
        # nothing is applied: the stored values are cast unchanged, and they all fit -> must be accepted
        return False
    return True    # with a rescale / table in effect the code's range analysis is conservative (whole stored range)


def _cmp_vals(got, exp, tol):
    import numpy as np
    g = np.array(got, dtype=np.float64).reshape(-1)
    e = np.array(exp, dtype=np.float64).reshape(-1)
    if g.shape != e.shape:
        return f'shape {g.shape} vs {e.shape}'
    bad = np.abs(g - e) > tol * (1 + np.abs(e))
    if bad.any():
        i = int(np.argmax(bad))
        return f'pixel {i}: got {g[i]!r}, stage-by-stage pipeline gives {e[i]!r}'
    return None


def _oracle_mono_frame(c, fi, got):
    exp = _expected_mono(c, fi)
    is_float = c['dtype'].startswith('float')
    if exp[0] == 'any':
        return None
    if exp[0] == 'err':
        return None if isinstance(got, Err) else f'expected a rejection ({exp[1]}), got values'
    info = exp[2] if len(exp) > 2 else {}
    if isinstance(got, Err):
        if not is_float:
            return None if _int_reject_ok(c, exp) else f'refused: {got}'
        if c['dtype'] == 'float32' and (c['voiluts'] is None or not info.get('voi')) and _f32_reject_ok(c, info):
            return None
        return f'valid request refused with {got} (expected values {exp[1][:4]}..)'
    if got == 'ok':
        return None
    return _cmp_vals(got, exp[1], 1e-9)


def _f32_reject_ok(c, info):
    """float32 output: tables of float64 (real world value LUT) or uint32+ cannot be cast safely"""
    return True


def oracle(c, out):
    return _oracle(c, out)


OBSERVED = ('WrongDtype', 'CallerArrayModified', 'SliceOrder')


def _oracle_hist(c, outs):
    """every operation of a history is judged on its own: a read = the stored values (as WRITTEN into
    PixelData) through the stages, whatever was done with the object before; .pixel_array /
    get_stored_frame = the stored values"""
    if isinstance(outs, Err):
        return f'history could not be run: {outs}'
    if len(outs) != len(c['ops']):
        return f'{len(outs)} results for {len(c["ops"])} operations'
    order = _vol_order(c) if c.get('zs') else None

    def before(k):
        return ' -> '.join(o['op'] + (f"[{o['dtype']}]" if 'dtype' in o else '') for o in c['ops'][:k]) or 'nothing'
    for k, (op, out) in enumerate(zip(c['ops'], outs)):
        o = op['op']
        if o == 'touch':
            want = [c['frames'][i] for i in order] if c['api'] == 'series_hist' else c['frames']
            m = None if out == want else (f'pixel_array returns {out} but the stored values are {want}: reading '
                                          'transformed frames changed the stored values')
        elif o == 'stored':
            m = None if out == c['frames'][op['fi']] else (f'get_stored_frame({op["fi"] + 1}) returns {out} but '
                                                          f'{c["frames"][op["fi"]]} was stored')
        elif o == 'frame':
            m = _oracle(dict(c, kind='mono', api='get_frame', dtype=op['dtype'], fi=op['fi']), out)
        elif o == 'frames':
            m = _oracle(dict(c, kind='mono_mf', api='get_frames', dtype=op['dtype'], fis=op['fis']), out)
        elif o == 'volume':
            m = _oracle(dict(c, kind='mono_vol', api='get_volume', dtype=op['dtype']), out)
        elif o == 'tpm':
            m = _oracle(dict(c, kind='tpm', api='tpm', dtype=op['dtype']), out)
        elif o == 'series':
            m = _oracle(dict(c, kind='series', api='series', dtype=op['dtype']), out)
        else:
            m = f'unknown operation {o}'
        if m:
            return f'operation {k + 1} ({o}{"[" + op["dtype"] + "]" if "dtype" in op else ""}) after {before(k)}: {m}'
    return None


def _oracle(c, out):
    import numpy as np
    k = c['kind']
    if isinstance(out, Err) and out.kind.split(':')[0] in OBSERVED:
        return f'{out.kind}'
    if k in MONO_KINDS and c.get('api') in ('hist', 'series_hist'):
        return _oracle_hist(c, out)
    if k in MONO_KINDS:
        if c['api'] != 'get_frame':
            # several frames in one call: frame k of the output is frame fis[k] of the image
            fis = _fis(c)
            sub = (lambda i: (_slice_case(c, i), 0)) if c['api'] == 'series' else (lambda i: (c, i))
            if isinstance(out, Err):
                if out.kind.startswith('SliceOrder'):
                    return f'slices out of order: {out!r}'
                # a rejection of the whole call is right iff some frame must be rejected
                # (_get_pixels_by_frame also builds a transform for frame 0 whatever is requested)
                idx = list(fis) + ([0] if c['api'] in ('get_volume', 'tpm') else [])
                if not idx:
                    return None
                exps = [_expected_mono(*sub(i)) for i in idx]
                if any(e[0] in ('err', 'any') for e in exps) or not c['dtype'].startswith('float64'):
                    return None
                return f'{c["api"]} refused with {out}, every frame is valid'
            if out == 'ok' and c['api'] == 'series' and c['dtype'] == 'float32':
                # float32 volume of a series: the model only sees 'ok'; the values are checked here
                import highdicom as hd
                vol = hd.get_volume_from_series(_build_series(c), **_call_kw(c))
                for k, i in enumerate(fis):
                    exp = _expected_mono(*sub(i))
                    if exp[0] == 'val':
                        m = _cmp_vals(vol.array[k].reshape(-1).tolist(), exp[1], 1e-4)
                        if m:
                            return f'frame {i} (output position {k}, float32): {m}'
                return None
            if out == 'ok':
                return None
            if len(out) != len(fis):
                return f'{len(out)} frames returned for {len(fis)} requested'
            for k, i in enumerate(fis):
                cc, j = sub(i)
                m = _oracle_mono_frame(cc, j, out[k])
                if m:
                    return f'frame {i} (output position {k}): {m}'
            return None
        if c['dtype'] == 'float32' and not isinstance(out, Err):
            # values of float32 runs are checked here (the model only sees 'ok')
            im, _ = _build_image(c)
            kw = _flag_kw(c)
            kw.update(dtype=np.float32, real_world_value_map_selector=_sel_arg(c['rsel'], False),
                      voi_transform_selector=_sel_arg(c['vsel'], True),
                      voi_output_range=(float(F(c['yrange'][0])), float(F(c['yrange'][1]))))
            vals = im.get_frame(c['fi'] + 1, **kw).reshape(-1).tolist()
            exp = _expected_mono(c, c['fi'])
            if exp[0] == 'val':
                return _cmp_vals(vals, exp[1], 1e-4)
        return _oracle_mono_frame(c, c['fi'], out)
    if k == 'palette':
        fl = c['flags']
        if fl['rwvm'] is True or fl['mod'] is True or fl['voi'] is True:
            return None if isinstance(out, Err) else 'monochrome stage required on a palette image: expected rejection'
        if fl['mod'] is False and fl['voi'] is not False:
            return None if isinstance(out, Err) else 'expected rejection (voi needs modality)'
        if fl['icc'] is True:
            return None if isinstance(out, Err) else 'icc required but absent: expected rejection'
        if fl['icc'] is not False and fl['pal'] is False:
            return None if isinstance(out, Err) else 'expected rejection (icc needs palette)'
        if c['bad']:
            if fl['pal'] is False:
                return None
            return None if isinstance(out, Err) else f'malformed palette tables ({c["bad"]}) accepted'
        if fl['pal'] is False:
            want = [[x] for x in c['pixels']]
        else:
            from pydicom.dataset import Dataset
            from pydicom.pixels import apply_color_lut
            d = Dataset()
            d.PhotometricInterpretation = 'PALETTE COLOR'
            d.BitsAllocated = d.BitsStored = c['alloc']
            d.PixelRepresentation = 0
            desc, chans = _palette_raw(c)
            for name, b in zip(['Red', 'Green', 'Blue'], chans):
                d.add_new({'Red': 0x00281101, 'Green': 0x00281102, 'Blue': 0x00281103}[name], 'US', list(desc))
                d.add_new({'Red': 0x00281201, 'Green': 0x00281202, 'Blue': 0x00281203}[name], 'OW', bytes(b))
            arr = np.array(c['pixels'], dtype=np.uint8 if c['alloc'] == 8 else np.uint16)
            try:
                ref = apply_color_lut(arr, d)
            except Exception:      # pydicom guesses a bit depth from the data and may fail
                ref = None
            if c['bits'] == 8 or ref is None:
                # pydicom scales 8-bit tables to 16 bit output (v * 257 for true 8-bit entries); highdicom returns
                # the table entries: compare against the plain table lookup
                idx = np.clip(arr.astype(np.int64) - c['first'], 0, c['n'] - 1)
                want = [[c['data'][k][i] for k in range(3)] for i in idx.tolist()]
            else:
                want = ref.reshape(-1, 3).tolist()
        if isinstance(out, Err):
            dt = np.dtype(c['dtype'])
            src = np.dtype(np.uint8 if (c['bits'] == 8 and fl['pal'] is not False) else
                           (np.uint16 if fl['pal'] is not False else (np.uint8 if c['alloc'] == 8 else np.uint16)))
            if not np.can_cast(src, dt, 'safe'):
                return None
            return f'valid palette request refused: {out}'
        if [[int(x) for x in r] for r in out] != [[int(x) for x in r] for r in want]:
            return f'palette output {out[:3]}.. differs from table lookup {want[:3]}..'
        return None
    if k == 'lut':
        data = _gen_data(c)
        L = len(data)
        if c['op'] in ('roundtrip', 'roundtrip_file'):
            if isinstance(out, Err):
                return f'valid LUT refused: {out}'
            n0, first, bits, nbytes, got = out
            if (n0, first, bits) != (0 if L == 65536 else L, c['first'], c['bits']):
                return f'descriptor {(n0, first, bits)}'
            if isinstance(got, Err):
                return f'lut_data raises {got}'
            if got != _summary(data, c):
                return 'lut_data differs from the table that was given'
            return None
        if c['op'] == 'apply':
            if isinstance(out, Err):
                return f'apply refused: {out}'
            want = [data[min(max(x - c['first'], 0), L - 1)] for x in c['xs']]
            return None if out == want else f'apply {out} vs clipped lookup {want}'
        if c['op'] == 'scaled':
            ymin, ymax = float(F(c['yrange'][0])), float(F(c['yrange'][1]))
            if not ymin < ymax:
                return None if isinstance(out, Err) else 'bad output range accepted'
            if min(data) == max(data):
                return None
            if isinstance(out, Err):
                return f'scaled refused: {out}'
            lo, hi = min(data), max(data)
            want = [((hi - v) if c['invert'] else (v - lo)) / (hi - lo) * (ymax - ymin) + ymin for v in data]
            return _cmp_vals(out, want, 1e-9)
        if c['op'] == 'inverted':
            want = [min(data) + max(data) - v for v in data]
            return None if out == want else f'inverted {out[:5]} vs {want[:5]}'
    if k == 'lut_layout':
        if isinstance(out, Err):
            return f'valid LUT ({c["cls"]}, layout {c["layout"]}) refused / mishandled: {out}'
        data = c['data']
        L = len(data)
        n0, first, bits, nbytes, raw, got, app = out
        if (n0, first, bits) != (0 if L == 65536 else L, c['first'], c['bits']):
            return f'descriptor {(n0, first, bits)}'
        import struct
        std = struct.pack(f'<{L}H', *data) if c['bits'] == 16 else bytes(data) + (b'\0' if L % 2 else b'')
        if nbytes != len(std) or raw != _summary(list(std), c):
            return (f'stored LUTData {raw} is not the little-endian encoding {_summary(list(std), c)} of the '
                    f'table that was given (layout {c["layout"]})')
        if isinstance(got, Err):
            return f'lut_data raises {got}'
        if got != _summary(data, c):
            return f'lut_data {got} differs from the table that was given {_summary(data, c)} (layout {c["layout"]})'
        if isinstance(app, Err):
            return f'apply refused: {app}'
        want = [data[min(max(x - c['first'], 0), L - 1)] for x in c['xs']]
        return None if app == want else f'apply {app} vs clipped lookup {want}'
    if k == 'lut_big':
        if isinstance(out, Err):
            return f'valid LUT of {c["gen"][0]} entries refused: {out}'
        data = _gen_data(c)
        L = len(data)
        n0, first, bits, nbytes, nent, got, app = out
        if n0 != (0 if L == 65536 else L) or nent != L:
            return f'descriptor {n0} / number_of_entries {nent} for {L} entries'
        if got != _summary(data, c):
            return 'lut_data differs from the table that was given'
        want = [data[0], data[0], data[min(1, L - 1)], data[-1], data[-1]]
        return None if app == want else f'apply at the ends {app} vs {want}'
    if k == 'lut_err':
        return None if isinstance(out, Err) else f'invalid LUT ({c["what"]}) accepted'
    if k == 'voi_apply':
        ymin, ymax = float(F(c['yrange'][0])), float(F(c['yrange'][1]))
        x = np.array(c['xs'], dtype=np.int64)
        use_lut = c['win'] is None or (c['luts'] is not None and c['prefer_lut'])
        s = c['sel']
        if use_lut:
            if isinstance(s, str):
                vl = next((l for l in c['luts'] if l['expl'] == s), None)
            else:
                vl = _pyidx(c['luts'], s)
            if vl is None:
                return None if isinstance(out, Err) else 'missing LUT selected'
            raw = _lut_ref(x, vl)
            lo, hi = float(min(vl['data'])), float(max(vl['data']))
            if lo == hi:
                return None
            want = (raw - lo) / (hi - lo) * (ymax - ymin) + ymin
        else:
            w = c['win']
            if isinstance(s, str):
                i = w['expl'].index(s) if (w['expl'] is not None and s in w['expl']) else None
            else:
                i = s
            a = _pyidx(w['centers'], i) if i is not None else None
            b = _pyidx(w['widths'], i) if i is not None else None
            if a is None or b is None:
                return None if isinstance(out, Err) else 'missing window selected'
            want = _window_ref(x.astype(np.float64), w['fn'] or 'LINEAR', float(F(a)), float(F(b)), ymin, ymax)
        if c['invert']:
            want = ymin + ymax - want
        if isinstance(out, Err):
            return f'valid VOI transformation refused: {out}'
        return _cmp_vals(out, want.tolist(), 1e-9)
    if k == 'rwvm_apply':
        r = c['r']
        x = c['xs']
        if min(x) < r['first'] or max(x) > r['last']:
            return None if isinstance(out, Err) else 'value outside the mapped range accepted'
        if isinstance(out, Err):
            return f'valid mapping refused: {out}'
        if r['kind'] == 'lin':
            want = [v * float(F(r['slope'])) + float(F(r['icpt'])) for v in x]
        else:
            want = [float(F(r['data'][v - r['first']])) for v in x]
        return _cmp_vals(out, want, 1e-9)
    if k == 'window':
        ymin, ymax = float(F(c['yrange'][0])), float(F(c['yrange'][1]))
        if not ymin < ymax:
            return None if isinstance(out, Err) else 'bad output range accepted'
        if isinstance(out, Err):
            return f'window refused: {out}'
        want = _window_ref(np.array([float(F(x)) for x in c['xs']]), c['fn'], float(F(c['c'])), float(F(c['w'])), ymin, ymax)
        if c['invert']:
            want = ymin + ymax - want
        return _cmp_vals(out, want.tolist(), 1e-9)
    return f'unknown kind {k}'


def nontrivial(c, out):
    if isinstance(out, Err):
        return True
    if out == 'ok':
        return True

    def flat(v):
        if isinstance(v, (list, tuple)):
            for x in v:
                yield from flat(x)
        else:
            yield v
    return len(set(flat(out))) >= 2


def _shrink_series(c):
    """series cases: drop one instance (at least two stay, positions re-spaced regularly in the same
    order), then simplify what all instances share, then one pixel per slice"""
    n = len(c['frames'])
    if c['dtype'] != 'float64':
        yield dict(c, dtype='float64')
    if n > 2:
        for j in range(n):
            keep = [i for i in range(n) if i != j]
            rank = sorted(keep, key=lambda i: c['zs'][i])
            zs = {i: 2.5 * r for r, i in enumerate(rank)}
            d = dict(c, frames=[c['frames'][i] for i in keep], zs=[zs[i] for i in keep],
                     slice_roots=[c['slice_roots'][i] for i in keep])
            if c.get('slice_over'):
                d['slice_over'] = [c['slice_over'][i] for i in keep]
            yield d
    for key in ('rwvm', 'win'):
        if any(r[key] is not None for r in c['slice_roots']):
            yield dict(c, slice_roots=[dict(r, **{key: None}) for r in c['slice_roots']])
    if any(r['slope'] is not None or r['icpt'] is not None for r in c['slice_roots']):
        yield dict(c, slice_roots=[dict(r, slope=None, icpt=None) for r in c['slice_roots']])
    if c.get('slice_over'):
        for key in ('modlut', 'voiluts', 'mono1', 'pls', 'stored'):
            if any(key in o for o in c['slice_over']):
                yield dict(c, slice_over=[{a: b for a, b in o.items() if a != key} for o in c['slice_over']])
    if c['mono1'] or c['pls']:
        yield dict(c, mono1=False, pls=None)
    if c['vsel'] != 0:
        yield dict(c, vsel=0)
    if c['yrange'] != ['0', '1']:
        yield dict(c, yrange=['0', '1'])
    for fk, fv in c['flags'].items():
        dflt = {'rwvm': None, 'mod': None, 'voi': False, 'pres': True, 'pal': None, 'icc': None}[fk]
        if fv != dflt:
            yield dict(c, flags=dict(c['flags'], **{fk: dflt}))
    if c['rows'] * c['cols'] > 1:
        for i in range(c['rows'] * c['cols']):
            yield dict(c, rows=1, cols=1, frames=[[fr[i]] for fr in c['frames']])


def _shrink_layouts(c):
    """memory layouts: first all of them native, then one field at a time towards the plain contiguous array"""
    import copy
    keys = [k for k in ('layout', 'xlayout', 'tlayout') if c.get(k) is not None]
    luts = [l for l in _each_lut(c) if l.get('layout') is not None]
    chans = [i for i, l in enumerate(c.get('chan_layouts') or []) if l is not None]
    if len(keys) + len(luts) + len(chans) > 1 or c.get('via') == 'objects':
        d = copy.deepcopy(c)
        for k in keys:
            d[k] = None
        for l in _each_lut(d):
            l['layout'] = None
        if d.get('via') == 'objects':
            d['via'], d['chan_layouts'] = None, None
        yield d
    for k in keys:
        yield dict(c, **{k: None})
        for fld, plain in (('step', 1), ('lead', 0), ('trail', 0), ('how', 'view'), ('byteoff', 0), ('ro', False),
                           ('big', False)):
            if c[k].get(fld, plain) != plain:
                yield dict(c, **{k: dict(c[k], **{fld: plain})})
    for j in range(len(luts)):
        d = copy.deepcopy(c)
        l = [x for x in _each_lut(d) if x.get('layout') is not None][j]
        lay = l['layout']
        l['layout'] = None
        yield d
        for fld, plain in (('step', 1), ('lead', 0), ('trail', 0), ('how', 'view'), ('byteoff', 0), ('ro', False)):
            if lay.get(fld, plain) != plain:
                d = copy.deepcopy(c)
                [x for x in _each_lut(d) if x.get('layout') is not None][j]['layout'][fld] = plain
                yield d
    for i in chans:
        d = copy.deepcopy(c)
        d['chan_layouts'][i] = None
        yield d


def shrink(c):
    k = c['kind']
    if k in MONO_KINDS and c.get('api') in ('hist', 'series_hist'):
        # histories: fewer operations first, then plainer dtypes
        ops = c['ops']
        if len(ops) > 1:
            for i in range(len(ops)):
                yield dict(c, ops=ops[:i] + ops[i + 1:])
        for i, op in enumerate(ops):
            if op.get('dtype') not in (None, 'float64'):
                yield dict(c, ops=ops[:i] + [dict(op, dtype='float64')] + ops[i + 1:])
            if op['op'] in ('frames', 'volume', 'tpm'):
                for j in range(len(c['frames'])):
                    yield dict(c, ops=ops[:i] + [{'op': 'frame', 'dtype': op['dtype'], 'fi': j}] + ops[i + 1:])
    yield from _shrink_layouts(c)
    if k == 'lut_layout':
        if c.get('file'):
            yield dict(c, file=False)
        if c['cls'] != 'LUT':
            yield dict(c, cls='LUT')
        n = len(c['data'])
        if n > 1:
            for i in range(n):
                yield dict(c, data=c['data'][:i] + c['data'][i + 1:])
        if c['first'] != 0:
            yield dict(c, first=0, xs=[x - c['first'] for x in c['xs']])
    if k in MONO_KINDS and c.get('api') in ('series', 'series_hist'):
        yield from _shrink_series(c)
        return
    if k in MONO_KINDS:
        if c['dtype'] != 'float64':
            yield dict(c, dtype='float64')
        if c['api'] == 'get_frames':
            for i in range(len(c['frames'])):
                yield dict(c, api='get_frame', fi=i)
        for key in ('modlut', 'voiluts'):
            if c[key] is not None:
                yield dict(c, **{key: None})
        for name in ('root', 'shared'):
            lv = c[name]
            if lv:
                for key in ('rwvm', 'win'):
                    if lv[key] is not None:
                        yield dict(c, **{name: dict(lv, **{key: None})})
                if lv['slope'] is not None or lv['icpt'] is not None:
                    yield dict(c, **{name: dict(lv, slope=None, icpt=None)})
        if c['mono1'] or c['pls']:
            yield dict(c, mono1=False, pls=None)
        if c['vsel'] != 0:
            yield dict(c, vsel=0)
        if c['rsel'] != 0:
            yield dict(c, rsel=0)
        if c['yrange'] != ['0', '1']:
            yield dict(c, yrange=['0', '1'])
        for fk, fv in c['flags'].items():
            dflt = {'rwvm': None, 'mod': None, 'voi': False, 'pres': True, 'pal': None, 'icc': None}[fk]
            if fv != dflt:
                yield dict(c, flags=dict(c['flags'], **{fk: dflt}))
        if c['perframe'] is None and c['rows'] * c['cols'] > 1:
            fr = c['frames'][0]
            for i in range(len(fr)):
                yield dict(c, rows=1, cols=1, frames=[[fr[i]]])
    elif 'xs' in c and len(c['xs']) > 1:
        for i in range(len(c['xs'])):
            yield dict(c, xs=[c['xs'][i]])


# findings D53-D56, D73-D78, D88, D102 reported from this check have been fixed in the code; D106 (reuse of the
# first frame's transform over non-uniform per-frame groups) is OPEN: signature above
FINDINGS = {'D106': _sig_d106}


def extra_obligations(work):
    # T-int: the flag gate this model mirrors, re-translated from the current source
    import translate_int
    return translate_int.obligations(work, translate_int.FOR['C06'])


if __name__ == '__main__':
    sys.exit(common.main(sys.modules[__name__]))
