"""C01 - segmentation masks survive encode, write and read unchanged.

Implementation driven (real code from $VERIF_REPO/src):
  hd.seg.Segmentation(...) on synthetic sources (CT series, one multi-frame CT,
  DX image without frame of reference), Segmentation.save_as, hd.seg.segread
  (eager and lazy_frame_retrieval=True), get_pixels_by_source_instance,
  get_pixels_by_source_frame, iter_segments, pydicom's pixel_array of the
  written file; plus pydicom pack_bits/unpack_bits, hd.frame.decode_frame,
  Image.get_raw_frame and ImageFileReader.read_frame_raw on hand-made
  bit-packed images.  Input arrays are handed over in every numpy memory
  layout (kind rt_layout); kind rt_hist runs a schedule of calls (stacked read,
  combine_segments=True read, .pixel_array, get_stored_frame by number / index,
  get_stored_frames) on each of the three objects, so that every entry point
  is observed with a cold and with a warm decoded-array cache.  Tiled (slide microscopy) multi-frame sources
  (synth.sm_tiled, TILED_FULL and TILED_SPARSE, the latter also with its frames in any order): the mask handed
  over as ONE total pixel matrix (tile_pixel_array=True; spatial.get_tile_array cuts the frames) whose size is
  or is not a whole number of tiles, read back by source frame (kind rt_tiled), and frame by frame
  (kind rt_tiled_frames).
Model: coq/theories/C01_Model.v; theorems: C01_Props.v.
"""
import io
import json
import os
import sys
from fractions import Fraction as F

sys.path.insert(0, os.path.dirname(os.path.abspath(__file__)))
import common
from common import Err, catch, zlit, zl, zll

PROPERTY = 'C01'
PROPS_FILE = 'C01_Props.v'
COQ_IMPORTS = ['C01_Model']
TOL = F(1, 10**6)      # only used for the rescaled float32 read-back (stored / max_fractional_value)
ORACLE_PREMISES = [
    'W1: pydicom write followed by read preserves PixelData bytes and the functional-group element values',
    'K(ts): for RLE Lossless and JPEG-LS Lossless, decode(encode(frame)) = frame on the frames admitted (exercised, not proved)',
    'Q1: the SQLite inner join of _iterate_indices_for_stack returns exactly the rows with equal keys (modelled as a list look-up)',
    'G1: the POSITION of every source plane is supplied by geometry (C03/C11) as an integer stand-in with the same '
    'order and the same equalities (distance along the normal: minus the rank along z; frames of a tiled source handed '
    'over frame by frame: row-major tile index = ascending (row, column) position); from these the model computes the '
    'plane sort index (np.unique with return_index) and applies the uniqueness guard itself (kinds rt, rt_mf, '
    'rt_encaps, rt_layout, rt_dup, rt_tiled_frames); kinds rt_hist / observe / sched / malformed still take the sort '
    'permutation as an input',
    'F1: float32/float64 products x*max_fractional_value are exact on the dyadic inputs drawn (den | 1024), '
    'np.around is round-half-even',
    'P1: futures are gathered in submission order (frame list = map encode frames) for workers = n / executor',
]
MODELLED = ('Segmentation.__init__ pixel path (_check_segment_numbers, bit depth, _check_and_cast_pixel_array, '
            '_combine_segments, _get_nonempty_plane_indices, _get_segment_pixel_array, frame loop with the '
            'remainder_pixels carry, per-frame (segment, source) record, PixelData assembly), '
            'get_pixels_by_source_instance/_frame -> _iterate_indices_for_stack -> _get_pixels_by_seg_frame -> '
            '_get_pixels_by_frame, Image.get_raw_frame, frame.decode_frame (1-bit offset), io.ImageFileReader '
            'offset table + read_frame_raw length; pydicom pack_bits/unpack_bits re-modelled; the decoded-array '
            'cache (Image.pixel_array / _pixel_array: whole PixelData decoded at once, then indexed by '
            'get_stored_frame / get_stored_frames / _get_pixels_by_frame) and the combine_segments=True branch of '
            '_get_pixels_by_seg_frame (binary check, overlap check, label assembly); seg/utils.py iter_segments; the '
            'worker pool of the constructor (tasks submitted in frame order, completed in any order, gathered by '
            'future identity); the tile_pixel_array=True entry point: spatial.py tile grid '
            '(compute_tile_positions_per_frame offsets, row-major), get_tile_array (clipped slice + np.pad after), '
            'the shape[0]==1 / total-pixel-matrix-shape / TILED_FULL+omit guards, arange plane order, then the same '
            'frame loop and read path (construct_tiled); seg/content.py DimensionIndexSequence.get_index_values: '
            'np.unique(positions, return_index=True) as sort index + the guard "positions are not unique" '
            '(construct_pos / unique_index, over integer stand-ins of the positions); the refusal of a floating '
            'point 2-D / 3-D 0.0/1.0 mask for BINARY / LABELMAP when 1 is not a described number (fix of D117). '
            'Not modelled: '
            'geometry (how a position becomes a distance / tuple; positions enter as integer stand-ins), dataset attribute copying, codecs, file I/O, the memory '
            'layout of the input numpy array (the model sees values only; layouts are exercised, kind rt_layout).')
STRATA = ['rt', 'rt_mf', 'rt_nofor', 'rt_encaps', 'rescale', 'malformed', 'odd', 'pack', 'frame_at', 'rhe',
          'rt_layout', 'rt_hist', 'observe', 'sched', 'rt_tiled', 'rt_tiled_frames', 'tiled_bad', 'rt_dup']
RULE = ('rt*: rows x cols with every residue of rows*cols mod 8 incl. < 8 pixels, 1..5 planes x 1..4 segments, '
        'masks empty/full/sparse/per-segment-empty planes, dtype bool/uint8/uint16/float32/float64, label-map and '
        'stacked layouts (2-D/3-D/4-D), BINARY/FRACTIONAL/LABELMAP (sparse and > 255 segment numbers), '
        'max_fractional_value in {1,2,3,100,255}, omit_empty_frames on/off, implicit/explicit/RLE/JPEG-LS, '
        'workers 0 / ThreadPoolExecutor / 2, in-memory + segread + lazy segread, shuffled source positions, '
        'spacing 2.5 / 0.001 / 1000 / irregular with offset; LABELMAP x 2-D / 3-D BINARY MASK (0 / 1) in every dtype '
        '(bool, uint8, uint16, float32, float64) x sparse described numbers with and without 1 x non-empty / all-zero '
        'mask (D117 dimension: refused with ValueError or every described segment reads back as given), in every rt* '
        'kind incl. tiled; two source planes at ONE position (5 % of rt / rt_mf / rt_encaps / rt_layout, 12 % of '
        'rt_tiled_frames = repeated frame position of a TILED_SPARSE source) and kind rt_dup: series of single '
        'frames / frames of one multi-frame image with 1-2 repeated positions, mask plane of the later image not '
        'empty, all types / layouts / dtypes / omit / native + RLE: the constructor must refuse with ValueError '
        '(nothing stored) or every plane must read back (the model refuses: construct_pos); '
        'rt_layout: the same mask handed over in every numpy memory layout (Fortran order, per-plane transposed view, '
        'strided view of a larger buffer, negative strides, channel-first buffer viewed channel-last, read-only), '
        'native and RLE, the caller\'s buffer overwritten after construction; rt_hist: a schedule of calls on each of '
        'the three objects (in memory, segread, lazy segread): stacked read, combine_segments=True read, access of '
        '.pixel_array (fills the decoded-array cache), get_stored_frame by number / by index, get_stored_frames, in '
        'any order, so that every read entry point is exercised with a cold and with a warm cache; '
        'rt_hist also draws arbitrary request lists (sub-lists, repetitions, reorderings, unknown sources with '
        'assert_missing_frames_are_empty) and masks whose combined read must be refused; the model evaluates the '
        'specification of THAT request list (expected_req / spec_combined) on all four object / cache states; '
        'observe: iter_segments of the read file and pydicom\'s own pixel_array of the written file, model-compared; '
        'sched: encapsulated syntax with an Executor that completes the encode tasks in a rotated / reversed order; '
        'rt_tiled: a tiled multi-frame source (TILED_FULL / TILED_SPARSE) and the mask as ONE total pixel matrix '
        '(tile_pixel_array=True), 1..3 x 1..3 tiles of 13 tile sizes (square, oblong both ways, every residue of '
        'the frame size mod 8), EVERY residue of matrix rows mod tile rows and matrix columns mod tile columns '
        '(80 % of the matrices are not a whole number of tiles in at least one direction), all types / layouts / '
        'dtypes / omit / native+RLE+JPEG-LS / memory layouts, request lists of source frame numbers (all, shuffled, '
        'sub-lists with repetitions), three objects; modes: tpm (same tile size as the source: read by source '
        'frame), tpm_full (TILED_FULL) and tpm_size (another tile size): by-frame indexing refused as documented, '
        'stored frames + get_total_pixel_matrix judged, tpm_order: as tpm on a TILED_SPARSE source that lists its '
        'frames in a shuffled (not row-major) order - judged through the source frame references and the read by '
        'source frame (open finding D113, signature FINDINGS[D113]) or, same object, through everything else; '
        'rt_tiled_frames: the same sources, mask handed over frame '
        'by frame, TILED_SPARSE sources with shuffled frame order; tiled_bad: every guard of the entry point; '
        'valid kinds: the model also evaluates its `valid` predicate and its specification (must both be true); malformed: every constructor and query guard violated once; pack/frame_at: pydicom packing, '
        'get_raw_frame/decode_frame/read_frame_raw on hand-made bit-packed images; '
        'non-trivial = at least one non-zero pixel read back (or a refusal); distinct by case hash')
NOT_EXECUTED = ['JPEG 2000 transfer syntaxes (no openjpeg codec installed)',
                'JPEG-LS on frames < 64 pixels or on noisy frames (the pyjpegls plugin fails with "destination buffer too small"; JPEG-LS masks are kept sparse)',
                'tile_pixel_array=True with a source that has several optical paths / focal planes or missing tiles, or '
                'with caller-supplied geometry (plane_positions, pixel_measures, plane_orientation): C03/C04',
                'get_total_pixel_matrix / get_tiles read paths of tiled segmentations: observed oracle-only here, '
                'modelled by C04']
EXHAUSTIVE = {'quick': False, 'thorough': False}

TS = {'implicit': '1.2.840.10008.1.2', 'explicit': '1.2.840.10008.1.2.1',
      'rle': '1.2.840.10008.1.2.5', 'jpegls': '1.2.840.10008.1.2.4.80'}
INT_DT = ['bool', 'uint8', 'uint16']
FLT_DT = ['float32', 'float64']
# numpy memory layouts of the mask handed to the constructor (same values, same shape, same dtype):
#   C         C-contiguous
#   F         np.asfortranarray (e.g. arrays from NIfTI readers)
#   planeT    every plane is a transposed view (rows/columns swapped in memory), planes in sequence
#   volT      transposed view of an (x, y, z[, s]) volume = all axes reversed in memory
#   strided   every other element of a buffer twice as large along every axis
#   neg       negative strides along every axis (a flipped view of a flipped copy)
#   chanfirst 4-D only: (segments, planes, rows, cols) buffer viewed channel-last by moveaxis
#   readonly  C-contiguous, writeable flag cleared
MEM = ['C', 'F', 'planeT', 'volT', 'strided', 'neg', 'chanfirst', 'readonly']
# steps of a history (kind rt_hist), applied in order to each of the three objects
H_STACK, H_COMBINE, H_WARM, H_FRAMES, H_STORED_FRAMES, H_FRAMES_IDX = 0, 1, 2, 3, 4, 5


def _open_findings():
    try:
        d = json.load(open(os.path.join(common.VERIF, 'KNOWN_FINDINGS.json')))
        return {f['id'] for f in d.get('findings', []) if f.get('status') == 'open' and f.get('property') == 'C01'}
    except Exception:
        return set()


# --------------------------------------------------------------------------
# exact reference arithmetic (independent of numpy and of the model)
# --------------------------------------------------------------------------
def _rhe(a, b):
    return round(F(a, b))          # Python rounds Fractions half to even


def _is_float(c):
    return c['dtype'] in FLT_DT


def _expected(c):
    """[plane][pixel][segment] stored values the user must get back (input order)."""
    segs, data, mf, den = c['segs'], c['data'], c['maxfrac'], c['den']
    out = []
    for pl in data:
        op = []
        for px in pl:
            if c['layout'] == 'stack':
                vals = list(px)
            elif _is_float(c):
                vals = None
            else:
                vals = [1 if px == s else 0 for s in segs]
            if _is_float(c):
                if c['layout'] == 'label':      # float label array = one segment (documented)
                    if c['ty'] == 'FRACTIONAL':
                        vals = [_rhe(px * mf, den)]
                    else:
                        vals = [1 if px // den == s else 0 for s in segs]
                elif c['ty'] == 'FRACTIONAL':
                    vals = [_rhe(v * mf, den) for v in vals]
                else:
                    vals = [v // den for v in vals]
            elif c['ty'] == 'FRACTIONAL':
                vals = [v * mf for v in vals]
            op.append(vals)
        out.append(op)
    return out


def _all_rounds_to_zero(c):
    """inputs of the (fixed) finding D61: float FRACTIONAL mask, omission on, some
    non-zero input but every quantised value is 0."""
    if not (c.get('kind', '').startswith('rt') or c.get('kind') in ('rescale', 'd61')):
        return False
    if c['ty'] != 'FRACTIONAL' or not _is_float(c) or not c['omit']:
        return False
    flat = [v for pl in c['data'] for px in pl for v in (px if c['layout'] == 'stack' else [px])]
    return any(v != 0 for v in flat) and all(_rhe(v * c['maxfrac'], c['den']) == 0 for v in flat)


def _d113(c):
    """signature of the OPEN finding D113: tile_pixel_array=True with the tile size of the source (source frames
    are referenced), a TILED_SPARSE source whose frames are NOT listed in row-major tile order, and the result
    judged through the source frame references / the read by source frame.  NOT covered (still judged): the same
    source with the mask handed over frame by frame (rt_tiled_frames), the stored frames and the total pixel
    matrix read of the same object (judge == 'matrix'), every row-major source."""
    return (c.get('kind') == 'rt_tiled' and c.get('mode') == 'tpm_order' and c.get('judge') == 'byframe' and
            c.get('th') == c.get('sth') and c.get('tw') == c.get('stw') and not c.get('src_full') and
            c.get('forder') is not None and c['forder'] != sorted(c['forder']))


# D59, D61, D67 were fixed while this check was built; D113 (source frame references of tile_pixel_array) is open
FINDINGS = {'D113': _d113}


# --------------------------------------------------------------------------
# generators
# --------------------------------------------------------------------------
SHAPES_BY_RES = {}
for _r in range(1, 8):
    for _c in range(1, 10):
        SHAPES_BY_RES.setdefault((_r * _c) % 8, []).append((_r, _c))
SMALL = [(r, c) for r in range(1, 4) for c in range(1, 4) if r * c < 8]


def _shape(rng, big=False):
    if big:
        return rng.choice([(8, 8), (8, 9), (9, 9), (8, 10)])
    u = rng.random()
    if u < 0.3:
        return rng.choice(SMALL)
    res = rng.randrange(8)
    cand = [s for s in SHAPES_BY_RES[res] if s[0] * s[1] <= 30]
    return rng.choice(cand)


def _mask(rng, P, n, S, mode):
    """binary stacked mask [P][n][S], non-overlapping unless mode == 'overlap'"""
    m = [[[0] * S for _ in range(n)] for _ in range(P)]
    if mode == 'empty':
        return m
    for p in range(P):
        if mode == 'full':
            for i in range(n):
                m[p][i][rng.randrange(S)] = 1
            continue
        if mode in ('some_planes_empty', 'sparse') and rng.random() < (0.45 if mode == 'some_planes_empty' else 0.15):
            continue
        dens = rng.choice([0.1, 0.3, 0.6, 0.9])
        present = [s for s in range(S) if rng.random() < 0.7] or [rng.randrange(S)]
        for i in range(n):
            if rng.random() < dens:
                if mode == 'overlap':
                    for s in present:
                        if rng.random() < 0.6:
                            m[p][i][s] = 1
                else:
                    m[p][i][rng.choice(present)] = 1
    if mode == 'one_pixel':
        m = [[[0] * S for _ in range(n)] for _ in range(P)]
        m[rng.randrange(P)][rng.randrange(n)][rng.randrange(S)] = 1
    return m


def _segs(rng, ty, S):
    if ty == 'LABELMAP' and rng.random() < 0.6:
        pool = [1, 2, 3, 5, 7, 200, 255, 256, 300, 1000, 65535]
        return sorted(rng.sample(pool, S))
    return list(range(1, S + 1))


def _valid_case(rng, kind, source='series', ts=None, big=False, force_ty=None, shape=None, planes=None):
    ty = force_ty or rng.choice(['BINARY', 'FRACTIONAL', 'LABELMAP'])
    if ts in ('rle', 'jpegls') and ty == 'BINARY':
        ty = rng.choice(['FRACTIONAL', 'LABELMAP'])
    rows, cols = shape or _shape(rng, big)
    n = rows * cols
    P = planes or (1 if source == 'nofor' else rng.randint(1, 3 if big else 5))
    S = rng.randint(1, 2 if big else 4)
    segs = _segs(rng, ty, S)
    layout = rng.choice(['stack', 'label'])
    mode = rng.choice(['sparse', 'sparse', 'some_planes_empty', 'full', 'empty', 'one_pixel', 'overlap'])
    if mode == 'overlap' and (layout == 'label' or ty == 'LABELMAP'):
        mode = 'sparse'
    m = _mask(rng, P, n, S, mode)
    dtype = rng.choice(INT_DT + FLT_DT)
    den, mf = 1, rng.choice([1, 2, 3, 100, 255])
    two_d = False
    # D117 dimension: a BINARY MASK (values 0 / 1, every input dtype incl. bool / float32 / float64) handed over
    # as a 2-D / 3-D array for a LABELMAP whose described numbers are sparse and may or may not contain 1
    binmask = ty == 'LABELMAP' and layout == 'label' and kind != 'rescale' and rng.random() < 0.5
    if binmask:
        with1 = rng.random() < 0.4
        pool = [2, 3, 5, 7, 200, 255, 256, 300, 1000, 65535]
        segs = sorted(rng.sample(pool, S - 1 if with1 else S) + ([1] if with1 else []))
        m1 = _mask(rng, P, n, 1, 'empty' if rng.random() < 0.2 else mode)
        nz = any(px[0] for pl in m1 for px in pl)
        if nz and 1 not in segs and not (kind in REFUSABLE and rng.random() < 0.75):
            segs[0] = 1         # kinds whose oracle wants an accepted object: keep the mask described
        data = [[px[0] for px in pl] for pl in m1]
        two_d = P == 1 and rng.random() < 0.5
    elif layout == 'label':
        if dtype in FLT_DT:
            # a float label array is a single segment
            S, segs = 1, [1]
            m = [[[px[0]] for px in pl] for pl in m]
            if ty == 'LABELMAP':
                segs = [1]
        data = [[sum(segs[k] * px[k] for k in range(S)) for px in pl] for pl in m]
        mx = max(segs)
        if dtype == 'bool' and mx > 1:
            dtype = 'uint8'
        if dtype == 'uint8' and mx > 255:
            dtype = 'uint16'
        two_d = P == 1 and rng.random() < 0.5
    else:
        data = m
    if dtype in FLT_DT:
        den = rng.choice([1, 2, 4, 256, 1024])
        if ty == 'FRACTIONAL' and not binmask and rng.random() < 0.8:
            # truly fractional values, dyadic, incl. exact .5 ties after scaling
            def fr(v):
                return 0 if (v == 0 and rng.random() < 0.8) else rng.choice([den, rng.randint(0, den), den // 2, rng.randint(0, den)])
            data = [[fr(px) for px in pl] for pl in data] if layout == 'label' else \
                   [[[fr(v) for v in px] for px in pl] for pl in data]
        else:
            data = [[px * den for px in pl] for pl in data] if layout == 'label' else \
                   [[[v * den for v in px] for px in pl] for pl in data]
    omit = rng.random() < 0.6
    zrank = list(range(P))
    rng.shuffle(zrank)
    if ts is None:
        ts = rng.choice(['implicit', 'explicit'])
    workers = 0
    if ts in ('rle', 'jpegls'):
        workers = rng.choice([0, 'thread', 'thread', 2])
    elif rng.random() < 0.05:
        workers = 'thread'
    req = list(range(P))
    u = rng.random()
    if u < 0.15:
        rng.shuffle(req)
    elif u < 0.25:
        req = [rng.randrange(P) for _ in range(rng.randint(1, P + 1))]
    c = {'kind': kind, 'ty': ty, 'layout': layout, 'dtype': dtype, 'den': den, 'maxfrac': mf, 'omit': omit,
         'segs': segs, 'rows': rows, 'cols': cols, 'srows': rows, 'scols': cols, 'P': P, 'nsrc': P,
         'data': data, 'zrank': zrank, 'ts': ts, 'workers': workers, 'source': source, 'two_d': two_d,
         'req': req, 'assert_missing': source in ('mf', 'sm') and rng.random() < 0.8, 'byframe': source in ('mf', 'sm'),
         'mem': rng.choice(MEM[1:]) if rng.random() < 0.12 else 'C'}
    if binmask:
        c['binmask'] = True
    # positions of the source planes: spacing (regular 2.5 mm; arbitrarily close; far apart; irregular with an
    # offset) and - kinds whose model takes the positions as its input - two planes at ONE position
    if kind in POS_KINDS and source in ('series', 'mf') and P >= 2:
        u = rng.random()
        if u < 0.08:
            c['zstep'] = rng.choice([0.001, 0.001, 1000.0])
        elif u < 0.2:
            z, zs = rng.choice([0.0, -100.0, 37.5]), []
            for _ in range(P):
                zs.append(z)
                z = round(z + rng.choice([0.001, 0.5, 2.5, 7.25]), 6)
            c['zstep'] = zs
        if rng.random() < 0.05:
            _tie(rng, c)
    return c


# kinds in which a refusal by the constructor is a legitimate outcome the oracle judges (D117 dimension)
REFUSABLE = ('rt', 'rt_mf', 'rt_nofor', 'rt_encaps', 'rt_layout', 'rt_tiled', 'rt_hist', 'observe')
# kinds whose model term takes the plane POSITIONS (run_seg_pos), not the sort permutation
POS_KINDS = ('rt', 'rt_mf', 'rt_encaps', 'rt_layout', 'rt_dup')


def _tie(rng, c, later=None):
    """put a later plane at the position of an earlier one (a repeated acquisition, a second echo, a localiser
    inside the series): zrank gets a tie"""
    P = c['P']
    k = later if later is not None else rng.randrange(1, P)
    j = rng.randrange(k)
    c['zrank'] = list(c['zrank'])
    c['zrank'][k] = c['zrank'][j]
    if isinstance(c.get('zstep'), list):
        c.pop('zstep')


def _zs(c):
    """position along the normal of every source plane"""
    st = c.get('zstep')
    if isinstance(st, list):
        return [st[r] for r in c['zrank']]
    return [(2.5 if st is None else st) * r for r in c['zrank']]


def _has_dup(c):
    """two source planes at one position (the constructor cannot tell their mask planes apart)"""
    if c.get('source') in ('series', 'mf'):
        return len(set(c['zrank'])) < len(c['zrank'])
    if c.get('source') == 'sm' and not _tpm(c) and c.get('forder') is not None:
        return len(set(c['forder'])) < len(c['forder'])
    return False


def _undescribed(c):
    """a 2-D / 3-D (label map style) array with a pixel value that is not a described segment number - e.g. a
    binary mask (bool / uint8 / float 0.0 / 1.0) for a LABELMAP whose described numbers do not include 1"""
    if c['layout'] != 'label' or c['ty'] == 'FRACTIONAL' and _is_float(c):
        return False
    den = c['den'] if _is_float(c) else 1
    ok = set([0] + list(c['segs']))
    return any(px % den or px // den not in ok for pl in c['data'] for px in pl)


def _binmask_case(rng, dtype, two_d, with1, zero):
    """the D117 dimension, swept: LABELMAP, a 2-D / 3-D binary mask of the given dtype, sparse described numbers
    with / without 1, mask all-zero or not"""
    while True:
        c = _valid_case(rng, 'rt', force_ty='LABELMAP', planes=1 if two_d else None,
                        source=rng.choice(['series', 'series', 'mf']))
        if c.get('binmask') and (two_d or c['P'] >= 2) and len(c['segs']) <= 3:
            break
    n = c['rows'] * c['cols']
    pool = [2, 3, 5, 7, 200, 255, 256, 300, 1000, 65535]
    S = len(c['segs'])
    c['segs'] = sorted(rng.sample(pool, S - 1) + [1]) if with1 else sorted(rng.sample(pool, S))
    c['dtype'], c['two_d'] = dtype, two_d
    c['den'] = rng.choice([1, 2, 4, 256, 1024]) if dtype in FLT_DT else 1
    m = [[0] * n for _ in range(c['P'])] if zero else [[1 if rng.random() < 0.4 else 0 for _ in range(n)] for _ in range(c['P'])]
    if not zero:
        m[rng.randrange(c['P'])][rng.randrange(n)] = 1
    c['data'] = [[v * c['den'] for v in pl] for pl in m]
    return c


def _dup_case(rng, source):
    """kind rt_dup: a valid mask, one plane per source image / frame, but two of the source planes lie at the SAME
    position (distinct SOP instances / frames); the mask plane of the later one is not empty.  The constructor
    must refuse (nothing stored) or store every plane."""
    while True:
        c = _valid_case(rng, 'rt_dup', source=source, ts=rng.choice([None, None, None, 'rle']))
        nonempty = [k for k in range(1, c['P']) if any(any(px) if isinstance(px, list) else px for px in c['data'][k])]
        if c['P'] >= 2 and nonempty and not _undescribed(c) and not _all_rounds_to_zero(c):
            break
    c['zrank'] = list(range(c['P']))
    rng.shuffle(c['zrank'])
    c.pop('zstep', None)
    _tie(rng, c, later=rng.choice(nonempty))
    if c['P'] >= 4 and rng.random() < 0.3:
        _tie(rng, c)
    if rng.random() < 0.3:
        c['zstep'] = rng.choice([0.001, 1000.0, 0.5])
    c['req'] = list(range(c['P']))
    c.pop('req_is_numbers', None)
    if c['byframe']:
        c['assert_missing'] = True
    return c


def _malformed(rng):
    """one guard violated per case (constructor guards, then query guards)"""
    c = _valid_case(rng, 'malformed')
    which = rng.choice(['segnum', 'maxfrac', 'binary_encaps', 'channels', 'dtype', 'undescribed', 'stack_gt1',
                        'lm_overlap', 'float_range', 'float_nonbinary', 'plane_count', 'shape',
                        'q_empty', 'q_unknown', 'q_frame0', 'q_frame_big'])
    c['which'] = which
    P, n = c['P'], c['rows'] * c['cols']
    if which == 'segnum':
        if c['ty'] == 'LABELMAP':
            c['segs'] = rng.choice([[0, 1], [3, 2], [1, 1], [70000], [2, 1, 3]])
        else:
            c['segs'] = rng.choice([[2], [1, 3], [2, 1], [0, 1], [1, 2, 4]])
        S = len(c['segs'])
        c['layout'], c['dtype'], c['den'], c['two_d'] = 'stack', 'uint8', 1, False
        c['data'] = [[[0] * S for _ in range(n)] for _ in range(P)]
    elif which == 'maxfrac':
        c['ty'] = 'FRACTIONAL'
        c['segs'] = list(range(1, len(c['segs']) + 1))
        c['maxfrac'] = rng.choice([256, 256, 257, 300, 1000])
        if c['ts'] not in ('implicit', 'explicit'):
            c['ts'] = 'explicit'
    elif which == 'binary_encaps':
        c['ty'] = 'BINARY'
        c['segs'] = list(range(1, len(c['segs']) + 1))
        c['ts'] = 'rle'
    elif which == 'channels':
        S = len(c['segs'])
        k = rng.choice([S + 1, max(1, S - 1) if S > 1 else 2])
        c['layout'], c['dtype'], c['den'], c['two_d'] = 'stack', 'uint8', 1, False
        c['data'] = [[[0] * k for _ in range(n)] for _ in range(P)]
    elif which == 'dtype':
        # signed / wide integers, and arrays in non-native (big-endian) byte order: refused loudly
        c['dtype'] = rng.choice(['int64', 'int32', 'int16', 'int8', 'uint32', '>u2', '>f4', '>f8'])
        c['den'] = 1
        S = len(c['segs'])
        if c['layout'] == 'label':
            c['data'] = [[rng.choice([0, 1]) * c['segs'][0] for _ in range(n)] for _ in range(P)]
            if c['dtype'] == 'int8' and c['segs'][0] > 127:
                c['dtype'] = 'int64'
            if c['dtype'] == 'int16' and c['segs'][0] > 32767:
                c['dtype'] = 'int64'
        else:
            c['data'] = [[[0] * S for _ in range(n)] for _ in range(P)]
    elif which == 'undescribed':
        c['layout'], c['dtype'], c['den'], c['two_d'] = 'label', 'uint16', 1, False
        bad = rng.choice(([v for v in range(1, 9) if v not in c['segs']] + [v for v in [max(c['segs']) + 1] if v <= 65535])
                         or [next(v for v in range(9, 65536) if v not in c['segs'])])   # must fit uint16
        c['data'] = [[0] * n for _ in range(P)]
        c['data'][rng.randrange(P)][rng.randrange(n)] = bad
    elif which == 'stack_gt1':
        S = len(c['segs'])
        c['layout'], c['dtype'], c['den'], c['two_d'] = 'stack', rng.choice(['uint8', 'uint16']), 1, False
        c['data'] = [[[0] * S for _ in range(n)] for _ in range(P)]
        c['data'][rng.randrange(P)][rng.randrange(n)][rng.randrange(S)] = rng.choice([2, 3, 255])
    elif which == 'lm_overlap':
        c['ty'] = 'LABELMAP'
        c['segs'] = _segs(rng, 'LABELMAP', 2 + rng.randrange(2))
        S = len(c['segs'])
        c['layout'], c['two_d'] = 'stack', False
        c['dtype'] = rng.choice(['uint8', 'bool', 'float32'])
        c['den'] = 4 if c['dtype'] == 'float32' else 1
        c['data'] = [[[0] * S for _ in range(n)] for _ in range(P)]
        px = c['data'][rng.randrange(P)][rng.randrange(n)]
        px[0] = px[1] = c['den']
    elif which in ('float_range', 'float_nonbinary'):
        c['dtype'] = rng.choice(FLT_DT)
        c['den'] = 4
        S = len(c['segs'])
        if which == 'float_nonbinary':
            c['ty'] = rng.choice(['BINARY', 'LABELMAP'])
            if c['ty'] == 'BINARY':
                c['segs'] = list(range(1, S + 1))
                if c['ts'] not in ('implicit', 'explicit'):
                    c['ts'] = 'explicit'
            bad = rng.choice([1, 2, 3])
        else:
            bad = rng.choice([-1, 5, 6, -4])
        c['layout'], c['two_d'] = 'stack', False
        c['data'] = [[[0] * S for _ in range(n)] for _ in range(P)]
        c['data'][rng.randrange(P)][rng.randrange(n)][rng.randrange(S)] = bad
    elif which == 'plane_count':
        c['nsrc'] = P + rng.choice([1, 2]) if P == 1 or rng.random() < 0.5 else P - 1
        c['zrank'] = list(range(c['nsrc']))
        c['two_d'] = False
    elif which == 'shape':
        if rng.random() < 0.5:
            c['srows'] = c['rows'] + 1
        else:
            c['scols'] = c['cols'] + rng.choice([1, 2])
    elif which == 'q_empty':
        c['req'] = []
    elif which == 'q_unknown':
        c['req'] = c['req'] + [-1]
        c['assert_missing'] = rng.random() < 0.4
    elif which in ('q_frame0', 'q_frame_big'):
        c['source'], c['byframe'] = 'mf', True
        if which == 'q_frame0':
            c['req'] = [r + 1 for r in c['req']] + [rng.choice([0, -1])]
            c['assert_missing'] = rng.random() < 0.5
        else:
            c['req'] = [r + 1 for r in c['req']] + [P + rng.choice([1, 3])]
            c['assert_missing'] = rng.random() < 0.3
        c['req_is_numbers'] = True
    if c['ts'] in ('rle', 'jpegls') and c['ty'] == 'BINARY' and which != 'binary_encaps':
        c['ts'] = 'explicit'
    return c


def _odd(rng):
    """accepted inputs outside the documented domain: model must still agree;
    no property verdict (oracle-free)."""
    c = _valid_case(rng, 'odd')
    n, P = c['rows'] * c['cols'], c['P']
    c['layout'], c['two_d'] = 'label', False
    c['dtype'] = rng.choice(FLT_DT)
    c['den'] = rng.choice([2, 4, 256])
    if rng.random() < 0.5:
        c['ty'] = 'FRACTIONAL'
        c['segs'] = [1, 2] if rng.random() < 0.7 else [1, 2, 3]
        c['data'] = [[rng.choice([0, 0, c['den'], rng.randint(0, c['den'])]) for _ in range(n)] for _ in range(P)]
    else:
        c['ty'] = rng.choice(['LABELMAP', 'BINARY'])
        c['segs'] = rng.choice([[2], [2, 3], [1, 2]]) if c['ty'] == 'LABELMAP' else [1, 2]
        c['data'] = [[rng.choice([0, 0, c['den']]) for _ in range(n)] for _ in range(P)]
    if c['ty'] == 'BINARY' and c['ts'] in ('rle', 'jpegls'):
        c['ts'] = 'explicit'
    return c


def _d61(rng):
    c = _valid_case(rng, 'rt')
    n, P = c['rows'] * c['cols'], c['P']
    c.update(ty='FRACTIONAL', dtype=rng.choice(FLT_DT), den=1024, omit=True, layout='stack', two_d=False,
             maxfrac=rng.choice([1, 2, 100, 255]))
    c['segs'] = list(range(1, len(c['segs']) + 1))
    S = len(c['segs'])
    lim = max(1, (1024 // (2 * c['maxfrac'])) - 1)
    c['data'] = [[[rng.choice([0, 0, rng.randint(1, lim)]) for _ in range(S)] for _ in range(n)] for _ in range(P)]
    c['data'][0][0][0] = 1
    c.pop('binmask', None)
    if c['ts'] in ('rle', 'jpegls'):
        c['ts'] = 'explicit'
    return c


def _nonzero(c):
    return any(v for pl in c['data'] for px in pl for v in (px if isinstance(px, list) else [px]))


def _layout_case(rng):
    """a valid round trip whose input array is NOT C-contiguous (or is read-only); the buffer the
    caller owns is overwritten after construction in half of the cases"""
    while True:
        ts = rng.choice(['implicit', 'explicit', 'explicit', 'explicit', 'rle'])
        c = _valid_case(rng, 'rt_layout', source=rng.choice(['series', 'series', 'mf']), ts=ts)
        if c['rows'] > 1 and c['cols'] > 1 and _nonzero(c):
            break
    c['mem'] = rng.choice([m for m in MEM[1:] if m != 'chanfirst' or c['layout'] == 'stack'])
    c['mutate_after'] = rng.random() < 0.5
    return c


def _combine_status(c):
    """what combine_segments=True must do, per source plane: 'ok' | 'overlap' (RuntimeError) |
    'nonbinary' (ValueError) | 'ambiguous' (both defects in one plane: the order in which the frames of
    one output plane are visited is not specified, either error may come first)"""
    exp = _expected(c)
    top = c['maxfrac'] if c['ty'] == 'FRACTIONAL' else 1
    out = []
    for pl in exp:
        if c['ty'] == 'LABELMAP':
            out.append('ok')
            continue
        S = len(c['segs'])
        nb = [k for k in range(S) if c['ty'] == 'FRACTIONAL' and any(px[k] not in (0, top) for px in pl)]
        ov = any(sum(1 for k in range(S) if k not in nb and px[k] == top and top > 0) > 1 for px in pl)
        out.append('ambiguous' if nb and ov else 'nonbinary' if nb else 'overlap' if ov else 'ok')
    return out


def _hist_case(rng):
    """a valid object and a schedule of calls: stacked read, combined read, access of .pixel_array
    (warms the decoded-array cache), single stored frames by number / by index, get_stored_frames"""
    while True:
        ts = rng.choice([None, None, None, 'rle'])
        c = _valid_case(rng, 'rt_hist', source=rng.choice(['series', 'series', 'mf']), ts=ts)
        if c['P'] >= 2 and _nonzero(c):
            break
    if rng.random() < 0.5:
        c['omit'] = False
    if c['byframe']:
        c['assert_missing'] = True
    u = rng.random()
    if u < 0.35:
        h = [H_WARM, rng.choice([H_COMBINE, H_COMBINE, H_FRAMES]), H_STACK]
    elif u < 0.55:
        h = [rng.choice([H_COMBINE, H_FRAMES, H_FRAMES_IDX]), H_WARM, H_COMBINE, H_FRAMES, H_STORED_FRAMES]
    else:
        h = [rng.choice([H_STACK, H_COMBINE, H_WARM, H_FRAMES, H_STORED_FRAMES, H_FRAMES_IDX])
             for _ in range(rng.randint(2, 5))]
    if c['ty'] == 'FRACTIONAL' and c['maxfrac'] == 0:
        c['maxfrac'] = 1
    if 'ambiguous' in _combine_status(c):
        h = [H_STACK if k == H_COMBINE else k for k in h]
    c['hist'] = h
    # arbitrary request lists: sub-lists, repetitions, reorderings, absent sources
    P = c['P']
    u = rng.random()
    if u < 0.45:
        req = [rng.randrange(P) for _ in range(rng.randint(1, P + 2))]
        if rng.random() < 0.35:
            c['assert_missing'] = True
            req.insert(rng.randrange(len(req) + 1), P + rng.randrange(2) if c['byframe'] else rng.choice([-1, P]))
        c['req'] = req
        c.pop('req_is_numbers', None)
    return c


def _refusal_case(rng):
    """rt_hist with exactly ONE defective plane (a pixel in two segments, or a truly fractional value) and a
    request list that either avoids it (the combined read must succeed) or contains it (must be refused with
    the class of that defect)"""
    while True:
        c = _valid_case(rng, 'rt_hist', source=rng.choice(['series', 'series', 'mf']), ts=rng.choice([None, None, 'rle']),
                        force_ty=rng.choice(['FRACTIONAL', 'FRACTIONAL', 'BINARY']))
        if c['ty'] != 'LABELMAP' and c['P'] >= 2 and len(c['segs']) >= 2 and not c['two_d']:
            break
    P, n, S = c['P'], c['rows'] * c['cols'], len(c['segs'])
    defect = rng.choice(['overlap', 'nonbinary', 'nonbinary']) if c['ty'] == 'FRACTIONAL' else 'overlap'
    c['layout'] = 'stack'
    if defect == 'nonbinary':
        c['dtype'], c['den'], c['maxfrac'] = rng.choice(FLT_DT), rng.choice([2, 4, 256]), rng.choice([3, 100, 255])
    den = c['den'] if c['dtype'] in FLT_DT else 1
    c['den'] = den
    m = _mask(rng, P, n, S, 'sparse')
    d = rng.randrange(P)
    px = m[d][rng.randrange(n)]
    for k in range(S):
        px[k] = 0
    data = [[[v * den for v in q] for q in pl] for pl in m]
    if defect == 'overlap':
        a, b = rng.sample(range(S), 2)
        px2 = data[d][m[d].index(px)]
        px2[a] = px2[b] = den
    else:
        data[d][m[d].index(px)][rng.randrange(S)] = den // 2
    c['data'] = data
    others = [j for j in range(P) if j != d]
    req = [rng.choice(others) for _ in range(rng.randint(1, P + 1))]
    if rng.random() < 0.5:
        req.insert(rng.randrange(len(req) + 1), d)
    c['req'] = req
    c.pop('req_is_numbers', None)
    if c['byframe']:
        c['assert_missing'] = True
    c['hist'] = rng.choice([[H_COMBINE], [H_WARM, H_COMBINE], [H_COMBINE, H_STACK], [H_STACK, H_COMBINE, H_FRAMES]])
    return c


def _observe_case(rng):
    """a valid object observed through iter_segments and pydicom's own pixel_array"""
    while True:
        ts = rng.choice([None, None, None, 'rle'])
        c = _valid_case(rng, 'observe', source=rng.choice(['series', 'series', 'mf']), ts=ts)
        if _nonzero(c):
            break
    c['workers'] = 0
    return c


def _sched_case(rng):
    """encapsulated syntax, workers = an Executor that completes the encode tasks in the order
    rot_order(n, r, rev): rotation by r of the submission order, optionally reversed"""
    while True:
        c = _valid_case(rng, 'sched', source=rng.choice(['series', 'series', 'mf']), ts='rle')
        if c['P'] >= 2 and _nonzero(c):
            break
    c['workers'] = 'shuffle'
    c['rot'] = rng.randrange(0, 7)
    c['rev'] = rng.random() < 0.5
    return c


# --------------------------------------------------------------------------
# tiled (slide microscopy) sources
# --------------------------------------------------------------------------
# tile sizes: every residue of th*tw mod 8 that a small tile can have, square and both oblong orientations
TILE_SIZES = [(1, 1), (1, 3), (2, 2), (2, 3), (3, 2), (3, 3), (1, 5), (4, 2), (2, 5), (3, 5), (4, 4), (5, 3), (2, 7)]


def _cdiv(a, b):
    return -(-a // b)


def _grid(rng, th, tw, lim=150):
    """size R x C of a total pixel matrix covered by 1..3 x 1..3 tiles of th x tw: every residue of R mod th
    and C mod tw, biased (80 %) towards a matrix that is NOT a whole number of tiles in at least one direction"""
    while True:
        ntr, ntc = rng.randint(1, 3), rng.randint(1, 3)
        R = (ntr - 1) * th + rng.randint(1, th)
        C = (ntc - 1) * tw + rng.randint(1, tw)
        if R * C > lim:
            continue
        if (R % th or C % tw) or th * tw == 1 or rng.random() < 0.2:
            return R, C


def _tiled_case(rng, mode=None, ts=None):
    """the mask of a tiled multi-frame source handed over as ONE total pixel matrix (tile_pixel_array=True); the
    library cuts it into frames itself.  mode tpm: same tile size as the source, TILED_SPARSE - every stored frame
    refers to the source frame it lies under, read back by source frame; tpm_full: TILED_FULL organisation (no
    per-frame items; by-frame indexing is refused as documented), tpm_size: another tile size than the source
    (no source frame references) - for both the stored frames and get_total_pixel_matrix are observed;
    tpm_order: as tpm, but the TILED_SPARSE source lists its frames in another order than row-major
    (forder[k] = tile index of source frame k): judge == 'byframe' demands the property through the source frame
    references and the read by source frame (open finding D113), judge == 'matrix' judges everything else of the
    same object (stored frames, PixelData, omission, total pixel matrix)"""
    mode = mode or rng.choice(['tpm'] * 5 + ['tpm_order'] * 2 + ['tpm_full', 'tpm_size', 'tpm_size'])
    big = ts == 'jpegls'
    th, tw = rng.choice([(8, 8), (8, 9)]) if big else rng.choice(TILE_SIZES)
    R, C = _grid(rng, th, tw, lim=300 if big else 150)
    c = _valid_case(rng, 'rt_tiled', source='sm', ts=ts, shape=(R, C), planes=1, big=big)
    sth, stw = th, tw
    if mode == 'tpm_size':
        sth, stw = rng.choice([t for t in TILE_SIZES if t != (th, tw)])
    if mode == 'tpm_full' and _nonzero(c):
        c['omit'] = False      # TILED_FULL + omit_empty_frames is refused - unless the mask is entirely empty
    nsrc = _cdiv(R, sth) * _cdiv(C, stw)
    u = rng.random()
    req = list(range(1, nsrc + 1))
    if u < 0.15:
        rng.shuffle(req)
    elif u < 0.35:
        req = [rng.randint(1, nsrc) for _ in range(rng.randint(1, nsrc + 1))]
    c.update(mode=mode, th=th, tw=tw, sth=sth, stw=stw, nsrc=nsrc, src_full=rng.random() < 0.5,
             explicit_size=mode == 'tpm_size' or rng.random() < 0.3, req=req, req_is_numbers=True, sR=R, sC=C,
             byframe=True, assert_missing=rng.random() < 0.85, workers=0 if c['workers'] == 2 else c['workers'])
    if mode == 'tpm_order':
        if nsrc < 2:
            c['mode'] = 'tpm'
        else:
            forder = list(range(nsrc))
            while forder == sorted(forder):
                rng.shuffle(forder)
            c.update(src_full=False, forder=forder, judge=rng.choice(['byframe', 'byframe', 'matrix']),
                     assert_missing=True)
    return c


def _tiled_frames_case(rng, dup=None):
    """the same kind of source, the mask handed over frame by frame (tile_pixel_array=False): one plane per source
    frame; a TILED_SPARSE source may list its frames in any order (forder[k] = tile index of source frame k)"""
    th, tw = rng.choice(TILE_SIZES)
    R, C = _grid(rng, th, tw)
    n = _cdiv(R, th) * _cdiv(C, tw)
    c = _valid_case(rng, 'rt_tiled_frames', source='sm', shape=(th, tw), planes=n,
                    ts=rng.choice([None, None, None, 'rle']))
    forder = list(range(n))
    src_full = rng.random() < 0.4
    if not src_full and rng.random() < 0.7:
        rng.shuffle(forder)
    if not src_full and n >= 2 and (dup or dup is None and rng.random() < 0.12) and not _undescribed(c):
        # two frames of the TILED_SPARSE source at ONE (row, column, x, y, z) position (the slide-coordinate
        # branch of the position guard); the mask plane of the later one preferably not empty
        nonempty = [k for k in range(1, n) if any(any(px) if isinstance(px, list) else px for px in c['data'][k])]
        k = rng.choice(nonempty) if nonempty else rng.randrange(1, n)
        forder[k] = forder[rng.randrange(k)]
    c.update(R=R, C=C, th=th, tw=tw, src_full=src_full, forder=forder, nsrc=n,
             perm=sorted(range(n), key=lambda k: forder[k]), workers=0 if c['workers'] == 2 else c['workers'])
    return c


def _tiled_bad(rng):
    """every guard of the tile_pixel_array entry point violated once"""
    which = rng.choice(['t_planes', 't_shape', 't_shape', 't_not_tiled', 't_full_omit', 't_dtype', 't_undescribed'])
    c = _tiled_case(rng, mode='tpm_full' if which == 't_full_omit' else 'tpm')
    c['kind'], c['which'] = 'tiled_bad', which
    n = c['rows'] * c['cols']
    if which == 't_planes':
        c['P'] = 2
        c['data'] = [c['data'][0], c['data'][0]]
        c['two_d'] = False
    elif which == 't_shape':
        if rng.random() < 0.5:
            c['sR'] = c['rows'] + rng.choice([1, -1]) if c['rows'] > 1 else c['rows'] + 1
        else:
            c['sC'] = c['cols'] + rng.choice([1, -1]) if c['cols'] > 1 else c['cols'] + 1
    elif which == 't_full_omit':
        c['omit'] = True       # refused only if omission stays on, i.e. the mask is not entirely empty
        k = rng.randrange(n)
        if c['layout'] == 'label':
            c['data'][0][k] = c['segs'][0] * (c['den'] if c['dtype'] in FLT_DT else 1)
        else:
            c['data'][0][k] = [c['den'] if c['dtype'] in FLT_DT else 1] + [0] * (len(c['segs']) - 1)
    elif which == 't_dtype':
        c['dtype'], c['den'] = rng.choice(['int64', 'int16', 'uint32', '>u2', '>f4']), 1
        S = len(c['segs'])
        c['data'] = [[0] * n] if c['layout'] == 'label' else [[[0] * S for _ in range(n)]]
    elif which == 't_undescribed':
        c['layout'], c['dtype'], c['den'], c['two_d'] = 'label', 'uint16', 1, False
        bad = rng.choice(([v for v in range(1, 9) if v not in c['segs']] + [v for v in [max(c['segs']) + 1] if v <= 65535])
                         or [next(v for v in range(9, 65536) if v not in c['segs'])])   # must fit uint16
        c['data'] = [[0] * n]
        c['data'][0][rng.randrange(n)] = bad
    return c


def _tame(c):
    """JPEG-LS cases: the installed pyjpegls fails ('destination buffer too small') on small
    noisy frames, a limitation of the codec plugin; keep these masks low-entropy (sparse, and
    float values only 0 / 0.5 / 1)."""
    den = c['den']

    def t(i, v):
        if i % 4:
            return 0
        if c['dtype'] in FLT_DT and v not in (0, den):
            return den // 2 if den > 1 else den
        return v
    if c['layout'] == 'label':
        c['data'] = [[t(i, v) for i, v in enumerate(pl)] for pl in c['data']]
    else:
        c['data'] = [[[t(i, v) for v in px] for i, px in enumerate(pl)] for pl in c['data']]
    return c


def gen_cases(rng, tier):
    N = {'quick': 1, 'thorough': 12, 'search': 6}[tier]
    cases = []
    # hand-picked boundary cases first: every residue mod 8 for BINARY with several frames
    for res in range(8):
        for shape in SHAPES_BY_RES[res][:2]:
            c = _valid_case(rng, 'rt')
            if c['two_d'] or c['layout'] == 'label' and c['dtype'] in FLT_DT:
                c = _valid_case(rng, 'rt')
            n = shape[0] * shape[1]
            if n > 30:
                continue
            P, S = 3, 2
            m = _mask(rng, P, n, S, 'sparse')
            c.update(ty='BINARY', layout='stack', dtype='uint8', den=1, segs=[1, 2], rows=shape[0], cols=shape[1],
                     srows=shape[0], scols=shape[1], P=P, nsrc=P, data=m, zrank=rng.sample(range(P), P),
                     ts=rng.choice(['implicit', 'explicit']), workers=0, two_d=False, req=list(range(P)),
                     omit=rng.random() < 0.5, source='series', byframe=False, assert_missing=False)
            c.pop('zstep', None)
            c.pop('binmask', None)
            cases.append(c)
    for _ in range(135 * N):
        cases.append(_valid_case(rng, 'rt'))
    # D117 dimension swept: every dtype x 2-D / 3-D x (1 not described: non-empty -> refusal, all-zero -> accepted;
    # 1 described -> accepted, stored as label 1)
    for dtype in INT_DT + FLT_DT:
        for two_d in (False, True):
            cases.append(_binmask_case(rng, dtype, two_d, with1=False, zero=False))
        cases.append(_binmask_case(rng, dtype, rng.random() < 0.5, with1=True, zero=False))
        cases.append(_binmask_case(rng, dtype, rng.random() < 0.5, with1=False, zero=True))
    for _ in range(40 * N):
        cases.append(_valid_case(rng, 'rt_mf', source='mf'))
    for _ in range(20 * N):
        cases.append(_valid_case(rng, 'rt_nofor', source='nofor'))
    for _ in range(30 * N):
        cases.append(_valid_case(rng, 'rt_encaps', ts='rle'))
    for _ in range(8 * N):
        cases.append(_tame(_valid_case(rng, 'rt_encaps', ts='jpegls', big=True)))
    for _ in range(15 * N):
        c = _valid_case(rng, 'rescale', force_ty='FRACTIONAL')
        if c['ts'] == 'jpegls':
            c['ts'] = 'rle'
        c['req'] = list(range(c['P']))
        cases.append(c)
    for _ in range(64 * N):
        cases.append(_malformed(rng))
    for _ in range(12 * N):
        cases.append(_odd(rng))
    for _ in range(6 * N):
        cases.append(_d61(rng))     # every value rounds to 0 (finding D61, fixed): all-empty fallback
    for m in MEM[1:]:               # every layout at least once per run, then random ones
        c = _layout_case(rng)
        if m != 'chanfirst' or c['layout'] == 'stack':
            c['mem'] = m
        cases.append(c)
    for _ in range(40 * N):
        cases.append(_layout_case(rng))
    for _ in range(50 * N):
        cases.append(_hist_case(rng))
    for _ in range(24 * N):
        cases.append(_refusal_case(rng))
    for _ in range(24 * N):
        cases.append(_observe_case(rng))
    for _ in range(16 * N):
        cases.append(_sched_case(rng))
    # tiled sources: the mask as one total pixel matrix (every mode at least twice), frame by frame, refusals
    for m in ('tpm', 'tpm', 'tpm_full', 'tpm_full', 'tpm_size', 'tpm_size', 'tpm_order', 'tpm_order'):
        cases.append(_tiled_case(rng, mode=m))
    for _ in range(36 * N):
        cases.append(_tiled_case(rng))
    for _ in range(8 * N):
        cases.append(_tiled_case(rng, ts='rle'))
    for _ in range(3 * N):
        cases.append(_tame(_tiled_case(rng, ts='jpegls')))
    for _ in range(14 * N):
        cases.append(_tiled_frames_case(rng))
    for _ in range(2 * N):
        cases.append(_tiled_frames_case(rng, dup=True))
    # two source planes at one position (series of single frames, frames of one multi-frame image)
    for src in ['series', 'series', 'mf', 'series', 'mf', 'series', 'series', 'mf'] * N:
        cases.append(_dup_case(rng, src))
    for _ in range(12 * N):
        cases.append(_tiled_bad(rng))
    # pydicom packing
    for k in list(range(0, 20)) + [rng.randint(20, 70) for _ in range(10 * N)]:
        cases.append({'kind': 'pack', 'px': [rng.choice([0, 1]) for _ in range(k)]})
    # raw frame ranges + decode on hand-made bit-packed / 8 / 16-bit images
    for n in list(range(1, 18)) + [rng.randint(18, 40) for _ in range(6 * N)]:
        for _ in range(2):
            nf = rng.randint(1, 6)
            rows = rng.choice([d for d in range(1, n + 1) if n % d == 0])
            bits = rng.choice([1, 1, 1, 8, 16])
            px = [[rng.choice([0, 1]) if bits == 1 else rng.randrange(1 << bits) for _ in range(n)] for _ in range(nf)]
            cases.append({'kind': 'frame_at', 'bits': bits, 'rows': rows, 'cols': n // rows, 'frames': px,
                          'i': rng.randrange(nf), 'ts': rng.choice(['implicit', 'explicit'])})
    for _ in range(40 * N):
        b = rng.choice([1, 2, 4, 8, 256, 1024, 3, 10])
        cases.append({'kind': 'rhe', 'a': rng.randint(0, 300 * b), 'b': b})
    for b in (2, 4):
        for a in range(0, 6 * b + 1):
            cases.append({'kind': 'rhe', 'a': a, 'b': b})
    # the known-fixed regressions as fixed corpus-like cases are in corpus/C01
    for c in cases:
        _normalise(c)
    return cases


def _tpm(c):
    """is the mask of this case ONE total pixel matrix that the library tiles itself?"""
    return c['kind'] in ('rt_tiled', 'tiled_bad')


def _npix(c):
    """pixels per stored frame"""
    return c['th'] * c['tw'] if _tpm(c) else c['rows'] * c['cols']


def _normalise(c):
    if c['kind'] in ('pack', 'frame_at', 'rhe'):
        return
    if c['source'] == 'nofor':
        c['zrank'] = [0]
    if c['source'] in ('mf', 'sm') and not c.get('req_is_numbers'):
        c['req'] = [r + 1 for r in c['req']]
        c['req_is_numbers'] = True
    if c['ts'] == 'jpegls' and _npix(c) < 64:
        c['ts'] = 'rle'
    if c['ty'] == 'BINARY' and c['ts'] in ('rle', 'jpegls') and c.get('which') != 'binary_encaps':
        c['ts'] = 'explicit'


# --------------------------------------------------------------------------
# implementation runner
# --------------------------------------------------------------------------
def _np_array(c):
    import numpy as np
    P, rows, cols = c['P'], c['rows'], c['cols']
    a = np.array(c['data'], dtype=np.int64)
    if c['layout'] == 'stack':
        a = a.reshape(P, rows, cols, -1)
    else:
        a = a.reshape(P, rows, cols)
        if c['two_d']:
            a = a[0]
    if c['dtype'] in FLT_DT:
        a = (a.astype(np.float64) / c['den']).astype(c['dtype'])
    elif c['dtype'] == 'bool':
        a = a.astype(np.bool_)
    else:
        a = a.astype(c['dtype'])
    return _apply_mem(a, c.get('mem', 'C'))


def _apply_mem(a, mem):
    """the same array (values, shape, dtype) in another memory layout"""
    import numpy as np
    nd = a.ndim
    if mem == 'C' or nd < 2:
        return a
    if mem == 'F':
        b = np.asfortranarray(a)
    elif mem == 'planeT':
        # rows/columns axes: (0, 1) of a 2-D array, (1, 2) of a 3-D / 4-D one
        ax = list(range(nd))
        r = 0 if nd == 2 else 1
        ax[r], ax[r + 1] = ax[r + 1], ax[r]
        b = np.ascontiguousarray(a.transpose(ax)).transpose(ax)
    elif mem == 'volT':
        rev = list(range(nd))[::-1]
        b = np.ascontiguousarray(a.transpose(rev)).transpose(rev)
    elif mem == 'strided':
        big = np.zeros(tuple(2 * k for k in a.shape), a.dtype)
        big[...] = 1 if a.dtype == np.bool_ else 0      # filler that would show up if strides were ignored
        b = big[tuple(slice(1, None, 2) for _ in a.shape)]
        b[...] = a
    elif mem == 'neg':
        fl = tuple(slice(None, None, -1) for _ in a.shape)
        b = np.ascontiguousarray(a[fl])[fl]
    elif mem == 'chanfirst' and nd == 4:
        b = np.moveaxis(np.ascontiguousarray(np.moveaxis(a, -1, 0)), 0, -1)
    elif mem == 'readonly':
        b = a.copy()
        b.setflags(write=False)
    else:
        return a
    assert b.shape == a.shape and b.dtype == a.dtype and np.array_equal(a, b)
    return b


def _sources(c):
    import synth
    n = c['nsrc']
    zs = _zs(c)
    if c['source'] == 'mf':
        return [synth.ct_multiframe(zs, c['srows'], c['scols'])]
    if c['source'] == 'sm':
        if c.get('which') == 't_not_tiled':
            return [synth.ct_multiframe([0.0, 2.5], c['sth'], c['stw'])]
        if _tpm(c):
            sm = synth.sm_tiled(c['sR'], c['sC'], c['sth'], c['stw'], tiled_full=c['src_full'])
            if c.get('forder') is not None and not c['src_full']:
                items = list(sm.PerFrameFunctionalGroupsSequence)
                sm.PerFrameFunctionalGroupsSequence = [items[t] for t in c['forder']]
            return [sm]
        sm = synth.sm_tiled(c['R'], c['C'], c['th'], c['tw'], tiled_full=c['src_full'])
        if not c['src_full']:
            # a TILED_SPARSE image may list its frames in any order: source frame k is the tile forder[k]
            items = list(sm.PerFrameFunctionalGroupsSequence)
            sm.PerFrameFunctionalGroupsSequence = [items[t] for t in c['forder']]
        return [sm]
    if c['source'] == 'nofor':
        return [synth.no_for_image(c['srows'], c['scols'])]
    src = synth.ct_series(n, c['srows'], c['scols'])
    for s, z in zip(src, zs):
        s.ImagePositionPatient = [0.0, 0.0, z]
    return src


def _meta(seg, c, uids):
    out = []
    for f in seg.PerFrameFunctionalGroupsSequence:
        s = int(f.SegmentIdentificationSequence[0].ReferencedSegmentNumber) if 'SegmentIdentificationSequence' in f else 0
        si = f.DerivationImageSequence[0].SourceImageSequence[0]
        if c['source'] in ('mf', 'sm'):
            j = int(si.ReferencedFrameNumber) - 1
        else:
            j = uids.index(si.ReferencedSOPInstanceUID)
        out.append([s, j])
    return out


def _meta_tiled(seg, c):
    """per stored frame (segment or 0, tile index) of a segmentation the library tiled itself: the tile index
    (row-major over the tiles of the total pixel matrix) is taken from the plane position of the frame, for
    TILED_FULL from the implied order (segment-major, tiles row-major); + the source frame number each stored
    frame refers to ([] if there are no references); + notes on frames that are not on the tile grid"""
    th, tw = c['th'], c['tw']
    ntc = _cdiv(c['cols'], tw)
    nt = _cdiv(c['rows'], th) * ntc
    notes, refs = [], []
    if 'PerFrameFunctionalGroupsSequence' not in seg:
        it = [0] if c['ty'] == 'LABELMAP' else c['segs']
        return [[s, t] for s in it for t in range(nt)], refs, notes
    out = []
    for k, f in enumerate(seg.PerFrameFunctionalGroupsSequence):
        s = int(f.SegmentIdentificationSequence[0].ReferencedSegmentNumber) if 'SegmentIdentificationSequence' in f else 0
        pp = f.PlanePositionSlideSequence[0]
        r, q = int(pp.RowPositionInTotalImagePixelMatrix) - 1, int(pp.ColumnPositionInTotalImagePixelMatrix) - 1
        if r % th or q % tw or not (0 <= r < c['rows'] and 0 <= q < c['cols']):
            notes.append(f'stored frame {k + 1} is at matrix position ({r + 1}, {q + 1}), not on the tile grid')
        if 'DerivationImageSequence' in f and len(f.DerivationImageSequence):
            refs.append(int(f.DerivationImageSequence[0].SourceImageSequence[0].ReferencedFrameNumber))
        out.append([s, (r // th) * ntc + q // tw])
    if refs and len(refs) != len(out):
        notes.append('only some of the stored frames refer to a source frame')
    return out, refs, notes


def _read(obj, c, uids, rescale=False):
    import numpy as np

    def f():
        if c['byframe']:
            a = obj.get_pixels_by_source_frame(uids[0], c['req'], rescale_fractional=rescale,
                                               assert_missing_frames_are_empty=c['assert_missing'])
        else:
            req = [uids[j] if 0 <= j < len(uids) else '1.2.3.4.5.6' for j in c['req']]
            a = obj.get_pixels_by_source_instance(req, rescale_fractional=rescale,
                                                  assert_missing_frames_are_empty=c['assert_missing'])
        a = np.asarray(a)
        return a.reshape(a.shape[0], a.shape[1] * a.shape[2], a.shape[3]).tolist()
    try:
        return catch(f)
    except OSError:          # e.g. the lazy reader's 'Failed to read frame'
        return Err('OSError')


def _history(obj, c, uids, nframes):
    """apply the schedule c['hist'] to one object; one observation per step"""
    import numpy as np

    def frames(get):
        return lambda: [np.asarray(get(k)).reshape(-1).tolist() for k in range(nframes)]

    def combined():
        if c['byframe']:
            a = obj.get_pixels_by_source_frame(uids[0], c['req'], combine_segments=True,
                                               assert_missing_frames_are_empty=c['assert_missing'])
        else:
            a = obj.get_pixels_by_source_instance([uids[j] if 0 <= j < len(uids) else '1.2.3.4.5.6' for j in c['req']],
                                                  combine_segments=True,
                                                  assert_missing_frames_are_empty=c['assert_missing'])
        a = np.asarray(a)
        return a.reshape(a.shape[0], -1).tolist()
    out = []
    for k in c['hist']:
        try:
            if k == H_STACK:
                r = _read(obj, c, uids)
            elif k == H_COMBINE:
                r = catch(combined)
            elif k == H_WARM:
                r = catch(lambda: np.asarray(obj.pixel_array).reshape(nframes, -1).tolist())
            elif k == H_FRAMES:
                r = catch(frames(lambda i: obj.get_stored_frame(i + 1)))
            elif k == H_FRAMES_IDX:
                r = catch(frames(lambda i: obj.get_stored_frame(i, as_index=True)))
            else:
                r = catch(lambda: np.asarray(obj.get_stored_frames()).reshape(nframes, -1).tolist())
        except OSError:
            r = Err('OSError')
        out.append(r)
    return out


def _rot_order(n, r, rev):
    o = [(k + r) % n for k in range(n)]
    return o[::-1] if rev else o


def _shuffle_executor(r, rev):
    """an Executor that runs nothing at submit(); when the first result() is asked for it completes
    ALL submitted tasks in the order rot_order(n, r, rev) - i.e. not in submission order"""
    from concurrent.futures import Executor, Future

    class Fut(Future):
        def __init__(self, ex):
            super().__init__()
            self._ex = ex

        def result(self, timeout=None):
            if not self.done():
                self._ex.run_all()
            return super().result(timeout)

    class Ex(Executor):
        def __init__(self):
            self.tasks = []
            self.completed = []

        def submit(self, fn, /, *a, **k):
            f = Fut(self)
            self.tasks.append((f, fn, a, k))
            return f

        def run_all(self):
            n = len(self.tasks)
            for t in _rot_order(n, r, rev):
                f, fn, a, k = self.tasks[t]
                if f.done():
                    continue
                try:
                    f.set_result(fn(*a, **k))
                except BaseException as e:   # noqa
                    f.set_exception(e)
                self.completed.append(t)

        def shutdown(self, wait=True, *, cancel_futures=False):
            pass
    return Ex()


def _seg_case(c):
    import logging
    import warnings
    import multiprocessing
    import numpy as np
    import highdicom as hd
    import pydicom
    import synth
    from concurrent.futures import ThreadPoolExecutor
    logging.disable(logging.CRITICAL)
    warnings.filterwarnings('ignore')
    arr = _np_array(c)
    arr0 = arr.copy()
    src = _sources(c)
    uids = [s.SOPInstanceUID for s in src]
    pool = None
    workers = c['workers']
    shuffler = None
    if workers == 'shuffle':
        workers = shuffler = _shuffle_executor(c['rot'], c['rev'])
    elif workers == 'thread':
        workers = pool = ThreadPoolExecutor(2)
    elif workers:
        # the harness' own fork pool is daemonic; allow the library's process pool below it
        try:
            multiprocessing.current_process()._config['daemon'] = False
        except Exception:
            pass
    kw = {}
    if _tpm(c):
        kw['tile_pixel_array'] = True
        if c['explicit_size']:
            kw['tile_size'] = (c['th'], c['tw'])
        if c['mode'] == 'tpm_full':
            kw['dimension_organization_type'] = 'TILED_FULL'
    try:
        seg = catch(lambda: synth.make_seg(src, arr, c['ty'], c['segs'], max_fractional_value=c['maxfrac'],
                                           omit_empty_frames=c['omit'], transfer_syntax_uid=TS[c['ts']],
                                           workers=workers, **kw))
    finally:
        if pool is not None:
            pool.shutdown()
    if isinstance(seg, Err):
        return seg
    extras = []
    if not np.array_equal(arr, arr0):
        extras.append('input array was modified')
    if c.get('mutate_after') and arr.flags.writeable:
        # the caller re-uses its buffer: the stored object must not alias it
        arr[...] = (~arr if arr.dtype == np.bool_ else 0)
        base = arr
        while base.base is not None and isinstance(base.base, np.ndarray):
            base = base.base
        if base.flags.writeable:
            base[...] = (True if base.dtype == np.bool_ else 0)
    native = c['ts'] in ('implicit', 'explicit')
    nframes = int(seg.NumberOfFrames)
    pdata = list(bytes(seg.PixelData)) if native else []
    if _tpm(c):
        return _tiled_observe(seg, c, uids, extras, pdata)
    meta = _meta(seg, c, uids)
    if c['kind'] == 'rescale':
        return _read(seg, c, uids, rescale=True)
    if c['kind'] == 'sched':
        if shuffler is not None and shuffler.completed != _rot_order(nframes, c['rot'], c['rev']):
            raise RuntimeError(f'the pool did not complete the tasks in the prescribed order: {shuffler.completed}')
        return [nframes, meta, np.asarray(seg.get_stored_frames()).reshape(nframes, -1).tolist()]
    if c['kind'] == 'observe':
        buf = io.BytesIO()
        seg.save_as(buf)
        raw = buf.getvalue()
        eager = hd.seg.segread(io.BytesIO(raw))
        it = None
        if c['ty'] != 'LABELMAP':
            it = []
            for frames, frame_descs, desc in eager.iter_segments():
                grp = []
                for k in range(frames.shape[0]):
                    si = frame_descs[k].DerivationImageSequence[0].SourceImageSequence[0]
                    j = int(si.ReferencedFrameNumber) - 1 if c['source'] in ('mf', 'sm') else uids.index(si.ReferencedSOPInstanceUID)
                    grp.append([j, np.asarray(frames[k]).ravel().tolist()])
                it.append([int(desc.SegmentNumber), grp])
        pa = None
        if native:
            pa = np.asarray(pydicom.dcmread(io.BytesIO(raw)).pixel_array).reshape(nframes, -1).tolist()
        return [nframes, meta, it, pa, True]
    if c['kind'] == 'rt_hist':
        buf = io.BytesIO()
        try:
            seg.save_as(buf)
            raw = buf.getvalue()
            eager = hd.seg.segread(io.BytesIO(raw))
            lazy = hd.seg.segread(io.BytesIO(raw), lazy_frame_retrieval=True)
        except Exception as e:     # noqa
            return Err('write/read:' + type(e).__name__)
        # + what the model must also find: the input is valid, its specification holds for every object
        # and cache state, and whether the input can be shown as one label map (decided here from the
        # input alone, in the model by `combinable`)
        return ([nframes, meta] + [_history(o, c, uids, nframes) for o in (seg, eager, lazy)] +
                [True, True, all(st == 'ok' for st in _combine_status(c)), True])
    r_mem = _read(seg, c, uids)
    buf = io.BytesIO()
    try:
        seg.save_as(buf)
        raw = buf.getvalue()
        eager = hd.seg.segread(io.BytesIO(raw))
        lazy = hd.seg.segread(io.BytesIO(raw), lazy_frame_retrieval=True)
    except Exception as e:     # noqa
        return [nframes, meta, pdata, r_mem, Err('write/read:' + type(e).__name__), Err('write/read:' + type(e).__name__),
                extras]
    r_file = _read(eager, c, uids)
    r_lazy = _read(lazy, c, uids)
    # further observation points of the property: pydicom's own view of the file, iter_segments
    try:
        if c['kind'] == 'odd':
            raise StopIteration
        if not isinstance(r_mem, Err) and native:
            ds = pydicom.dcmread(io.BytesIO(raw))
            pa = np.asarray(ds.pixel_array).reshape(nframes, -1)
            want = np.zeros_like(pa)
            exp = _stored_expected(c)
            for k, (s, j) in enumerate(meta):
                want[k] = exp[(s, j)]
            if not np.array_equal(pa, want):
                extras.append('pydicom pixel_array of the written file differs from the expected stored frames')
        if not isinstance(r_mem, Err) and c['ty'] != 'LABELMAP':
            exp = _stored_expected(c)
            seen = 0
            for frames, frame_descs, desc in eager.iter_segments():
                s = int(desc.SegmentNumber)
                for k in range(frames.shape[0]):
                    si = frame_descs[k].DerivationImageSequence[0].SourceImageSequence[0]
                    j = int(si.ReferencedFrameNumber) - 1 if c['source'] in ('mf', 'sm') else uids.index(si.ReferencedSOPInstanceUID)
                    if frames[k].ravel().tolist() != exp[(s, j)]:
                        extras.append(f'iter_segments frame of segment {s}, source {j} differs from the input')
                    seen += 1
            if seen != nframes:
                extras.append(f'iter_segments yielded {seen} frames, NumberOfFrames is {nframes}')
    except StopIteration:
        pass
    except Exception as e:     # noqa
        extras.append('extra observation raised ' + type(e).__name__ + ': ' + str(e)[:80])
    out = [nframes, meta, pdata, r_mem, r_file, r_lazy, extras]
    if c['kind'].startswith('rt'):
        out.append(True)      # the model evaluates its specification function next to the read-back
        out.append(True)      # ... and its `valid` predicate (hypothesis of C01_roundtrip) on this input
    return out


def _tiled_observe(seg, c, uids, extras, pdata):
    """[NumberOfFrames; (segment, tile) per stored frame; PixelData; read by source frame of the in-memory, the
    eagerly and the lazily read object; discrepancies; True; True; decoded stored frames of the read file]"""
    import numpy as np
    import highdicom as hd
    nframes = int(seg.NumberOfFrames)
    meta, refs, notes = _meta_tiled(seg, c)
    extras = extras + notes
    # does reading ALL source frames give the mask under each of them, given the order the source lists its
    # frames in?  (decided from the input alone; the model decides it from its own read path)
    planes = _planes_expected(c)
    fo = _forder(c)
    ok_order = all(planes[fo[f]] == planes[f] for f in range(len(fo))) if len(fo) == len(planes) else True
    r_mem = _read(seg, c, uids)
    buf = io.BytesIO()
    try:
        seg.save_as(buf)
        raw = buf.getvalue()
        eager = hd.seg.segread(io.BytesIO(raw))
        lazy = hd.seg.segread(io.BytesIO(raw), lazy_frame_retrieval=True)
    except Exception as e:     # noqa
        er = Err('write/read:' + type(e).__name__)
        return [nframes, meta, pdata, r_mem, er, er, extras, True, True, [], refs, ok_order]
    r_file = _read(eager, c, uids)
    r_lazy = _read(lazy, c, uids)
    dec = catch(lambda: np.asarray(eager.get_stored_frames()).reshape(nframes, -1).tolist())
    # oracle-only observation (get_total_pixel_matrix is modelled by C04): the matrix handed over comes back
    want = _expected(c)[0]
    for nm, o in (('in-memory', seg), ('segread', eager), ('lazy segread', lazy)):
        try:
            t = np.asarray(o.get_total_pixel_matrix(rescale_fractional=False))
            if t.shape[:2] != (c['rows'], c['cols']) or t.reshape(c['rows'] * c['cols'], -1).tolist() != want:
                extras.append(f'{nm}: get_total_pixel_matrix differs from the total pixel matrix that was stored')
        except Exception as e:     # noqa
            extras.append(f'{nm}: get_total_pixel_matrix raised {type(e).__name__}: {str(e)[:80]}')
    return [nframes, meta, pdata, r_mem, r_file, r_lazy, extras, True, True, dec, refs, ok_order]


def _forder(c):
    """tile index (row-major) of every source frame of a tiled case"""
    n = _cdiv(c['rows'], c['th']) * _cdiv(c['cols'], c['tw'])
    return c['forder'] if c.get('forder') is not None else list(range(n))


def _planes_expected(c):
    """[source frame][pixel][segment] the user must get back; for a mask handed over as one total pixel
    matrix: per tile (row-major) the part of the matrix under it, zero beyond the bottom / right edge"""
    exp = _expected(c)
    if not _tpm(c):
        return exp
    R, C, th, tw, S = c['rows'], c['cols'], c['th'], c['tw'], len(c['segs'])
    m = exp[0]
    return [[m[(a * th + i) * C + b * tw + j] if a * th + i < R and b * tw + j < C else [0] * S
             for i in range(th) for j in range(tw)]
            for a in range(_cdiv(R, th)) for b in range(_cdiv(C, tw))]


def _stored_expected(c):
    """(segment or 0, plane) -> expected stored frame (flat list), from the input only"""
    exp = _planes_expected(c)
    segs = c['segs']
    out = {}
    for j, pl in enumerate(exp):
        if c['ty'] == 'LABELMAP':
            out[(0, j)] = [sum(segs[k] * (1 if v else 0) for k, v in enumerate(px)) for px in pl]
        else:
            for k, s in enumerate(segs):
                out[(s, j)] = [px[k] for px in pl]
    return out


def _frame_at_case(c):
    """A hand-made multi-frame image with bit-packed (or 8/16-bit) native PixelData:
    Image.get_raw_frame / get_stored_frame and the lazy ImageFileReader."""
    import numpy as np
    import highdicom as hd
    import pydicom
    from pydicom.pixels.utils import pack_bits
    import synth
    bits, rows, cols, fr, i = c['bits'], c['rows'], c['cols'], c['frames'], c['i']
    n = rows * cols
    if bits == 1:
        data = pack_bits(np.array(fr, np.uint8).ravel(), pad=False)
    else:
        data = np.array(fr, np.uint8 if bits == 8 else '<u2').tobytes()
    if len(data) % 2:
        data += b'\0'
    src = synth.ct_series(len(fr), rows, cols)
    a = np.zeros((len(fr), rows, cols), np.uint16)
    a[:, 0, 0] = 1 if bits < 16 else 300
    seg = synth.make_seg(src, a, 'BINARY' if bits == 1 else 'LABELMAP', [1] if bits < 16 else [300],
                         omit_empty_frames=False, transfer_syntax_uid=TS[c['ts']])
    assert int(seg.NumberOfFrames) == len(fr) and int(seg.BitsAllocated) == bits
    seg.PixelData = data
    raw = seg.get_raw_frame(i + 1)
    # locate the range: the model reports [a, b); recover it from the bytes returned and the frame arithmetic
    dec = seg.get_stored_frame(i + 1).ravel().tolist()
    buf = io.BytesIO()
    seg.save_as(buf)
    from pydicom.filebase import DicomBytesIO
    with hd.io.ImageFileReader(DicomBytesIO(buf.getvalue())) as rd:
        _ = rd.metadata
        off = rd._offset_table[i]
        lraw = rd.read_frame_raw(i)
        ldec = rd.read_frame(i).ravel().tolist()
    # start of the eager range: position of `raw` is start = f(i); we report lengths + contents
    start = _find_start(data, raw, bits, n, i)
    return [[start, start + len(raw)], dec, [off, len(lraw)], ldec]


def _find_start(data, raw, bits, n, i):
    # the eager reader slices PixelData[start:end]; `start` is recomputed here by the
    # definition "first byte that holds a bit of frame i" and checked against the bytes
    start = (i * n * bits) // 8
    if bytes(data[start:start + len(raw)]) != bytes(raw):
        return -1          # the bytes returned are not PixelData[start:start+len]
    return start


def run_impl(c):
    import numpy as np
    k = c['kind']
    if k == 'pack':
        from pydicom.pixels.utils import pack_bits, unpack_bits
        b = pack_bits(np.array(c['px'], np.uint8), pad=False) if c['px'] else b''
        return [list(b), np.asarray(unpack_bits(b)).tolist() if b else []]
    if k == 'frame_at':
        try:
            return catch(_frame_at_case, c)
        except OSError:
            return Err('OSError')
    if k == 'rhe':
        x = np.float64(c['a']) / np.float64(c['b'])
        return int(np.around(x))
    return _seg_case(c)


# --------------------------------------------------------------------------
# model term
# --------------------------------------------------------------------------
def _zlll(x):
    return '[' + '; '.join(zll(p) for p in x) + ']'


def _cfg(c):
    dt = 'DFloat' if c['dtype'] in FLT_DT else ('DInt' if c['dtype'] in INT_DT else 'DBad')
    native = 'true' if c['ts'] in ('implicit', 'explicit') else 'false'
    return (f"(Cfg {c['ty']} {dt} {zlit(c['den'])} {zlit(c['maxfrac'])} {'true' if c['omit'] else 'false'} "
            f"{zl(c['segs'])} {c['rows']} {c['cols']} {c['srows']} {c['scols']} {c['nsrc']} {native})")


def _perm(c):
    # plane sort permutation supplied by geometry (premise G1): decreasing position along the normal;
    # frames of a tiled source: by (row, column) position in the total pixel matrix
    if 'perm' in c:
        return c['perm']
    return sorted(range(len(c['zrank'])), key=lambda i: -c['zrank'][i])


def coq_term(c):
    k = c['kind']
    if k == 'pack':
        return f"(run_pack {zl(c['px'])})"
    if k == 'frame_at':
        import numpy as np
        from pydicom.pixels.utils import pack_bits
        if c['bits'] == 1:
            data = pack_bits(np.array(c['frames'], np.uint8).ravel(), pad=False)
        else:
            data = np.array(c['frames'], np.uint8 if c['bits'] == 8 else '<u2').tobytes()
        if len(data) % 2:
            data += b'\0'
        return f"(run_frame_at {c['bits']} {c['rows'] * c['cols']} {c['i']} {zl(list(data))})"
    if k == 'rhe':
        return f"(run_rhe {zlit(c['a'])} {zlit(c['b'])})"
    inp = f"(Stack {_zlll(c['data'])})" if c['layout'] == 'stack' else f"(Label {zll(c['data'])})"
    req = c['req']
    if _tpm(c):
        if c.get('which') == 't_not_tiled':
            return None        # whether the source is tiled at all is outside the model (oracle only)
        dt = 'DFloat' if c['dtype'] in FLT_DT else ('DInt' if c['dtype'] in INT_DT else 'DBad')
        b = lambda x: 'true' if x else 'false'     # noqa
        # cfg of a tiled case: rows/cols = tile size, srows/scols = total pixel matrix of the SOURCE
        cfg = (f"(Cfg {c['ty']} {dt} {zlit(c['den'])} {zlit(c['maxfrac'])} {b(c['omit'])} {zl(c['segs'])} "
               f"{c['th']} {c['tw']} {c['sR']} {c['sC']} {c['nsrc']} {b(c['ts'] in ('implicit', 'explicit'))})")
        return (f"(run_tiled {cfg} {c['rows']} {c['cols']} {b(c['mode'] == 'tpm_full')} "
                f"{b(c['mode'] in ('tpm', 'tpm_order'))} {inp} {zl(req)} {b(c['assert_missing'])} {zl(_forder(c))})")
    if k == 'rescale':
        return f"(run_rescaled {_cfg(c)} {inp} {zl(_perm(c))} {zl(req)})"
    if k == 'observe':
        return f"(run_observe {_cfg(c)} {inp} {zl(_perm(c))})"
    if k == 'sched':
        return f"(run_sched {_cfg(c)} {inp} {zl(_perm(c))} {c['rot']} {'true' if c['rev'] else 'false'})"
    if k == 'rt_hist':
        return (f"(run_hist2 {_cfg(c)} {inp} {zl(_perm(c))} {zl(req)} "
                f"{'true' if c['byframe'] else 'false'} {'true' if c['assert_missing'] else 'false'} {zl(c['hist'])})")
    b = lambda x: 'true' if x else 'false'     # noqa
    if k.startswith('rt') and c['source'] in ('series', 'mf', 'sm'):
        # the model computes the plane sort index from the POSITIONS of the source planes (np.unique with
        # return_index) and applies the uniqueness guard itself: stand-ins = minus the rank along z (the planes
        # are encoded by decreasing z) / the row-major tile index of a frame of a tiled source
        dist = c['forder'] if c['source'] == 'sm' else [-r for r in c['zrank']]
        return f"(run_seg_pos {_cfg(c)} {inp} {zl(dist)} {zl(req)} {b(c['byframe'])} {b(c['assert_missing'])})"
    fn = 'run_seg_spec' if k.startswith('rt') else 'run_seg'
    return (f"({fn} {_cfg(c)} {inp} {zl(_perm(c))} {zl(req)} "
            f"{'true' if c['byframe'] else 'false'} {'true' if c['assert_missing'] else 'false'})")


# --------------------------------------------------------------------------
# independent oracle
# --------------------------------------------------------------------------
def _want_read(c):
    exp = _planes_expected(c)
    n, S = _npix(c), len(c['segs'])
    zero = [[0] * S for _ in range(n)]
    out = []
    fo = _forder(c) if _tpm(c) and c.get('mode') in ('tpm', 'tpm_order') else None
    for r in c['req']:
        j = r - 1 if c['byframe'] else r
        if fo is not None and 0 <= j < len(fo):
            j = fo[j]            # the mask under source frame r is the tile that frame covers
        out.append(exp[j] if 0 <= j < len(exp) else zero)
    return out


def oracle(c, out):
    k = c['kind']
    if k == 'pack':
        px = c['px']
        by, un = out
        want = [sum(b << t for t, b in enumerate(px[i:i + 8])) for i in range(0, len(px), 8)]
        if by != want:
            return f'pack_bits gave {by}, LSB-first packing is {want}'
        if un[:len(px)] != px or any(un[len(px):]):
            return 'unpack_bits(pack_bits(x)) is not x followed by zero padding'
        return None
    if k == 'frame_at':
        fr, i = c['frames'], c['i']
        if isinstance(out, Err):
            return f'reading stored frame {i} of a valid image raised {out}'
        if out[1] != fr[i]:
            return f'eager stored frame {i} = {out[1]}, stored was {fr[i]}'
        if out[3] != fr[i]:
            return f'lazy frame {i} = {out[3]}, stored was {fr[i]}'
        return None
    if k == 'rhe':
        want = round(F(c['a'], c['b']))
        return None if out == want else f'np.around({c["a"]}/{c["b"]}) = {out}, half-even gives {want}'
    if k == 'odd':
        return None
    if k == 'tiled_bad':
        want = 'TypeError' if c['which'] == 't_dtype' else 'ValueError'
        return None if out == Err(want) else f'guard {c["which"]}: expected {want}, got {str(out)[:100]}'
    if k == 'malformed':
        w = c['which']
        want = {'dtype': 'TypeError', 'q_unknown': None if c['assert_missing'] else 'KeyError',
                'q_frame_big': None if c['assert_missing'] else 'ValueError'}.get(w, 'ValueError')
        if w.startswith('q_'):
            if isinstance(out, Err):
                return f'valid construction refused ({out})'
            reads = out[3:6]
            for r in reads:
                if want is None:
                    if isinstance(r, Err):
                        return f'query with assert_missing_frames_are_empty refused: {r}'
                    if r != _want_read(c):
                        return 'read-back with a missing source differs from the input / zeros'
                elif r != Err(want):
                    return f'query guard {w}: expected {want}, got {str(r)[:80]}'
            return None
        if out != Err(want):
            return f'guard {w}: expected {want}, got {str(out)[:100]}'
        return None
    # ---- valid stream: the property ------------------------------------------
    if isinstance(out, Err):
        # nothing was stored: legitimate (documented ValueError) when two source planes lie at one position - the
        # mask planes could not be told apart - or when the label-map style array holds an undescribed value
        if out == Err('ValueError') and (_has_dup(c) or _undescribed(c)):
            return None
        return f'valid input refused by the constructor: {out}'
    if _undescribed(c):
        # accepted: faithful only if the described segment reads back as the mask that was given - possible for
        # ONE described segment and a binary mask (the finding D117 was: stored as undescribed label 1, the
        # described segment read back empty)
        alt = None
        if len(c['segs']) == 1 and k not in ('rt_hist', 'observe', 'sched') and not _tpm(c):
            den = c['den'] if _is_float(c) else 1
            if all(px in (0, den) for pl in c['data'] for px in pl):
                alt = _want_read(dict(c, segs=[1], data=[[px // den for px in pl] for pl in c['data']], dtype='uint8', den=1))
        if alt is None or any(r != alt for r in out[3:6]):
            return ('a 2-D / 3-D array with values that are not described segment numbers (segments '
                    f'{c["segs"]}, {c["dtype"]}) was accepted, and the described segments do not read back as the '
                    'mask that was given (expected: ValueError "segments that lack descriptions")')
        return None
    want = _want_read(c)
    if k == 'rescale':
        import numpy as np
        if isinstance(out, Err):
            return f'rescaled read refused: {out}'
        mf = c['maxfrac']
        w = [[[float(np.float32(v) / np.float32(mf)) for v in px] for px in pl] for pl in want]
        if out != w:
            return 'rescaled read-back is not round_half_even(x*max)/max in float32'
        return None
    if k == 'rt_hist':
        return _oracle_hist(c, out, want)
    if k in ('observe', 'sched'):
        return _oracle_observe(c, out)
    nframes, meta, pdata, r_mem, r_file, r_lazy, extras = out[:7]
    noref = _tpm(c) and c['mode'] not in ('tpm', 'tpm_order')
    skip_byframe = noref or (_tpm(c) and c.get('judge') == 'matrix')
    if _tpm(c) and not skip_byframe:
        # every stored frame must refer to the source frame that lies over its tile
        fo, refs = _forder(c), out[10]
        if len(refs) != len(meta):
            return 'the stored frames do not refer to the source frames they were derived from'
        for k, ((_, t), f) in enumerate(zip(meta, refs)):
            if not (1 <= f <= len(fo)) or fo[f - 1] != t:
                under = fo.index(t) + 1 if t in fo else '?'
                return (f'stored frame {k + 1} holds tile {t} of the total pixel matrix, which lies under source '
                        f'frame {under}, but refers to source frame {f}')
    if noref:
        # TILED_FULL organisation / another tile size than the source: no stored frame refers to a source frame;
        # indexing by source frame is refused as documented - the stored frames are judged below
        bad = [nm for nm, r in (('memory', r_mem), ('file', r_file), ('lazy', r_lazy)) if r != Err('RuntimeError')]
        if bad:
            return f'expected the documented RuntimeError for indexing by source frame ({c["mode"]}; {bad})'
    elif c['byframe'] and not c['assert_missing'] and not skip_byframe:
        # documented refusal: a requested frame number above every referenced frame
        maxref = max(j for _, j in meta) + 1
        if any(f > maxref for f in c['req']):
            bad = [nm for nm, r in (('memory', r_mem), ('file', r_file), ('lazy', r_lazy)) if r != Err('ValueError')]
            return None if not bad else f'expected the documented ValueError for frames above {maxref} ({bad})'
    for nm, r in (('in-memory', r_mem), ('segread', r_file), ('lazy segread', r_lazy)):
        if skip_byframe:
            break
        if isinstance(r, Err):
            return f'{nm}: read-back refused: {r}'
        if r != want:
            for o, (a, b) in enumerate(zip(r, want)):
                if a != b:
                    p = next(i for i, (x, y) in enumerate(zip(a, b)) if x != y)
                    tiled = (f', matrix {c["rows"]}x{c["cols"]} in tiles of {c["th"]}x{c["tw"]}, in-tile pixel '
                             f'({p // c["tw"]}, {p % c["tw"]})') if _tpm(c) else ''
                    return (f'{nm}: source #{c["req"][o]} pixel {p}: got {a[p]}, input gives {b[p]} '
                            f'(type {c["ty"]}, {c["rows"]}x{c["cols"]}, {c["dtype"]}, omit={c["omit"]}{tiled})')
            return f'{nm}: read-back has wrong shape'
    if extras:
        return extras[0]
    # stored frames: one per (segment, plane) unless omitted as empty; never a duplicate
    if len(set(map(tuple, meta))) != len(meta) or nframes != len(meta):
        return 'duplicate or miscounted stored frames'
    se = _stored_expected(c)
    any_nonempty = any(any(v) for v in se.values())
    for key, px in se.items():
        present = list(key) in meta
        if c['omit'] and any_nonempty:
            plane_nonempty = any(any(v) for (s, j), v in se.items() if j == key[1])
            should = any(px) if c['ty'] != 'LABELMAP' else plane_nonempty
            if c['ty'] == 'FRACTIONAL' and _is_float(c):
                should = any(px)     # decided on quantised values
        else:
            should = True
        if present != should:
            return f'frame for (segment, plane)={key} stored={present}, expected stored={should}'
    if pdata:
        # native PixelData is fixed by the standard: frames concatenated in stored order,
        # 1-bit frames packed LSB-first without per-frame padding, even total length
        bits = 1 if c['ty'] == 'BINARY' else (8 if c['ty'] == 'FRACTIONAL' or max(c['segs']) < 256 else 16)
        flat = [v for (s, j) in map(tuple, meta) for v in se[(s, j)]]
        if bits == 1:
            by = [sum(b << t for t, b in enumerate(flat[i:i + 8])) for i in range(0, len(flat), 8)]
        elif bits == 8:
            by = flat
        else:
            by = [x for v in flat for x in (v & 255, v >> 8)]
        if pdata[:len(by)] != by or len(pdata) % 2 or len(pdata) - len(by) > 1:
            return 'native PixelData is not the global packing of the stored frames'
    if _tpm(c):
        dec = out[9]
        want_frames = [se[tuple(m)] for m in meta]
        if dec != want_frames:
            o = next((i for i, (a, b) in enumerate(zip(dec, want_frames)) if a != b), -1) if not isinstance(dec, Err) else -1
            return (f'stored frame {o + 1} (segment, tile) = {meta[o] if o >= 0 else "?"} is not the part of the total '
                    f'pixel matrix under that tile ({c["rows"]}x{c["cols"]} in tiles of {c["th"]}x{c["tw"]})')
    return None


def _oracle_observe(c, out):
    """iter_segments yields exactly the non-empty (segment, source) planes of the input, grouped by segment
    in ascending order; pydicom's pixel_array / the stored frames are the input planes of the frame keys"""
    nframes, meta = out[0], out[1]
    if len(set(map(tuple, meta))) != len(meta) or nframes != len(meta):
        return 'duplicate or miscounted stored frames'
    se = _stored_expected(c)
    want_frames = [se[tuple(m)] for m in meta]
    if c['kind'] == 'sched':
        if out[2] != want_frames:
            o = next((i for i, (a, b) in enumerate(zip(out[2], want_frames)) if a != b), -1)
            return (f'workers completing the encode tasks in the order rot={c["rot"]} rev={c["rev"]}: stored frame '
                    f'{o + 1} is not the plane of (segment, source) {meta[o] if o >= 0 else "?"}')
        return None
    it, pa = out[2], out[3]
    if pa is not None and pa != want_frames:
        return 'pydicom pixel_array of the written file differs from the input planes of the frame keys'
    if it is not None:
        seen = []
        for s, grp in it:
            for j, px in grp:
                if px != se.get((s, j)):
                    return f'iter_segments: frame of segment {s}, source {j} differs from the input'
                seen.append((s, j))
        if [s for s, _ in it] != sorted({s for s, _ in it}):
            return 'iter_segments: segments not in ascending order'
        if len(seen) != len(set(seen)) or len(seen) != nframes:
            return f'iter_segments yielded {len(seen)} frames, NumberOfFrames is {nframes}'
        for (s, j), px in se.items():
            if any(px) and (s, j) not in seen:
                return f'iter_segments: non-empty plane of segment {s}, source {j} not yielded'
    return None


def _oracle_hist(c, out, want):
    """every step of the schedule, on every object, must give what the input says - whatever was
    called before (the decoded-array cache is an optimisation, not an observable)"""
    nframes, meta = out[0], out[1]
    if len(set(map(tuple, meta))) != len(meta) or nframes != len(meta):
        return 'duplicate or miscounted stored frames'
    se = _stored_expected(c)
    want_frames = [se[tuple(m)] for m in meta]
    exp = _expected(c)
    status = _combine_status(c)
    segs = c['segs']
    want_comb = None
    for r in c['req']:
        j = r - 1 if c['byframe'] else r
        st = status[j] if 0 <= j < len(status) else 'ok'
        if st != 'ok':
            want_comb = {'overlap': ['RuntimeError'], 'nonbinary': ['ValueError'],
                         'ambiguous': ['RuntimeError', 'ValueError']}[st]
            break
    if want_comb is None:
        n = c['rows'] * c['cols']
        want_comb = []
        for r in c['req']:
            j = r - 1 if c['byframe'] else r
            want_comb.append([sum(segs[q] for q, v in enumerate(px) if v) for px in exp[j]]
                             if 0 <= j < len(exp) else [0] * n)
    names = {H_STACK: 'stacked read', H_COMBINE: 'combine_segments=True read', H_WARM: '.pixel_array',
             H_FRAMES: 'get_stored_frame(number)', H_STORED_FRAMES: 'get_stored_frames()',
             H_FRAMES_IDX: 'get_stored_frame(index, as_index=True)'}
    for nm, steps in zip(('in-memory', 'segread', 'lazy segread'), out[2:5]):
        warm = False
        for pos, (k, r) in enumerate(zip(c['hist'], steps)):
            where = (f'{nm}, step {pos} ({names[k]}, decoded-array cache {"warm" if warm else "cold"}, '
                     f'history {c["hist"][:pos]}; type {c["ty"]}, {nframes} frames)')
            if k == H_COMBINE:
                if isinstance(want_comb[0], str):
                    if not (isinstance(r, Err) and r.kind in want_comb):
                        return f'{where}: expected {" or ".join(want_comb)} (documented refusal), got {str(r)[:80]}'
                elif isinstance(r, Err):
                    return f'{where}: refused with {r}'
                elif r != want_comb:
                    o = next(i for i, (a, b) in enumerate(zip(r, want_comb)) if a != b) if len(r) == len(want_comb) else -1
                    return f'{where}: label map of requested source #{o} differs from the input'
            elif k == H_STACK:
                if isinstance(r, Err):
                    return f'{where}: refused with {r}'
                if r != want:
                    return f'{where}: read-back differs from the input'
            else:
                if isinstance(r, Err):
                    return f'{where}: refused with {r}'
                if r != want_frames:
                    o = next((i for i, (a, b) in enumerate(zip(r, want_frames)) if a != b), -1)
                    return f'{where}: stored frame {o + 1} is not the plane of (segment, source) {meta[o] if o >= 0 else "?"}'
            warm = warm or k == H_WARM
    return None


def nontrivial(c, out):
    k = c['kind']
    if k in ('pack',):
        return any(c['px'])
    if k == 'frame_at':
        return any(c['frames'][c['i']])
    if k == 'rhe':
        return True
    if isinstance(out, Err):
        return True
    if k == 'rescale':
        return any(v for pl in out for px in pl for v in px)
    if k in ('rt_hist', 'observe', 'sched'):
        return _nonzero(c)
    r = out[3]
    return isinstance(r, Err) or any(v for pl in r for px in pl for v in px)


def shrink(c):
    if c['kind'] in ('pack',):
        for i in range(len(c['px'])):
            yield dict(c, px=c['px'][:i] + c['px'][i + 1:])
        return
    if c['kind'] in ('frame_at', 'rhe'):
        return
    P = c['P']
    if c.get('mem', 'C') != 'C':
        yield dict(c, mem='C')
    if c.get('mutate_after'):
        yield dict(c, mutate_after=False)
    if c['kind'] == 'rt_hist':
        h = c['hist']
        for i in range(len(h)):
            if len(h) > 1:
                yield dict(c, hist=h[:i] + h[i + 1:])
    if c.get('workers'):
        yield dict(c, workers=0)
    if c['ts'] != 'explicit' and not (c['ty'] == 'BINARY' and c.get('which') == 'binary_encaps'):
        yield dict(c, ts='explicit')
    # drop a plane
    if P > 1 and c['nsrc'] == P and not c['two_d'] and c['source'] != 'sm':
        for p in range(P):
            zr = [z for i, z in enumerate(c['zrank']) if i != p]
            dense = {z: rank for rank, z in enumerate(sorted(set(zr)))}     # ties stay ties
            zr2 = [dense[z] for z in zr]
            req = list(range(1, P)) if c['byframe'] else list(range(P - 1))
            d = dict(c, P=P - 1, nsrc=P - 1, data=c['data'][:p] + c['data'][p + 1:], zrank=zr2, req=req)
            d.pop('zstep', None)
            yield d
    # clear pixels
    for p in range(P):
        for i in range(len(c['data'][p])):
            px = c['data'][p][i]
            if (any(px) if isinstance(px, list) else px):
                d = [list(pl) for pl in c['data']]
                d[p][i] = [0] * len(px) if isinstance(px, list) else 0
                yield dict(c, data=d)


def extra_obligations(work):
    # T-int: the integer helpers this model mirrors, re-translated from the current source
    import translate_int
    return translate_int.obligations(work, translate_int.FOR['C01'])


if __name__ == '__main__':
    sys.exit(common.main(sys.modules[__name__]))
